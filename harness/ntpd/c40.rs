//! C40 — GPSd (SOCK) samples are validated before use.
//!
//! Engine E-IN (exhaustive enumeration of a datagram grammar) at two levels:
//!
//! (d) DIRECT: `deserialize_sample(recv_result, buf)` through the probe, over
//!     recv results {Err, Ok(0..=64)} x magic {ok, each of the 32 single-bit corruptions}
//!     x pulse alphabet x offset bit patterns x leap alphabet.
//! (s) SOCKET: the same grammar as real datagrams of length 0..=64 sent over a real
//!     `UnixDatagram` to the real `SockSourceTask` (spawned through its own `spawn`), with a
//!     constant clock and a recording `SourceController`. A sentinel sample after every
//!     datagram delimits what the task did with it (Unix datagrams between one sender and
//!     one receiver are delivered in order).
//!
//! Oracle (from the statement + the gpsd wire format `struct sock_sample { struct timeval
//! tv; double offset; int pulse; int leap; int _pad; int magic; }`, 40 bytes on LP64,
//! magic 0x534f434b, `offset = real - clock` seconds):
//!     measurement  <=>  length == 40 && magic ok && pulse == 0 && offset finite
//!     measurement.receiver_ts == clock.now(), |sender_ts - receiver_ts| == |offset|
//!     (the sign convention, offset = remote - local, belongs to C05: see c05.rs)
//! and nothing ever panics / stalls the task.
use std::collections::HashMap;
use std::path::PathBuf;
use std::sync::{Arc, RwLock};

use ntp_proto::{
    ClockId, Measurement, NtpClock, NtpDuration, NtpLeapIndicator, NtpTimestamp,
    ObservableSourceTimedata, OneWaySource, PollInterval, SourceController,
};

use super::common::{self, Ctx};
use crate::daemon::ntp_source::SourceChannels;
use crate::daemon::sock_source::SockSourceTask;
use crate::daemon::sock_source::verif_probe::gm as probe;

// --- the gpsd wire format (independent of the code under test) -------------------------
pub(super) const SAMPLE_SIZE: usize = 40;
pub(super) const MAGIC: i32 = 0x534f_434b; // "SOCK"
const MAX_LEN: usize = 64;
const SENTINEL_OFFSET: f64 = 7777.25;

pub(super) fn sample_bytes(offset_bits: u64, pulse: i32, leap: i32, magic: i32) -> [u8; SAMPLE_SIZE] {
    let mut b = [0u8; SAMPLE_SIZE];
    b[0..8].copy_from_slice(&0x66f5_887f_i64.to_le_bytes()); // tv_sec
    b[8..16].copy_from_slice(&0x0004_8121_i64.to_le_bytes()); // tv_usec
    b[16..24].copy_from_slice(&offset_bits.to_le_bytes());
    b[24..28].copy_from_slice(&pulse.to_le_bytes());
    b[28..32].copy_from_slice(&leap.to_le_bytes());
    b[32..36].copy_from_slice(&[0xa5, 0x5a, 0xa5, 0x5a]); // padding: arbitrary
    b[36..40].copy_from_slice(&magic.to_le_bytes());
    b
}

/// A datagram of length `len` derived from a 40-byte sample: truncated, or extended with
/// filler bytes.
fn datagram(sample: &[u8; SAMPLE_SIZE], len: usize) -> Vec<u8> {
    let mut v = Vec::with_capacity(len);
    for i in 0..len {
        v.push(if i < SAMPLE_SIZE { sample[i] } else { 0xaa ^ (i as u8) });
    }
    v
}

fn offsets(thorough: bool) -> Vec<u64> {
    let mut v: Vec<f64> = vec![
        0.0,
        -0.0,
        1e-9,
        -1e-9,
        0.5,
        -0.5,
        1.0,
        -1.0,
        318_975.704_798_661,
        -86_400.0,
        1_073_741_824.0,  // 2^30
        2_147_483_647.0,  // 2^31 - 1
        2_147_483_648.0,  // 2^31
        -2_147_483_648.0, // -2^31
        1e300,
        -1e300,
        f64::MAX,
        f64::MIN,
        f64::MIN_POSITIVE,
        f64::from_bits(1),                     // smallest subnormal
        -f64::from_bits(0x000f_ffff_ffff_ffff), // largest subnormal, negative
    ];
    if thorough {
        for k in -40..=40 {
            let x = (2.0f64).powi(k);
            v.push(x);
            v.push(-x);
            v.push(x * 1.000_000_1);
        }
        v.extend([1e-3, -1e-3, 0.1, -0.1, 1e9, -1e9, 4_294_967_296.0, 1e18, -1e18, 123.456]);
    }
    let mut bits: Vec<u64> = v.into_iter().map(f64::to_bits).collect();
    // non-finite patterns
    bits.extend([
        0x7ff0_0000_0000_0000, // +inf
        0xfff0_0000_0000_0000, // -inf
        0x7ff8_0000_0000_0000, // quiet NaN
        0x7ff0_0000_0000_0001, // signalling NaN
        0xfff8_0000_0000_0000, // negative quiet NaN
        0x7ff8_dead_beef_cafe, // NaN with payload
        0xffff_ffff_ffff_ffff, // all ones
    ]);
    bits
}

fn magics() -> Vec<i32> {
    let mut v = vec![MAGIC];
    for bit in 0..32 {
        v.push(MAGIC ^ (1i32 << bit));
    }
    v
}

const LEAPS: [i32; 6] = [0, 1, 2, 3, 4, -1];

#[derive(Clone, Copy, Debug)]
struct Fields {
    offset_bits: u64,
    pulse: i32,
    leap: i32,
    magic: i32,
}

/// The statement's acceptance predicate; `Err(class suffix)` names the first failed condition.
fn expected(len: Option<usize>, f: &Fields) -> Result<(), &'static str> {
    match len {
        None => return Err("io-error"),
        Some(l) if l < SAMPLE_SIZE => return Err("short-datagram"),
        Some(l) if l > SAMPLE_SIZE => return Err("oversize-datagram"),
        _ => {}
    }
    if f.magic != MAGIC {
        return Err("bad-magic");
    }
    if f.pulse != 0 {
        return Err("pulse");
    }
    if !f64::from_bits(f.offset_bits).is_finite() {
        return Err("nonfinite-offset");
    }
    Ok(())
}

fn failed_conditions(len: Option<usize>, f: &Fields) -> u32 {
    (len != Some(SAMPLE_SIZE)) as u32
        + (f.magic != MAGIC) as u32
        + (f.pulse != 0) as u32
        + (!f64::from_bits(f.offset_bits).is_finite()) as u32
}

// --- (d) direct level --------------------------------------------------------------------

/// outcome classes of the direct level (vacuity counters): sample, io, slice, size, magic, pulse, other, panic
static DIRECT_OUTCOMES: [std::sync::atomic::AtomicU64; 8] = [const { std::sync::atomic::AtomicU64::new(0) }; 8];
const DIRECT_OUTCOME_NAMES: [&str; 8] = ["sample", "io", "slice", "size", "magic", "pulse", "other", "panic"];

fn direct_case(ctx: &Ctx, claimed: Option<usize>, f: &Fields) -> String {
    let buf = sample_bytes(f.offset_bits, f.pulse, f.leap, f.magic);
    let trace = format!(
        "d:{}:{}",
        claimed.map_or("ioerr".to_string(), |c| c.to_string()),
        common::hex(&buf)
    );
    let got = common::catch(|| probe::decode(claimed.ok_or(()), buf));
    let want = expected(claimed, f);
    let oc = match &got {
        Ok(probe::Decoded::Sample { .. }) => 0,
        Ok(probe::Decoded::Rejected(r)) => DIRECT_OUTCOME_NAMES.iter().position(|n| n == r).unwrap_or(6),
        Err(_) => 7,
    };
    DIRECT_OUTCOMES[oc].fetch_add(1, std::sync::atomic::Ordering::Relaxed);
    match (&got, want) {
        (Err(p), _) => ctx.violation(
            "C40:decode-panic",
            format!("deserialize_sample panicked: {p}"),
            trace.clone(),
        ),
        (Ok(probe::Decoded::Sample { offset_bits, pulse, leap, magic }), Ok(())) => {
            if *offset_bits != f.offset_bits || *pulse != f.pulse || *leap != f.leap || *magic != f.magic {
                ctx.violation(
                    "C40:decoded-field-mismatch",
                    format!("decoded {got:?} from fields {f:?}"),
                    trace.clone(),
                );
            }
        }
        (Ok(probe::Decoded::Sample { .. }), Err(why)) => {
            let class = if why == "oversize-datagram" || why == "short-datagram" {
                "C40:wrong-size-accepted".to_string()
            } else {
                format!("C40:{why}-accepted")
            };
            ctx.violation(
                &class,
                format!(
                    "deserialize_sample(recv={claimed:?}) returned a sample although {why} (offset {:?} = {:#018x}, pulse {}, magic {:#x})",
                    f64::from_bits(f.offset_bits), f.offset_bits, f.pulse, f.magic
                ),
                trace.clone(),
            );
        }
        (Ok(probe::Decoded::Rejected(r)), Ok(())) => ctx.violation(
            "C40:valid-sample-rejected",
            format!("well-formed sample rejected ({r}): {f:?}"),
            trace.clone(),
        ),
        (Ok(probe::Decoded::Rejected(_)), Err(_)) => {}
    }
    format!("{got:?} want_accept={}", want.is_ok())
}

fn run_direct(ctx: &Ctx) {
    let offs = offsets(!ctx.quick());
    let mags = magics();
    let pulses: [i32; 6] = [0, 1, -1, i32::MIN, 0x100, 0x0100_0000];
    // claimed: index 0 = I/O error, 1..=65 = Ok(0..=64)
    let radix = [MAX_LEN + 2, mags.len(), pulses.len(), offs.len(), LEAPS.len()];
    let total: u64 = radix.iter().map(|r| *r as u64).product();
    // canonical minimal witnesses first (sequential), so that the traces kept per class are
    // the same on every run; the sweep below covers them again.
    for bits in [0x7ff8_0000_0000_0000u64, 0x7ff0_0000_0000_0000, 0xfff0_0000_0000_0000] {
        let f = Fields { offset_bits: bits, pulse: 0, leap: 0, magic: MAGIC };
        let obs = direct_case(ctx, Some(SAMPLE_SIZE), &f);
        ctx.inc("evaluations");
        ctx.inc("direct_cases");
        ctx.add("transitions", 1);
        ctx.sample(format!("direct recv=Ok(40) offset={:?} -> {obs}", f64::from_bits(bits)));
    }
    common::par_for(total, 4096, |i| {
        let mut x = i as usize;
        let mut idx = [0usize; 5];
        for k in (0..5).rev() {
            idx[k] = x % radix[k];
            x /= radix[k];
        }
        let claimed = if idx[0] == 0 { None } else { Some(idx[0] - 1) };
        let f = Fields {
            offset_bits: offs[idx[3]],
            pulse: pulses[idx[2]],
            leap: LEAPS[idx[4]],
            magic: mags[idx[1]],
        };
        direct_case(ctx, claimed, &f);
        if failed_conditions(claimed, &f) <= 1 {
            ctx.distinct(common::hash_of(&("d", idx)));
        }
    });
    ctx.add("evaluations", total);
    ctx.add("direct_cases", total);
    for (i, n) in DIRECT_OUTCOME_NAMES.iter().enumerate() {
        ctx.set(&format!("direct_outcome_{n}"), DIRECT_OUTCOMES[i].load(std::sync::atomic::Ordering::Relaxed));
    }
    ctx.add("transitions", total);
}

// --- (s) socket level --------------------------------------------------------------------

#[derive(Clone)]
pub(super) struct FixedClock(pub(super) NtpTimestamp);

impl NtpClock for FixedClock {
    type Error = std::io::Error;
    fn now(&self) -> Result<NtpTimestamp, Self::Error> {
        Ok(self.0)
    }
    fn set_frequency(&self, _freq: f64) -> Result<NtpTimestamp, Self::Error> {
        Ok(self.0)
    }
    fn get_frequency(&self) -> Result<f64, Self::Error> {
        Ok(0.0)
    }
    fn step_clock(&self, _offset: NtpDuration) -> Result<NtpTimestamp, Self::Error> {
        Ok(self.0)
    }
    fn disable_ntp_algorithm(&self) -> Result<(), Self::Error> {
        Ok(())
    }
    fn error_estimate_update(&self, _e: NtpDuration, _m: NtpDuration) -> Result<(), Self::Error> {
        Ok(())
    }
    fn status_update(&self, _l: NtpLeapIndicator) -> Result<(), Self::Error> {
        Ok(())
    }
}

struct Recorder {
    tx: tokio::sync::mpsc::UnboundedSender<Measurement>,
}

impl SourceController for Recorder {
    fn handle_measurement(&mut self, measurement: Measurement) {
        self.tx.send(measurement).ok();
    }
    fn set_usable(&mut self, _usable: bool) {}
    fn desired_poll_interval(&self) -> PollInterval {
        PollInterval::from_byte(4)
    }
    fn observe(&self) -> ObservableSourceTimedata {
        ObservableSourceTimedata::default()
    }
}

fn t0() -> NtpTimestamp {
    NtpTimestamp::from_seconds_nanos_since_ntp_era(3_900_000_000, 250_000_000)
}

/// One real `SockSourceTask` on its own current-thread runtime, with a constant clock and a
/// recording controller, plus a connected sender socket (also used by C05).
pub(super) struct Rig {
    rt: tokio::runtime::Runtime,
    sock: tokio::net::UnixDatagram,
    rx: tokio::sync::mpsc::UnboundedReceiver<Measurement>,
    handle: tokio::task::JoinHandle<()>,
    pub(super) index: ClockId,
    path: PathBuf,
    sentinel: [u8; SAMPLE_SIZE],
    pub(super) stalls: u32,
}

fn scratch_dir() -> PathBuf {
    PathBuf::from(format!("/verif/work/c40-{}", std::process::id()))
}

impl Rig {
    fn new(name: &str) -> Rig {
        Rig::new_in(&scratch_dir(), name, t0())
    }

    /// Socket file `dir/name`; the task's clock always answers `now`.
    pub(super) fn new_in(dir: &std::path::Path, name: &str, now: NtpTimestamp) -> Rig {
        std::fs::create_dir_all(dir).expect("scratch dir");
        let path = dir.join(name);
        let rt = tokio::runtime::Builder::new_current_thread()
            .enable_all()
            .build()
            .expect("runtime");
        let index = ClockId::new();
        let p2 = path.clone();
        let (handle, sock, rx) = rt.block_on(async move {
            let (mtx, mrx) = tokio::sync::mpsc::unbounded_channel();
            let (sys_tx, _sys_rx) = tokio::sync::mpsc::channel(1);
            let handle = SockSourceTask::<FixedClock, Recorder>::spawn(
                index,
                p2.clone(),
                FixedClock(now),
                SourceChannels {
                    msg_for_system_sender: sys_tx,
                    source_snapshots: Arc::new(RwLock::new(HashMap::new())),
                },
                OneWaySource::new(Recorder { tx: mtx }),
            );
            let sock = tokio::net::UnixDatagram::unbound().expect("unbound");
            sock.connect(&p2).expect("connect");
            (handle, sock, mrx)
        });
        Rig {
            rt,
            sock,
            rx,
            handle,
            index,
            path,
            sentinel: sample_bytes(SENTINEL_OFFSET.to_bits(), 0, 0, MAGIC),
            stalls: 0,
        }
    }

    /// Send one datagram followed by the sentinel; return the measurements the task
    /// produced for the datagram. `Err` = the task crashed or stalled.
    pub(super) fn run_case(&mut self, dgram: &[u8]) -> Result<Vec<Measurement>, String> {
        let Rig { rt, sock, rx, handle, sentinel, .. } = self;
        rt.block_on(async {
            sock.send(dgram).await.map_err(|e| format!("send failed: {e}"))?;
            sock.send(&sentinel[..]).await.map_err(|e| format!("send failed: {e}"))?;
            let mut out = Vec::new();
            loop {
                match tokio::time::timeout(std::time::Duration::from_secs(3), rx.recv()).await {
                    Ok(Some(m)) => {
                        let d = (m.sender_ts - m.receiver_ts).to_seconds().abs();
                        // (`to_seconds` divides by 2^32-1, so allow a relative 2^-32 error)
                        if (d - SENTINEL_OFFSET).abs() < 1e-3 {
                            return Ok(out);
                        }
                        out.push(m);
                    }
                    Ok(None) => return Err("task ended (controller dropped)".to_string()),
                    Err(_) => {
                        return Err(if handle.is_finished() {
                            "task finished/panicked".to_string()
                        } else {
                            "sentinel sample not processed within 3 s".to_string()
                        });
                    }
                }
            }
        })
    }
}

impl Drop for Rig {
    fn drop(&mut self) {
        self.handle.abort();
        std::fs::remove_file(&self.path).ok();
    }
}

fn fmt_measurements(ms: &[Measurement]) -> String {
    ms.iter()
        .map(|m| {
            format!(
                "{{off={:?} recv_is_now={} leap={:?} sender_id_ok rd={:?} rdisp={:?}}}",
                (m.sender_ts - m.receiver_ts).to_seconds(),
                m.receiver_ts == t0(),
                m.leap,
                m.root_delay,
                m.root_dispersion
            )
        })
        .collect::<Vec<_>>()
        .join(",")
}

/// Check what the task did with `dgram` (whose leading bytes carry `f`) against the statement.
fn socket_case(ctx: &Ctx, rig: &mut Rig, dgram: &[u8], f: &Fields) -> String {
    let trace = format!("s:{}", common::hex(dgram));
    let want = expected(Some(dgram.len()), f);
    let got = match rig.run_case(dgram) {
        Ok(ms) => ms,
        Err(e) => {
            rig.stalls += 1;
            ctx.violation(
                "C40:task-crashed",
                format!("SockSourceTask stopped working after a {}-byte datagram: {e}", dgram.len()),
                trace.clone(),
            );
            return format!("stalled: {e}");
        }
    };
    if got.len() > 1 {
        ctx.violation(
            "C40:duplicate-measurement",
            format!("{} measurements for one datagram", got.len()),
            trace.clone(),
        );
    }
    match (got.first(), want) {
        (Some(_), Err(why)) => ctx.violation(
            &format!("C40:{why}-accepted"),
            format!(
                "{}-byte datagram became a measurement although {why} (offset {:?} = {:#018x}, pulse {}, magic {:#x}): {}",
                dgram.len(), f64::from_bits(f.offset_bits), f.offset_bits, f.pulse, f.magic, fmt_measurements(&got)
            ),
            trace.clone(),
        ),
        (None, Ok(())) => ctx.violation(
            "C40:valid-sample-rejected",
            format!("well-formed 40-byte sample produced no measurement: {f:?}"),
            trace.clone(),
        ),
        (Some(m), Ok(())) => {
            ctx.inc("socket_measurements");
            match m.leap {
                NtpLeapIndicator::NoWarning => ctx.inc("leap_nowarning"),
                NtpLeapIndicator::Leap61 => ctx.inc("leap_61"),
                NtpLeapIndicator::Leap59 => ctx.inc("leap_59"),
                _ => ctx.inc("leap_unknown"),
            }
            if m.receiver_ts != t0() {
                ctx.violation(
                    "C40:receiver-ts-not-local-now",
                    format!("receiver_ts {:?} != clock.now() {:?}", m.receiver_ts, t0()),
                    trace.clone(),
                );
            }
            if m.sender_id != rig.index || m.receiver_id != ClockId::SYSTEM {
                ctx.violation("C40:measurement-ids", "wrong sender/receiver id", trace.clone());
            }
            // The measurement must carry the sample's offset; its SIGN convention (remote - local)
            // is property C05's business (see c05.rs), here only the magnitude is compared.
            let off = f64::from_bits(f.offset_bits);
            let measured = (m.sender_ts - m.receiver_ts).to_seconds();
            let two30 = 1_073_741_824.0;
            if off.abs() <= two30 {
                let tol = 1e-9 * off.abs() + 1.0 / 2_147_483_648.0;
                if (measured.abs() - off.abs()).abs() > tol {
                    ctx.violation(
                        "C40:offset-value",
                        format!("sample offset {off:?} s but the measurement has |sender_ts - receiver_ts| = {:?} s", measured.abs()),
                        trace.clone(),
                    );
                }
            } else if measured.abs() < two30 * 0.999 {
                ctx.violation(
                    "C40:offset-value",
                    format!("huge sample offset {off:?} s became sender_ts - receiver_ts = {measured:?} s"),
                    trace.clone(),
                );
            }
        }
        (None, Err(_)) => ctx.inc("socket_rejections"),
    }
    format!("measurements=[{}] want_accept={}", fmt_measurements(&got), want.is_ok())
}

fn run_socket(ctx: &Ctx) {
    let thorough = !ctx.quick();
    let offs = offsets(thorough);
    let mags = magics();
    let pulses: [i32; 3] = [0, 1, -1];
    // family A: length x magic x pulse x offset (leap 0; quick) / x leap (thorough)
    let leaps_a: &[i32] = if thorough { &LEAPS } else { &[0] };
    let radix_a = [MAX_LEN + 1, mags.len(), pulses.len(), offs.len(), leaps_a.len()];
    let total_a: u64 = radix_a.iter().map(|r| *r as u64).product();
    // family B (quick only; thorough has it inside A): length x offset x leap != 0, magic/pulse valid
    let radix_b = [MAX_LEN + 1, offs.len(), LEAPS.len() - 1];
    let total_b: u64 = if thorough { 0 } else { radix_b.iter().map(|r| *r as u64).product() };
    let total = total_a + total_b;
    {
        // canonical minimal witnesses first (sequential, one rig): see run_direct
        let mut rig = Rig::new("w.sock");
        let half = 0.5f64.to_bits();
        for (len, bits) in [
            (40usize, half),
            (40, (-1.0f64).to_bits()),
            (40, 0x7ff8_0000_0000_0000u64),
            (40, 0x7ff0_0000_0000_0000),
            (40, 0xfff0_0000_0000_0000),
            (41, half),
            (64, half),
            (39, half),
        ] {
            let f = Fields { offset_bits: bits, pulse: 0, leap: 0, magic: MAGIC };
            let sample = sample_bytes(f.offset_bits, f.pulse, f.leap, f.magic);
            let obs = socket_case(ctx, &mut rig, &datagram(&sample, len), &f);
            ctx.inc("evaluations");
            ctx.inc("socket_cases");
            ctx.add("transitions", 2);
            ctx.sample(format!("socket len={len} offset={:?} pulse=0 magic=ok -> {obs}", f64::from_bits(bits)));
        }
    }
    let next_rig = std::sync::atomic::AtomicU64::new(0);
    common::par_for_with(
        total,
        512,
        || {
            let k = next_rig.fetch_add(1, std::sync::atomic::Ordering::Relaxed);
            Rig::new(&format!("t{k}.sock"))
        },
        |rig, i| {
            if rig.stalls >= 3 {
                ctx.inc("socket_cases_skipped_after_stall");
                return;
            }
            let (len, f, key) = if i < total_a {
                let mut x = i as usize;
                let mut idx = [0usize; 5];
                for k in (0..5).rev() {
                    idx[k] = x % radix_a[k];
                    x /= radix_a[k];
                }
                (
                    idx[0],
                    Fields { offset_bits: offs[idx[3]], pulse: pulses[idx[2]], leap: leaps_a[idx[4]], magic: mags[idx[1]] },
                    ("sa", idx),
                )
            } else {
                let mut x = (i - total_a) as usize;
                let mut idx = [0usize; 5];
                for k in (0..3).rev() {
                    idx[k] = x % radix_b[k];
                    x /= radix_b[k];
                }
                (
                    idx[0],
                    Fields { offset_bits: offs[idx[1]], pulse: 0, leap: LEAPS[idx[2] + 1], magic: MAGIC },
                    ("sb", idx),
                )
            };
            let sample = sample_bytes(f.offset_bits, f.pulse, f.leap, f.magic);
            let dgram = datagram(&sample, len);
            // fields as the receiver can see them (a truncated datagram does not carry all)
            socket_case(ctx, rig, &dgram, &f);
            ctx.inc("socket_cases");
            ctx.inc("evaluations");
            ctx.add("transitions", 2); // datagram + sentinel, both through the real task
            if failed_conditions(Some(len), &f) <= 1 {
                ctx.distinct(common::hash_of(&key));
            }
        },
    );
    if ctx.get("socket_cases_skipped_after_stall") > 0 {
        ctx.cap_hit("socket sweep abandoned on some workers after 3 task stalls (see C40:task-crashed)");
    }
}

fn parse_fields(b: &[u8]) -> Fields {
    let mut s = [0u8; SAMPLE_SIZE];
    for (i, x) in b.iter().take(SAMPLE_SIZE).enumerate() {
        s[i] = *x;
    }
    Fields {
        offset_bits: u64::from_le_bytes(s[16..24].try_into().unwrap()),
        pulse: i32::from_le_bytes(s[24..28].try_into().unwrap()),
        leap: i32::from_le_bytes(s[28..32].try_into().unwrap()),
        magic: i32::from_le_bytes(s[36..40].try_into().unwrap()),
    }
}

fn replay(ctx: &Ctx, trace: &str) -> String {
    let parts: Vec<&str> = trace.split(':').collect();
    match parts.as_slice() {
        ["d", claimed, hex] => {
            let bytes = common::unhex(hex).unwrap_or_default();
            let f = parse_fields(&bytes);
            let claimed = claimed.parse::<usize>().ok();
            direct_case(ctx, claimed, &f)
        }
        ["s", hex] => {
            let bytes = common::unhex(hex).unwrap_or_default();
            let f = parse_fields(&bytes);
            let mut rig = Rig::new("replay.sock");
            let r = socket_case(ctx, &mut rig, &bytes, &f);
            drop(rig);
            std::fs::remove_dir_all(scratch_dir()).ok();
            std::fs::remove_dir("/verif/work").ok();
            r
        }
        _ => format!("unparseable trace {trace:?}"),
    }
}

#[test]
fn check() {
    let ctx = Ctx::new("C40");
    if let Some(t) = common::replay_trace() {
        let a = replay(&ctx, &t);
        let b = replay(&ctx, &t);
        common::report_replay("C40", &a, &b, ctx.violation_count() > 0);
        return;
    }
    ctx.rule(
        "(d) deserialize_sample over recv result {io error, Ok(0..=64)} x magic {ok, 32 single-bit corruptions} x pulse \
         {0,1,-1,i32::MIN,0x100,0x1000000} x offset bit patterns {21 finite boundary values incl. subnormals, +-inf, 5 NaN \
         patterns; thorough: + 253 more finite values} x leap {0,1,2,3,4,-1}; (s) real datagrams of every length 0..=64 \
         (truncated / extended sample) x magic x pulse {0,1,-1} x offsets (x leap in thorough; quick: leap varied only for \
         otherwise valid fields) sent over a UnixDatagram to the real SockSourceTask, each followed by a sentinel sample. \
         Distinct & non-trivial = a case in which at most one of the four acceptance conditions (size, magic, pulse, finite) fails.",
    );
    ctx.assume("gpsd wire format: 40-byte struct sock_sample (LP64), magic 0x534f434b, offset = real - clock in seconds (gpsd timehint.c / chrony refclock_sock.c)");
    ctx.assume("Unix datagrams from one connected sender to one receiver are delivered in order (used to delimit the task's reaction with a sentinel sample)");
    ctx.assume("the clock handed to the task is constant, so receiver_ts must equal it exactly");
    ctx.note(
        "code_constants",
        &format!("SOCK_SAMPLE_SIZE={} SOCK_MAGIC={:#x}", probe::CODE_SAMPLE_SIZE, probe::CODE_MAGIC),
    );
    run_direct(&ctx);
    run_socket(&ctx);
    std::fs::remove_dir_all(scratch_dir()).ok();
    std::fs::remove_dir("/verif/work").ok(); // only succeeds if nobody else uses it
    ctx.set("states", ctx.get("direct_cases") + ctx.get("socket_cases"));
    ctx.exhaustive(ctx.get("socket_cases_skipped_after_stall") == 0);
    ctx.finish();
}
