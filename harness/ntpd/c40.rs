//! C40: not implemented yet.
