//! c36_system (ntpd): not implemented yet.
