//! C36 (system-task link) — `ntpd/src/daemon/system.rs`, the task between the source tasks and the spawners.
//!
//! The "system events" C36 quantifies over are produced here: a source task reports
//! `MsgForSystem::{MustDemobilize, NetworkIssue, Unreachable}(id)`, the system task must drop exactly that
//! source and tell exactly the spawner that created it `SourceRemoved{id, Demobilized | NetworkIssue |
//! Unreachable}`; `handle_spawn_event` records which spawner owns a new source and answers with
//! `SourceRegistered`. gl's c36.rs plays the system by hand; this module drives the REAL one.
//!
//! Part X (explicit state, exhaustive): the real `SystemTask` (built by `SystemTask::new` as `spawn` does, mock
//! clock), two scripted spawners S1,S2 registered with the real `add_spawner` (=> real `spawner_task`s deliver the
//! notifications to the real `Spawner` trait methods, which record them), events
//!   `S<i>`      spawner i asks for a new NTP source  -> real `handle_spawn_event` -> real `create_source`
//!               (a real `SourceTask` is spawned; it polls a closed loopback port once),
//!   `R<j><k>`   source j (creation index; `x` = an id that never existed) reports k in {D,N,U}
//!               -> real `handle_source_update`,
//! (1) ALL event sequences up to depth 4 / 5 (<= 3 live sources), (2) all (state, event) pairs of the
//! deduplicated state graph up to depth 5 / 7, state = per created source (owner, live | removed by k).
//! Reference model: BTreeMap live source -> owner and the list of what each spawner must have been told.
//! Part E (end to end): S1 is the REAL `StandardSpawner` (DNS stub with 8 distinct addresses), S2 scripted, the
//! system runs its REAL `run` loop; reports are put on the channel the source tasks hold. ALL words of length
//! 4 / 5 / 6 over {W wait 1.1 s, RD RN RU report for S1's live source, M S2 creates, rD rN rU report for S2's}.
//! Part B (backpressure, both tiers): the owner sits inside `try_spawn` behind a harness gate, its 32-slot notification
//! channel is filled (empty / one free / full) through the sender the system uses, then its source(s) report.
//! Part K (soak, one deterministic run): nothing is injected; the real source task gives up by itself.
use std::collections::{BTreeMap, BTreeSet};
use std::future::Future;
use std::net::{Ipv4Addr, SocketAddr};
use std::sync::{Arc, Mutex};
use std::task::Poll;
use std::time::Duration;

use ntp_proto::{ClockId, ProtocolVersion, SourceConfig};
use tokio::sync::mpsc;

use super::common::{self, Ctx};
use crate::daemon::config::verif_probe::ntp_source_probe::gt as dns;
use crate::daemon::config::{NormalizedAddress, NtpAddress, StandardSource};
use crate::daemon::ntp_source::MsgForSystem;
use crate::daemon::spawn::{
    NtpSourceCreateParameters, SourceCreateParameters, SourceRemovalReason, SourceRemovedEvent,
    SpawnAction, SpawnEvent, Spawner, SpawnerId, standard::StandardSpawner,
};
use crate::daemon::system::verif_probe::gt as sp;

// ---------------------------------------------------------------------------------------------
// alphabet
// ---------------------------------------------------------------------------------------------

#[derive(Clone, Copy, PartialEq, Eq, Hash, Debug, PartialOrd, Ord)]
pub(super) enum Kind {
    D,
    N,
    U,
}

impl Kind {
    pub(super) const ALL: [Kind; 3] = [Kind::D, Kind::N, Kind::U];
    pub(super) fn ch(self) -> char {
        match self {
            Kind::D => 'D',
            Kind::N => 'N',
            Kind::U => 'U',
        }
    }
    pub(super) fn from_ch(c: char) -> Option<Kind> {
        match c {
            'D' | 'd' => Some(Kind::D),
            'N' | 'n' => Some(Kind::N),
            'U' | 'u' => Some(Kind::U),
            _ => None,
        }
    }
    /// what the source task sends
    pub(super) fn msg(self, id: ClockId) -> MsgForSystem {
        match self {
            Kind::D => MsgForSystem::MustDemobilize(id),
            Kind::N => MsgForSystem::NetworkIssue(id),
            Kind::U => MsgForSystem::Unreachable(id),
        }
    }
    /// STATEMENT: MustDemobilize -> Demobilized (never respawned), NetworkIssue -> NetworkIssue,
    /// Unreachable -> Unreachable (re-resolved).
    pub(super) fn expected_reason(self) -> char {
        match self {
            Kind::D => 'D',
            Kind::N => 'N',
            Kind::U => 'U',
        }
    }
}

fn reason_ch(r: &SourceRemovalReason) -> char {
    match r {
        SourceRemovalReason::Demobilized => 'D',
        SourceRemovalReason::NetworkIssue => 'N',
        SourceRemovalReason::Unreachable => 'U',
    }
}

pub(super) const GHOST: u8 = 255;

#[derive(Clone, Copy, PartialEq, Eq, Hash, Debug)]
pub(super) enum Ev {
    Spawn(u8),
    Report(u8, Kind),
}

pub(super) fn fmt_trace(evs: &[Ev]) -> String {
    let mut v = Vec::new();
    for e in evs {
        v.push(match e {
            Ev::Spawn(s) => format!("S{}", s + 1),
            Ev::Report(GHOST, k) => format!("Rx{}", k.ch()),
            Ev::Report(j, k) => format!("R{}{}", j, k.ch()),
        });
    }
    v.join(",")
}

pub(super) fn parse_trace(s: &str) -> Option<Vec<Ev>> {
    let mut v = Vec::new();
    for t in s.split(',').map(|t| t.trim()).filter(|t| !t.is_empty()) {
        let c: Vec<char> = t.chars().collect();
        match c[0] {
            'S' if c.len() == 2 => v.push(Ev::Spawn(match c[1] {
                '1' => 0,
                '2' => 1,
                _ => return None,
            })),
            'R' if c.len() >= 3 => {
                let k = Kind::from_ch(*c.last()?)?;
                let mid: String = c[1..c.len() - 1].iter().collect();
                let j = if mid == "x" { GHOST } else { mid.parse::<u8>().ok()? };
                v.push(Ev::Report(j, k));
            }
            _ => return None,
        }
    }
    Some(v)
}

// ---------------------------------------------------------------------------------------------
// scripted spawner: a real `Spawner` that records what the system tells it
// ---------------------------------------------------------------------------------------------

#[derive(Default)]
pub(super) struct MockLog {
    /// (is_registration, source id, reason char or '-')
    pub(super) told: Vec<(bool, ClockId, char)>,
    pub(super) try_spawn: u32,
}

pub(super) struct MockSpawner {
    id: SpawnerId,
    log: Arc<Mutex<MockLog>>,
    /// `false`: wants one spawn attempt (part B: to get the spawner task into `try_spawn`)
    complete: bool,
}

impl MockSpawner {
    pub(super) fn new() -> (MockSpawner, SpawnerId, Arc<Mutex<MockLog>>) {
        let id = SpawnerId::new();
        let log = Arc::new(Mutex::new(MockLog::default()));
        (
            MockSpawner {
                id,
                log: log.clone(),
                complete: true,
            },
            id,
            log,
        )
    }
}

impl Spawner for MockSpawner {
    type Error = std::io::Error;

    async fn try_spawn(&mut self, _action_tx: &mpsc::Sender<SpawnEvent>) -> Result<(), Self::Error> {
        self.log.lock().unwrap().try_spawn += 1;
        self.complete = true;
        Ok(())
    }
    fn is_complete(&self) -> bool {
        self.complete // creations are emitted on demand by the harness, with this spawner's id
    }
    async fn handle_source_removed(&mut self, e: SourceRemovedEvent) -> Result<(), Self::Error> {
        self.log
            .lock()
            .unwrap()
            .told
            .push((false, e.id, reason_ch(&e.reason)));
        Ok(())
    }
    async fn handle_registered(&mut self, e: SourceCreateParameters) -> Result<(), Self::Error> {
        self.log.lock().unwrap().told.push((true, e.get_id(), '-'));
        Ok(())
    }
    fn get_id(&self) -> SpawnerId {
        self.id
    }
    fn get_addr_description(&self) -> String {
        "scripted".into()
    }
    fn get_description(&self) -> &'static str {
        "scripted"
    }
}

// ---------------------------------------------------------------------------------------------
// running one trace against the real system task (direct drive)
// ---------------------------------------------------------------------------------------------

const PORT: u16 = 39_123; // nothing listens there; the single poll of a source is answered by ICMP at most

pub(super) fn source_addr(idx: usize) -> SocketAddr {
    SocketAddr::from((Ipv4Addr::new(127, 0, 37, (idx + 1) as u8), PORT))
}

pub(super) fn ntp_params(id: ClockId, idx: usize) -> SourceCreateParameters {
    SourceCreateParameters::Ntp(NtpSourceCreateParameters {
        id,
        addr: source_addr(idx),
        normalized_addr: NormalizedAddress::with_hardcoded_dns(&format!("src{idx}.gt.test"), PORT, vec![]),
        protocol_version: ProtocolVersion::V4,
        config: SourceConfig::default(),
        nts: None,
    })
}

/// Everything that was ready runs before the paused clock auto-advances; twice, because tasks woken by a timer
/// at the same instant as the harness are polled after it.
pub(super) async fn sync() {
    tokio::time::sleep(Duration::from_millis(1)).await;
    tokio::time::sleep(Duration::from_millis(1)).await;
}

/// Await `f`, turning a panic of the code under test into `Err(message)`.
pub(super) async fn guarded<T>(f: impl Future<Output = T>) -> Result<T, String> {
    let mut f = Box::pin(f);
    std::future::poll_fn(move |cx| match common::catch(|| f.as_mut().poll(cx)) {
        Ok(Poll::Ready(v)) => Poll::Ready(Ok(v)),
        Ok(Poll::Pending) => Poll::Pending,
        Err(m) => Poll::Ready(Err(m)),
    })
    .await
}

#[derive(Clone, Debug, PartialEq, Eq, Hash)]
pub(super) enum Outcome {
    Ok,
    Err(String),
    Panic(String),
}

/// what a spawner was told, in creation indices (254 = an id the harness never created, 255 = the ghost id)
#[derive(Clone, Copy, Debug, PartialEq, Eq, Hash)]
pub(super) enum Told {
    Reg(u8),
    Rem(u8, char),
}

#[derive(Clone, Debug, PartialEq, Eq, Hash)]
pub(super) struct StepObs {
    pub(super) outcome: Outcome,
    /// rows of the private `sources` table: (creation index, owner 0/1 (9 = unknown spawner), row well formed)
    pub(super) table: Vec<(u8, u8, bool)>,
    pub(super) told: [Vec<Told>; 2],
}

#[derive(Clone, Debug, PartialEq, Eq, Hash, Default)]
pub(super) struct RunObs {
    pub(super) steps: Vec<StepObs>,
    /// published snapshots at the end: (creation index, name+address are the ones of the create parameters)
    pub(super) snapshots: Vec<(u8, bool)>,
    pub(super) snapshot_map_shared: bool,
    pub(super) own_reports: usize,
    pub(super) try_spawn_calls: u32,
    pub(super) clock_adjustments: u64,
    pub(super) table_poisoned: bool,
}

fn idx_of(ids: &[ClockId], ghost: ClockId, id: ClockId) -> u8 {
    if id == ghost {
        return GHOST;
    }
    ids.iter().position(|x| *x == id).map(|p| p as u8).unwrap_or(254)
}

pub(super) fn run_trace(evs: &[Ev]) -> RunObs {
    let evs = evs.to_vec();
    super::block_on_paused(async move {
        let mut sys = sp::Sys::new();
        let (m0, id0, log0) = MockSpawner::new();
        let (m1, id1, log1) = MockSpawner::new();
        let n0 = sys.add_spawner(m0);
        let n1 = sys.add_spawner(m1);
        let sids = [id0, id1];
        let logs = [log0, log1];
        let taps = sys.taps();
        let ghost = ClockId::new();
        let mut ids: Vec<ClockId> = Vec::new();
        let mut run = RunObs::default();
        run.snapshot_map_shared = sys.snapshot_map_shared();
        sync().await;
        for ev in &evs {
            let outcome = match *ev {
                Ev::Spawn(s) => {
                    let id = ClockId::new();
                    let idx = ids.len();
                    ids.push(id);
                    let e = SpawnEvent::new(sids[s as usize], SpawnAction::Create(ntp_params(id, idx)));
                    guarded(sys.handle_spawn_event(e)).await
                }
                Ev::Report(j, k) => {
                    let id = if j == GHOST {
                        ghost
                    } else {
                        match ids.get(j as usize) {
                            Some(id) => *id,
                            None => ghost,
                        }
                    };
                    guarded(sys.handle_source_update(k.msg(id))).await
                }
            };
            let outcome = match outcome {
                Ok(Ok(())) => Outcome::Ok,
                Ok(Err(e)) => Outcome::Err(e),
                Err(p) => Outcome::Panic(p),
            };
            sync().await;
            let table = taps
                .rows()
                .iter()
                .map(|r| {
                    (
                        idx_of(&ids, ghost, r.key),
                        if r.spawner == n0 {
                            0
                        } else if r.spawner == n1 {
                            1
                        } else {
                            9
                        },
                        r.key == r.source_id && r.is_ntp,
                    )
                })
                .collect();
            let told = [0, 1].map(|s| {
                logs[s]
                    .lock()
                    .unwrap()
                    .told
                    .iter()
                    .map(|(reg, id, r)| {
                        if *reg {
                            Told::Reg(idx_of(&ids, ghost, *id))
                        } else {
                            Told::Rem(idx_of(&ids, ghost, *id), *r)
                        }
                    })
                    .collect::<Vec<_>>()
            });
            let stop = matches!(outcome, Outcome::Panic(_));
            run.steps.push(StepObs { outcome, table, told });
            if stop {
                break;
            }
        }
        // every created source's task publishes its snapshot at its first poll (timer 0 s)
        for _ in 0..20 {
            if taps.snapshot_rows().len() >= ids.len() {
                break;
            }
            sync().await;
        }
        run.snapshots = taps
            .snapshot_rows()
            .iter()
            .map(|(id, name, addr)| {
                let i = idx_of(&ids, ghost, *id);
                let ok = (i as usize) < ids.len()
                    && *addr == source_addr(i as usize).to_string()
                    && *name == format!("src{i}.gt.test:{PORT}");
                (i, ok)
            })
            .collect();
        run.snapshots.sort();
        run.own_reports = sys.drain_own_reports().len();
        run.try_spawn_calls = logs.iter().map(|l| l.lock().unwrap().try_spawn).sum();
        run.clock_adjustments = sys.clock_adjustments();
        run.table_poisoned = taps.table_poisoned();
        run
    })
}

// ---------------------------------------------------------------------------------------------
// reference model + judge (from the statement; nothing here looks at system.rs)
// ---------------------------------------------------------------------------------------------

#[derive(Clone, Copy, PartialEq, Eq, Hash, Debug, PartialOrd, Ord)]
pub(super) enum Status {
    Live,
    Removed(Kind),
}

#[derive(Clone, PartialEq, Eq, Hash, Debug, Default, PartialOrd, Ord)]
pub(super) struct Model {
    /// per created source, in creation order
    pub(super) sources: Vec<(u8, Status)>,
}

impl Model {
    pub(super) fn live(&self) -> BTreeMap<u8, u8> {
        self.sources
            .iter()
            .enumerate()
            .filter(|(_, (_, st))| *st == Status::Live)
            .map(|(i, (o, _))| (i as u8, *o))
            .collect()
    }
    pub(super) fn is_live(&self, j: u8) -> bool {
        matches!(self.sources.get(j as usize), Some((_, Status::Live)))
    }
    /// events enabled in this state (`max_live` bounds Spawn)
    pub(super) fn enabled(&self, max_live: usize) -> Vec<Ev> {
        let mut v = Vec::new();
        if self.live().len() < max_live {
            v.push(Ev::Spawn(0));
            v.push(Ev::Spawn(1));
        }
        for j in 0..self.sources.len() as u8 {
            for k in Kind::ALL {
                v.push(Ev::Report(j, k));
            }
        }
        for k in Kind::ALL {
            v.push(Ev::Report(GHOST, k));
        }
        v
    }
    pub(super) fn is_stale(&self, ev: &Ev) -> bool {
        matches!(ev, Ev::Report(j, _) if !self.is_live(*j))
    }
    pub(super) fn apply(&mut self, ev: &Ev) {
        match *ev {
            Ev::Spawn(s) => self.sources.push((s, Status::Live)),
            Ev::Report(j, k) => {
                if self.is_live(j) {
                    self.sources[j as usize].1 = Status::Removed(k);
                }
            }
        }
    }
}

#[derive(Clone, Debug)]
pub(super) struct Finding {
    pub(super) code: &'static str,
    pub(super) what: String,
    pub(super) step: usize,
}

#[derive(Default, Clone, Debug)]
pub(super) struct Stats {
    pub(super) steps: u64,
    pub(super) spawns: [u64; 2],
    pub(super) removals: [u64; 3],
    pub(super) removals_with_other_live: u64,
    pub(super) removals_other_spawner_has_live: u64,
    pub(super) stale_ignored_ok: u64,
    pub(super) stale_ignored_err: u64,
    pub(super) stale_abort: u64,
    pub(super) events_not_run_after_abort: u64,
    pub(super) snapshots_checked: u64,
    pub(super) rig_anomalies: u64,
}

/// A report for an id that is not live lies outside the system task's environment (every source task reports at
/// most once — c11_task). `false`: its outcome (ignored / the system task aborts) is recorded, only side effects are
/// judged. `true`: the abort itself is the violation `…:system-stale-report-aborts` (then HEAD needs
/// proposed_fixes/C36-system-stale-report-hardening.diff). See notes/gt.md.
pub(super) const STALE_REPORT_ABORT_IS_VIOLATION: bool = false;

/// Judge one run step by step; stops at the first finding (the model has diverged then).
pub(super) fn judge(evs: &[Ev], run: &RunObs) -> (Option<Finding>, Stats, Model) {
    let mut st = Stats::default();
    let mut m = Model::default();
    let mut expect: [Vec<Told>; 2] = [Vec::new(), Vec::new()];
    let empty: [Vec<Told>; 2] = [Vec::new(), Vec::new()];
    let fail = |code: &'static str, what: String, step: usize, st: Stats, m: Model| {
        (Some(Finding { code, what, step }), st, m)
    };
    for (i, ev) in evs.iter().enumerate() {
        let Some(obs) = run.steps.get(i) else {
            st.events_not_run_after_abort += (evs.len() - i) as u64;
            return (None, st, m);
        };
        st.steps += 1;
        let prev = if i == 0 { &empty } else { &run.steps[i - 1].told };
        let stale = m.is_stale(ev);
        let before = m.clone();
        m.apply(ev);
        let want_table: Vec<(u8, u8, bool)> = m.live().iter().map(|(j, o)| (*j, *o, true)).collect();
        let news: [Vec<Told>; 2] = [0, 1].map(|s| {
            if obs.told[s].len() >= prev[s].len() && obs.told[s][..prev[s].len()] == prev[s][..] {
                obs.told[s][prev[s].len()..].to_vec()
            } else {
                vec![Told::Reg(253)] // history rewritten: cannot happen with an append-only log
            }
        });
        if stale {
            // (c) an unknown / already removed id: nothing changes, nobody is told. Whether the handler
            // ignores it (Ok / Err) or the system task aborts is recorded, not judged (see the assumption).
            if obs.table != want_table || !news[0].is_empty() || !news[1].is_empty() {
                return fail(
                    "stale-report-side-effect",
                    format!(
                        "{:?} for a source that is not live changed something: table {:?} (want {:?}), told {:?}",
                        ev, obs.table, want_table, news
                    ),
                    i,
                    st,
                    m,
                );
            }
            match &obs.outcome {
                Outcome::Ok => st.stale_ignored_ok += 1,
                Outcome::Err(_) => st.stale_ignored_err += 1,
                Outcome::Panic(p) => {
                    st.stale_abort += 1;
                    st.events_not_run_after_abort += (evs.len() - i - 1) as u64;
                    if STALE_REPORT_ABORT_IS_VIOLATION {
                        return fail("stale-report-aborts", format!("{ev:?} for a source that is not live panicked: {p}"), i, st, m);
                    }
                    return (None, st, m);
                }
            }
            continue;
        }
        match &obs.outcome {
            Outcome::Ok => {}
            Outcome::Err(e) => {
                return fail("handler-error", format!("{ev:?} returned Err({e}): the run loop would end"), i, st, m);
            }
            Outcome::Panic(p) => {
                return fail("panic", format!("{ev:?} panicked: {p}"), i, st, m);
            }
        }
        match *ev {
            Ev::Spawn(s) => {
                st.spawns[s as usize] += 1;
                let idx = (m.sources.len() - 1) as u8;
                expect[s as usize].push(Told::Reg(idx));
                if obs.table != want_table {
                    let code = if !obs.table.iter().any(|r| r.0 == idx) {
                        "source-not-recorded"
                    } else if obs.table.iter().any(|r| r.0 == idx && r.1 != s) {
                        "source-wrong-owner"
                    } else {
                        "table-corrupted"
                    };
                    return fail(code, format!("after S{}: table {:?}, want {:?}", s + 1, obs.table, want_table), i, st, m);
                }
                let o = 1 - s as usize;
                if news[s as usize] != [Told::Reg(idx)] || !news[o].is_empty() {
                    let code = if !news[o].is_empty() {
                        "registration-misdelivered"
                    } else if news[s as usize].is_empty() {
                        "registration-not-notified"
                    } else {
                        "registration-wrong"
                    };
                    return fail(
                        code,
                        format!("after S{}: spawners were told {:?}, want S{} told [Reg({idx})] only", s + 1, news, s + 1),
                        i,
                        st,
                        m,
                    );
                }
            }
            Ev::Report(j, k) => {
                let owner = before.live()[&j] as usize;
                let other = 1 - owner;
                st.removals[k as usize] += 1;
                if before.live().len() > 1 {
                    st.removals_with_other_live += 1;
                }
                if before.live().values().any(|o| *o as usize == other) {
                    st.removals_other_spawner_has_live += 1;
                }
                let want = Told::Rem(j, k.expected_reason());
                expect[owner].push(want);
                if obs.table != want_table {
                    let code = if obs.table.iter().any(|r| r.0 == j) {
                        "source-not-removed"
                    } else if want_table.iter().any(|w| !obs.table.contains(w)) {
                        "wrong-source-removed"
                    } else {
                        "table-corrupted"
                    };
                    return fail(code, format!("after R{j}{}: table {:?}, want {:?}", k.ch(), obs.table, want_table), i, st, m);
                }
                if news[owner] != [want] || !news[other].is_empty() {
                    let code = if !news[other].is_empty() {
                        "removal-misdelivered"
                    } else if news[owner].is_empty() {
                        "removal-not-notified"
                    } else if news[owner].len() > 1 {
                        "removal-duplicated"
                    } else {
                        match news[owner][0] {
                            Told::Rem(jj, _) if jj != j => "removal-wrong-id",
                            Told::Rem(_, _) => "wrong-removal-reason",
                            Told::Reg(_) => "removal-not-notified",
                        }
                    };
                    return fail(
                        code,
                        format!(
                            "after R{j}{} (owner S{}): S1 told {:?}, S2 told {:?}; want S{} told [{:?}] only",
                            k.ch(),
                            owner + 1,
                            news[0],
                            news[1],
                            owner + 1,
                            want
                        ),
                        i,
                        st,
                        m,
                    );
                }
            }
        }
        if obs.told != expect {
            return fail("notification-history-mismatch", format!("told {:?}, want {:?}", obs.told, expect), i, st, m);
        }
    }
    // end of trace: (d') every created source's REAL task was started with the id / name / address of its
    // create parameters and publishes into the map the observer reads.
    let aborted = run.steps.iter().any(|s| matches!(s.outcome, Outcome::Panic(_)));
    if !aborted {
        let n = m.sources.len();
        let want: Vec<(u8, bool)> = (0..n as u8).map(|i| (i, true)).collect();
        st.snapshots_checked += n as u64;
        if !run.snapshot_map_shared {
            return fail("snapshot-map-not-shared", "DaemonChannels.source_snapshots is not the map given to the tasks".into(), evs.len(), st, m);
        }
        if run.snapshots != want {
            return fail(
                "source-task-not-started",
                format!("published snapshots {:?}, want one well-formed entry per created source {:?}", run.snapshots, want),
                evs.len(),
                st,
                m,
            );
        }
    }
    if run.own_reports != 0 || run.try_spawn_calls != 0 {
        st.rig_anomalies += 1;
    }
    (None, st, m)
}

pub(super) fn add_stats(ctx: &Ctx, st: &Stats) {
    ctx.add("x_steps_executed", st.steps);
    ctx.add("x_spawns_by_S1", st.spawns[0]);
    ctx.add("x_spawns_by_S2", st.spawns[1]);
    ctx.add("x_removals_demobilize", st.removals[0]);
    ctx.add("x_removals_network_issue", st.removals[1]);
    ctx.add("x_removals_unreachable", st.removals[2]);
    ctx.add("x_removals_while_another_source_live", st.removals_with_other_live);
    ctx.add("x_removals_while_other_spawner_has_live_source", st.removals_other_spawner_has_live);
    ctx.add("x_stale_report_ignored_ok", st.stale_ignored_ok);
    ctx.add("x_stale_report_ignored_err", st.stale_ignored_err);
    ctx.add("x_stale_report_aborts_system_task", st.stale_abort);
    ctx.add("x_events_not_run_after_abort", st.events_not_run_after_abort);
    ctx.add("x_source_task_snapshots_checked", st.snapshots_checked);
    ctx.add("x_rig_anomalies", st.rig_anomalies);
}

// ---------------------------------------------------------------------------------------------
// trace generation from the model
// ---------------------------------------------------------------------------------------------

/// Does a report for a source that is not live abort the system task in this build? (decides only whether
/// such a report is the last event of a generated trace; every run is judged independently of this)
pub(super) fn stale_report_aborts() -> bool {
    let t = [Ev::Spawn(0), Ev::Report(0, Kind::D), Ev::Report(0, Kind::D)];
    let r = run_trace(&t);
    let a = matches!(r.steps.last().map(|s| &s.outcome), Some(Outcome::Panic(_)));
    let g = run_trace(&[Ev::Report(GHOST, Kind::U)]);
    let b = matches!(g.steps.last().map(|s| &s.outcome), Some(Outcome::Panic(_)));
    a || b
}

pub(super) struct Plan {
    /// maximal traces: running them executes every edge
    pub(super) traces: Vec<Vec<Ev>>,
    pub(super) edges: u64,
    pub(super) states: BTreeSet<Model>,
}

/// (1) the full tree: ALL event sequences of length <= depth.
pub(super) fn full_tree(depth: usize, max_live: usize, stale_terminal: bool) -> Plan {
    fn rec(m: &Model, pre: &mut Vec<Ev>, depth: usize, max_live: usize, stale_terminal: bool, p: &mut Plan) {
        p.states.insert(m.clone());
        if pre.len() == depth {
            p.traces.push(pre.clone());
            return;
        }
        for ev in m.enabled(max_live) {
            p.edges += 1;
            pre.push(ev);
            if stale_terminal && m.is_stale(&ev) {
                p.traces.push(pre.clone());
            } else {
                let mut n = m.clone();
                n.apply(&ev);
                rec(&n, pre, depth, max_live, stale_terminal, p);
            }
            pre.pop();
        }
    }
    let mut p = Plan {
        traces: Vec::new(),
        edges: 0,
        states: BTreeSet::new(),
    };
    rec(&Model::default(), &mut Vec::new(), depth, max_live, stale_terminal, &mut p);
    p
}

/// (2) breadth-first over the deduplicated state graph: one trace per (state, enabled event).
pub(super) fn state_graph(depth: usize, max_live: usize) -> Plan {
    let mut p = Plan {
        traces: Vec::new(),
        edges: 0,
        states: BTreeSet::new(),
    };
    let mut frontier: Vec<(Model, Vec<Ev>)> = vec![(Model::default(), Vec::new())];
    p.states.insert(Model::default());
    for _ in 0..depth {
        let mut next = Vec::new();
        for (m, rep) in &frontier {
            for ev in m.enabled(max_live) {
                p.edges += 1;
                let mut t = rep.clone();
                t.push(ev);
                p.traces.push(t.clone());
                if m.is_stale(&ev) {
                    continue; // same state (or the system task is gone)
                }
                let mut n = m.clone();
                n.apply(&ev);
                if p.states.insert(n.clone()) {
                    next.push((n, t));
                }
            }
        }
        frontier = next;
    }
    p
}

/// Run + judge every trace of a plan in parallel. Returns the findings (deduplicated by (code, trace)).
pub(super) fn run_plan(ctx: &Ctx, plan: &Plan, det_every: u64) -> Vec<(Finding, String)> {
    let findings: Mutex<Vec<(Finding, String)>> = Mutex::new(Vec::new());
    let total: Mutex<Stats> = Mutex::new(Stats::default());
    let nondet = std::sync::atomic::AtomicU64::new(0);
    let reruns = std::sync::atomic::AtomicU64::new(0);
    common::par_for(plan.traces.len() as u64, 4, |i| {
        let t = &plan.traces[i as usize];
        let run = run_trace(t);
        if det_every > 0 && i % det_every == 0 {
            reruns.fetch_add(1, std::sync::atomic::Ordering::Relaxed);
            if run_trace(t) != run {
                nondet.fetch_add(1, std::sync::atomic::Ordering::Relaxed);
            }
        }
        let (f, st, _) = judge(t, &run);
        ctx.distinct(common::hash_of(&(t, &run.steps)));
        {
            let mut tot = total.lock().unwrap();
            tot.steps += st.steps;
            for s in 0..2 {
                tot.spawns[s] += st.spawns[s];
            }
            for k in 0..3 {
                tot.removals[k] += st.removals[k];
            }
            tot.removals_with_other_live += st.removals_with_other_live;
            tot.removals_other_spawner_has_live += st.removals_other_spawner_has_live;
            tot.stale_ignored_ok += st.stale_ignored_ok;
            tot.stale_ignored_err += st.stale_ignored_err;
            tot.stale_abort += st.stale_abort;
            tot.events_not_run_after_abort += st.events_not_run_after_abort;
            tot.snapshots_checked += st.snapshots_checked;
            tot.rig_anomalies += st.rig_anomalies;
        }
        if let Some(f) = f {
            // report the shortest prefix that shows it
            let upto = (f.step + 1).min(t.len());
            findings.lock().unwrap().push((f, fmt_trace(&t[..upto])));
        }
    });
    add_stats(ctx, &total.lock().unwrap());
    ctx.add("determinism_reruns", reruns.load(std::sync::atomic::Ordering::Relaxed));
    ctx.add("determinism_differences", nondet.load(std::sync::atomic::Ordering::Relaxed));
    let mut v = findings.into_inner().unwrap();
    v.sort_by(|a, b| (a.1.len(), &a.1, a.0.code).cmp(&(b.1.len(), &b.1, b.0.code)));
    v.dedup_by(|a, b| a.1 == b.1 && a.0.code == b.0.code);
    v
}

// ---------------------------------------------------------------------------------------------
// Part E: real StandardSpawner + scripted S2 under the real `run` loop
// ---------------------------------------------------------------------------------------------

#[derive(Clone, Copy, PartialEq, Eq, Hash, Debug)]
pub(super) enum E2 {
    /// 1.1 s of virtual time: a spawner that wants a source gets a ticket and attempts
    W,
    /// S1's live source reports (no-op when S1 has none)
    R(Kind),
    /// S2 creates a source
    M,
    /// S2's newest live source reports (no-op when S2 has none)
    Q(Kind),
}

pub(super) const E2_ALPHABET: [E2; 8] = [
    E2::W,
    E2::R(Kind::D),
    E2::R(Kind::N),
    E2::R(Kind::U),
    E2::M,
    E2::Q(Kind::D),
    E2::Q(Kind::N),
    E2::Q(Kind::U),
];

pub(super) fn fmt_e2(evs: &[E2]) -> String {
    evs.iter()
        .map(|e| match e {
            E2::W => "W".to_string(),
            E2::R(k) => format!("R{}", k.ch()),
            E2::M => "M".to_string(),
            E2::Q(k) => format!("r{}", k.ch()),
        })
        .collect::<Vec<_>>()
        .join(",")
}

pub(super) fn parse_e2(s: &str) -> Option<Vec<E2>> {
    s.split(',')
        .map(|t| t.trim())
        .filter(|t| !t.is_empty())
        .map(|t| {
            let c: Vec<char> = t.chars().collect();
            match (c[0], c.get(1)) {
                ('W', None) => Some(E2::W),
                ('M', None) => Some(E2::M),
                ('R', Some(k)) => Kind::from_ch(*k).map(E2::R),
                ('r', Some(k)) => Kind::from_ch(*k).map(E2::Q),
                _ => None,
            }
        })
        .collect()
}

pub(super) fn dns_raw() -> Vec<SocketAddr> {
    (1..=8u8)
        .map(|i| SocketAddr::from((Ipv4Addr::new(127, 0, 36, i), PORT)))
        .collect()
}

#[derive(Clone, Debug, PartialEq, Eq, Hash, Default)]
pub(super) struct E2Step {
    pub(super) applied: bool,
    /// the source the report was about (creation order number of S1 / S2 sources as the harness saw them appear)
    pub(super) target: Option<u32>,
    /// S1-owned rows of the table after the step, as appearance numbers
    pub(super) s1_rows: Vec<u32>,
    pub(super) s2_rows: Vec<u32>,
    pub(super) foreign_rows: u32,
    /// DNS lookups performed so far
    pub(super) lookups: usize,
    pub(super) s2_told: Vec<Told>,
    pub(super) system_alive: bool,
}

#[derive(Clone, Debug, PartialEq, Eq, Hash, Default)]
pub(super) struct E2Obs {
    pub(super) steps: Vec<E2Step>,
    /// for every S1 source (appearance number): (lookups counted when it was first seen, address it polls)
    pub(super) s1_sources: Vec<(usize, String)>,
}

pub(super) fn run_e2e(evs: &[E2]) -> E2Obs {
    let evs = evs.to_vec();
    super::block_on_paused(async move {
        let mut sys = sp::Sys::new();
        let raw = dns_raw();
        let (addr, tap) = dns::scripted("pool.gt.test", PORT, &raw);
        let s1 = StandardSpawner::new(
            StandardSource {
                address: NtpAddress(addr),
                ntp_version: ProtocolVersion::V4,
            },
            SourceConfig::default(),
        );
        let n1 = sys.add_spawner(s1);
        let (m2, id2, log2) = MockSpawner::new();
        let n2 = sys.add_spawner(m2);
        let taps = sys.taps();
        let (handle, _guard) = sys.run();
        let mut s1_ids: Vec<ClockId> = Vec::new();
        let mut s1_seen_at: Vec<usize> = Vec::new();
        let mut s2_ids: Vec<ClockId> = Vec::new();
        let mut obs = E2Obs::default();
        for ev in &evs {
            let mut step = E2Step::default();
            let rows = taps.rows();
            match *ev {
                E2::W => {
                    step.applied = true;
                    tokio::time::sleep(Duration::from_millis(1100)).await;
                }
                E2::R(k) => {
                    if let Some(r) = rows.iter().filter(|r| r.spawner == n1).last() {
                        step.applied = true;
                        step.target = s1_ids.iter().position(|x| *x == r.key).map(|p| p as u32);
                        let _ = taps.msg_tx.send(k.msg(r.key)).await; // what the source task does
                    }
                }
                E2::M => {
                    step.applied = true;
                    let id = ClockId::new();
                    let idx = s2_ids.len();
                    s2_ids.push(id);
                    let _ = taps
                        .spawn_tx
                        .send(SpawnEvent::new(id2, SpawnAction::Create(ntp_params(id, idx))))
                        .await; // what a spawner task does
                }
                E2::Q(k) => {
                    if let Some(r) = rows.iter().filter(|r| r.spawner == n2).last() {
                        step.applied = true;
                        step.target = s2_ids.iter().position(|x| *x == r.key).map(|p| p as u32);
                        let _ = taps.msg_tx.send(k.msg(r.key)).await;
                    }
                }
            }
            sync().await;
            step.lookups = tap.lookups().unwrap_or(usize::MAX);
            for r in taps.rows() {
                if r.spawner == n1 {
                    let p = match s1_ids.iter().position(|x| *x == r.key) {
                        Some(p) => p,
                        None => {
                            s1_ids.push(r.key);
                            s1_seen_at.push(step.lookups);
                            s1_ids.len() - 1
                        }
                    };
                    step.s1_rows.push(p as u32);
                } else if r.spawner == n2 {
                    match s2_ids.iter().position(|x| *x == r.key) {
                        Some(p) => step.s2_rows.push(p as u32),
                        None => step.foreign_rows += 1,
                    }
                } else {
                    step.foreign_rows += 1;
                }
            }
            step.s1_rows.sort();
            step.s2_rows.sort();
            step.s2_told = log2
                .lock()
                .unwrap()
                .told
                .iter()
                .map(|(reg, id, r)| {
                    let i = s2_ids.iter().position(|x| x == id).map(|p| p as u8).unwrap_or(254);
                    if *reg { Told::Reg(i) } else { Told::Rem(i, *r) }
                })
                .collect();
            step.system_alive = !handle.is_finished();
            obs.steps.push(step);
        }
        for _ in 0..20 {
            let snaps = taps.snapshot_rows();
            if s1_ids.iter().all(|id| snaps.iter().any(|s| s.0 == *id)) {
                break;
            }
            sync().await;
        }
        let snaps = taps.snapshot_rows();
        obs.s1_sources = s1_ids
            .iter()
            .zip(&s1_seen_at)
            .map(|(id, at)| {
                (
                    *at,
                    snaps.iter().find(|s| s.0 == *id).map(|s| s.2.clone()).unwrap_or_default(),
                )
            })
            .collect();
        handle.abort();
        let _ = handle.await;
        obs
    })
}

#[derive(Default, Clone, Debug)]
pub(super) struct E2Stats {
    pub(super) steps: u64,
    pub(super) noop_steps: u64,
    pub(super) s1_creates: u64,
    pub(super) respawn_after_unreachable: u64,
    pub(super) respawn_after_network_issue: u64,
    pub(super) respawn_after_network_issue_with_lookup: u64,
    pub(super) respawn_in_report_step: u64,
    pub(super) respawn_in_wait_step: u64,
    pub(super) runs_with_demobilisation: u64,
    pub(super) steps_after_demobilisation: u64,
    pub(super) s2_removals_while_s1_live: u64,
}

/// Statement-level oracle for part E.
pub(super) fn judge_e2e(evs: &[E2], obs: &E2Obs) -> (Option<Finding>, E2Stats) {
    let mut st = E2Stats::default();
    let raw = dns_raw();
    let first_of = |k: usize| raw[(raw.len() - (k % raw.len())) % raw.len()].to_string();
    // model of S1 (plain single-server spawner, from the statement)
    let mut live1: Option<u32> = None;
    let mut demob = false;
    // pending respawn: (reason, lookups when the removal was sent, a full wait has passed since)
    let mut pending: Option<(Kind, usize, bool)> = Some((Kind::N, 0, false)); // start-up: wants its first source
    let mut known1: u32 = 0;
    // model of S2
    let mut live2: Vec<u32> = Vec::new();
    let mut told2: Vec<Told> = Vec::new();
    let mut n2: u32 = 0;
    let mut prev_lookups = 0usize;
    macro_rules! fail {
        ($code:expr, $i:expr, $($a:tt)*) => {
            return (Some(Finding { code: $code, what: format!($($a)*), step: $i }), st)
        };
    }
    for (i, ev) in evs.iter().enumerate() {
        let s = &obs.steps[i];
        st.steps += 1;
        if !s.applied {
            st.noop_steps += 1;
        }
        if !s.system_alive {
            fail!("e2e-system-task-ended", i, "the system task ended at step {i} ({ev:?})");
        }
        if s.foreign_rows != 0 {
            fail!("e2e-foreign-source", i, "{} rows in the table belong to nobody", s.foreign_rows);
        }
        if demob {
            st.steps_after_demobilisation += 1;
        }
        // --- what the event itself does
        match *ev {
            E2::W => {
                if let Some(p) = pending.as_mut() {
                    p.2 = true;
                }
            }
            E2::R(k) => {
                if s.applied {
                    if s.target != live1 {
                        fail!("e2e-rig", i, "report target {:?} but model live {:?}", s.target, live1);
                    }
                    live1 = None;
                    match k {
                        Kind::D => {
                            demob = true;
                            pending = None;
                            st.runs_with_demobilisation += 1;
                        }
                        _ => pending = Some((k, prev_lookups, false)),
                    }
                }
            }
            E2::M => {
                live2.push(n2);
                told2.push(Told::Reg(n2 as u8));
                n2 += 1;
            }
            E2::Q(k) => {
                if s.applied {
                    let t = live2.pop().unwrap_or(u32::MAX);
                    if s.target != Some(t) {
                        fail!("e2e-rig", i, "S2 report target {:?} but model {:?}", s.target, t);
                    }
                    told2.push(Told::Rem(t as u8, k.expected_reason()));
                    if live1.is_some() {
                        st.s2_removals_while_s1_live += 1;
                    }
                }
            }
        }
        // --- S2's side: exact
        let mut l2 = live2.clone();
        l2.sort();
        if s.s2_rows != l2 {
            fail!("e2e-s2-table", i, "S2 sources in the table {:?}, want {:?}", s.s2_rows, l2);
        }
        if s.s2_told != told2 {
            let code = if s.s2_told.len() < told2.len() { "e2e-removal-not-notified" } else { "e2e-s2-notifications" };
            fail!(code, i, "S2 was told {:?}, want {:?}", s.s2_told, told2);
        }
        // --- S1's side: the reported source must be gone, every new source must be justified
        let mut new1: Vec<u32> = s.s1_rows.iter().copied().filter(|p| *p >= known1).collect();
        new1.sort();
        let old1: Vec<u32> = s.s1_rows.iter().copied().filter(|p| *p < known1).collect();
        let want_old: Vec<u32> = live1.into_iter().collect();
        if old1 != want_old {
            fail!("e2e-source-not-removed", i, "S1 sources still in the table {:?}, want {:?}", old1, want_old);
        }
        if new1.len() > 1 {
            fail!("e2e-spurious-create", i, "{} new S1 sources in one step", new1.len());
        }
        if let Some(p) = new1.first().copied() {
            known1 = p + 1;
            st.s1_creates += 1;
            if demob {
                fail!("e2e-demobilized-respawned", i, "S1 created a source after its source was demobilised");
            }
            if live1.is_some() {
                fail!("e2e-spurious-create", i, "S1 created a second source while source {:?} is live", live1);
            }
            let Some((k, at, _)) = pending else {
                fail!("e2e-spurious-create", i, "S1 created a source without reason");
            };
            let (seen_at, addr) = &obs.s1_sources[p as usize];
            if k == Kind::U {
                st.respawn_after_unreachable += 1;
                if s.lookups <= at {
                    fail!(
                        "e2e-unreachable-not-reresolved",
                        i,
                        "source created after an Unreachable removal without a new lookup (lookups {} before, {} now)",
                        at,
                        s.lookups
                    );
                }
            } else if i > 0 || at > 0 {
                st.respawn_after_network_issue += 1;
                if s.lookups > at {
                    st.respawn_after_network_issue_with_lookup += 1;
                }
            }
            if *addr != first_of(*seen_at) {
                fail!(
                    "e2e-address-not-from-latest-lookup",
                    i,
                    "new source polls {} but the latest ({}th) lookup answered {} first",
                    addr,
                    seen_at,
                    first_of(*seen_at)
                );
            }
            if matches!(ev, E2::W) {
                st.respawn_in_wait_step += 1;
            } else {
                st.respawn_in_report_step += 1;
            }
            live1 = Some(p);
            pending = None;
        } else if let (E2::W, Some((k, _, true))) = (*ev, pending) {
            // a full network wait period passed with S1 incomplete: it must have attempted and (DNS answers) created
            fail!("e2e-not-respawned", i, "S1 has no source a full wait after {:?}", k);
        }
        if s.lookups < prev_lookups {
            fail!("e2e-rig", i, "lookup counter went backwards");
        }
        prev_lookups = s.lookups;
    }
    (None, st)
}

// ---------------------------------------------------------------------------------------------
// Part B: backpressure — the report arrives while the owner's notification channel is full
// ---------------------------------------------------------------------------------------------

/// Forwarding adapter: every trait method delegates unchanged; `try_spawn` stays inside the attempt until the
/// harness opens the gate (a spawner may legitimately spend seconds there: DNS, NTS key exchange). While it does,
/// the spawner task does not drain its notification channel.
pub(super) struct Gated<S> {
    inner: S,
    gate: tokio::sync::watch::Receiver<bool>,
    entered: Arc<std::sync::atomic::AtomicBool>,
}

impl<S: Spawner + Send> Spawner for Gated<S> {
    type Error = S::Error;
    async fn try_spawn(&mut self, action_tx: &mpsc::Sender<SpawnEvent>) -> Result<(), Self::Error> {
        self.inner.try_spawn(action_tx).await?;
        self.entered.store(true, std::sync::atomic::Ordering::SeqCst);
        let _ = self.gate.wait_for(|open| *open).await;
        Ok(())
    }
    fn is_complete(&self) -> bool {
        self.inner.is_complete()
    }
    async fn handle_source_removed(&mut self, e: SourceRemovedEvent) -> Result<(), Self::Error> {
        self.inner.handle_source_removed(e).await
    }
    async fn handle_registered(&mut self, e: SourceCreateParameters) -> Result<(), Self::Error> {
        self.inner.handle_registered(e).await
    }
    fn get_id(&self) -> SpawnerId {
        self.inner.get_id()
    }
    fn get_addr_description(&self) -> String {
        self.inner.get_addr_description()
    }
    fn get_description(&self) -> &'static str {
        self.inner.get_description()
    }
}

#[derive(Clone, Copy, PartialEq, Eq, Hash, Debug)]
pub(super) enum Fill {
    Empty,
    OneFree,
    Full,
}

#[derive(Clone, PartialEq, Eq, Hash, Debug)]
pub(super) struct BCase {
    /// true: the real StandardSpawner behind the gate; false: a recording spawner
    pub(super) real: bool,
    pub(super) fill: Fill,
    /// one report per live source, in creation order (the real spawner has one source)
    pub(super) kinds: Vec<Kind>,
}

pub(super) fn fmt_b(c: &BCase) -> String {
    format!(
        "{};{};{}",
        if c.real { 's' } else { 'm' },
        match c.fill {
            Fill::Empty => 'E',
            Fill::OneFree => '1',
            Fill::Full => 'F',
        },
        c.kinds.iter().map(|k| k.ch()).collect::<String>()
    )
}

pub(super) fn parse_b(s: &str) -> Option<BCase> {
    let p: Vec<&str> = s.trim().split(';').collect();
    if p.len() != 3 {
        return None;
    }
    Some(BCase {
        real: match p[0] {
            "s" => true,
            "m" => false,
            _ => return None,
        },
        fill: match p[1] {
            "E" => Fill::Empty,
            "1" => Fill::OneFree,
            "F" => Fill::Full,
            _ => return None,
        },
        kinds: p[2].chars().map(Kind::from_ch).collect::<Option<Vec<_>>>()?,
    })
}

pub(super) fn b_cases() -> Vec<BCase> {
    let mut v = Vec::new();
    for real in [false, true] {
        for fill in [Fill::Empty, Fill::OneFree, Fill::Full] {
            for k in Kind::ALL {
                v.push(BCase { real, fill, kinds: vec![k] });
            }
        }
    }
    for fill in [Fill::OneFree, Fill::Full] {
        for a in Kind::ALL {
            for b in Kind::ALL {
                v.push(BCase { real: false, fill, kinds: vec![a, b] });
            }
        }
    }
    v
}

#[derive(Clone, PartialEq, Eq, Hash, Debug, Default)]
pub(super) struct BObs {
    pub(super) stalled_in_try_spawn: bool,
    pub(super) sources_before: usize,
    pub(super) idle_events_queued: usize,
    pub(super) channel_was_full: bool,
    /// the reports had not all returned when the harness was about to open the gate
    pub(super) report_waited_for_capacity: bool,
    pub(super) deadman: bool,
    pub(super) outcomes: Vec<Outcome>,
    /// reported sources still in the table afterwards
    pub(super) left_in_table: usize,
    /// recording spawner: everything it was told, in creation indices
    pub(super) told: Vec<Told>,
    /// real spawner: lookups when the report was made / at the end, addresses of sources created after the report
    pub(super) lookups_at_report: usize,
    pub(super) lookups_end: usize,
    pub(super) new_sources: Vec<String>,
}

pub(super) fn run_b(c: &BCase) -> BObs {
    let c = c.clone();
    super::block_on_paused(async move {
        use crate::daemon::spawn::SystemEvent;
        use std::sync::atomic::{AtomicBool, Ordering};
        let mut obs = BObs::default();
        let mut sys = sp::Sys::new();
        let (gate_tx, gate_rx) = tokio::sync::watch::channel(false);
        let entered = Arc::new(AtomicBool::new(false));
        let raw = dns_raw();
        let mut tap = None;
        let mut log = None;
        let mut ids: Vec<ClockId> = Vec::new();
        if c.real {
            let (addr, t) = dns::scripted("pool.gt.test", PORT, &raw);
            tap = Some(t);
            sys.add_spawner(Gated {
                inner: StandardSpawner::new(
                    StandardSource {
                        address: NtpAddress(addr),
                        ntp_version: ProtocolVersion::V4,
                    },
                    SourceConfig::default(),
                ),
                gate: gate_rx,
                entered: entered.clone(),
            });
            sync().await; // first attempt: lookup, Create sent, then held at the gate
            while let Some(ev) = sys.next_spawn_event() {
                let _ = guarded(sys.handle_spawn_event(ev)).await;
            }
        } else {
            let (mut m, sid, l) = MockSpawner::new();
            m.complete = false;
            log = Some(l);
            sys.add_spawner(Gated {
                inner: m,
                gate: gate_rx,
                entered: entered.clone(),
            });
            sync().await;
            for i in 0..c.kinds.len() {
                let id = ClockId::new();
                ids.push(id);
                let _ = guarded(sys.handle_spawn_event(SpawnEvent::new(sid, SpawnAction::Create(ntp_params(id, i))))).await;
            }
        }
        sync().await;
        let taps = sys.taps();
        if c.real {
            ids = taps.rows().iter().map(|r| r.key).collect();
        }
        obs.stalled_in_try_spawn = entered.load(Ordering::SeqCst);
        obs.sources_before = taps.rows().len();
        // the owner's notification channel, through the sender the system itself uses
        let ntx = sys.notify_tx(0);
        let free_wanted = match c.fill {
            Fill::Empty => usize::MAX,
            Fill::OneFree => 1,
            Fill::Full => 0,
        };
        if free_wanted != usize::MAX {
            while ntx.capacity() > free_wanted {
                if ntx.try_send(SystemEvent::Idle).is_err() {
                    break;
                }
                obs.idle_events_queued += 1;
            }
        }
        obs.channel_was_full = ntx.capacity() == 0;
        obs.lookups_at_report = tap.as_ref().and_then(|t| t.lookups()).unwrap_or(0);
        let reported: Vec<ClockId> = ids.iter().copied().take(c.kinds.len()).collect();
        // the reports (they may have to wait for room) || the harness opens the gate one quiescence later
        let done = std::cell::Cell::new(false);
        let outcomes = std::cell::RefCell::new(Vec::new());
        let waited = {
            let reports = async {
                for (id, k) in reported.iter().zip(&c.kinds) {
                    let r = guarded(sys.handle_source_update(k.msg(*id))).await;
                    outcomes.borrow_mut().push(match r {
                        Ok(Ok(())) => Outcome::Ok,
                        Ok(Err(e)) => Outcome::Err(e),
                        Err(p) => Outcome::Panic(p),
                    });
                }
                done.set(true);
            };
            let opener = async {
                sync().await;
                let w = !done.get();
                let _ = gate_tx.send(true);
                w
            };
            tokio::time::timeout(Duration::from_secs(60), async { tokio::join!(reports, opener).1 }).await
        };
        match waited {
            Ok(w) => obs.report_waited_for_capacity = w,
            Err(_) => obs.deadman = true, // virtual time: fires only when nothing can make progress any more
        }
        obs.outcomes = outcomes.into_inner();
        // let the spawner drain and (real spawner) get its next tickets
        for _ in 0..4 {
            if c.real {
                tokio::time::sleep(Duration::from_millis(1100)).await;
            }
            sync().await;
            while let Some(ev) = sys.next_spawn_event() {
                let _ = guarded(sys.handle_spawn_event(ev)).await;
            }
        }
        sync().await;
        let rows = taps.rows();
        obs.left_in_table = reported.iter().filter(|id| rows.iter().any(|r| r.key == **id)).count();
        if let Some(l) = &log {
            obs.told = l
                .lock()
                .unwrap()
                .told
                .iter()
                .map(|(reg, id, r)| {
                    let i = ids.iter().position(|x| x == id).map(|p| p as u8).unwrap_or(254);
                    if *reg { Told::Reg(i) } else { Told::Rem(i, *r) }
                })
                .collect();
        }
        if let Some(t) = &tap {
            obs.lookups_end = t.lookups().unwrap_or(usize::MAX);
            let snaps = taps.snapshot_rows();
            obs.new_sources = rows
                .iter()
                .filter(|r| !ids.contains(&r.key))
                .map(|r| snaps.iter().find(|s| s.0 == r.key).map(|s| s.2.clone()).unwrap_or_default())
                .collect();
        }
        obs
    })
}

/// Oracle (statement): whatever the load on the owner's channel, the owner is told exactly once per reported
/// source, with that id and the reason of the report; the real single-server spawner then re-resolves after
/// Unreachable, respawns after NetworkIssue, never respawns after Demobilize. `None` + deadman = no verdict (cap).
pub(super) fn judge_b(c: &BCase, o: &BObs) -> Option<Finding> {
    let f = |code: &'static str, what: String| Some(Finding { code, what, step: 0 });
    if o.deadman {
        return None;
    }
    if !o.stalled_in_try_spawn || o.sources_before != c.kinds.len() || (c.fill == Fill::Full && !o.channel_was_full) {
        return f("backpressure-rig", format!("set-up failed: {o:?}"));
    }
    for oc in &o.outcomes {
        match oc {
            Outcome::Ok => {}
            Outcome::Err(e) => return f("handler-error", format!("report returned Err({e})")),
            Outcome::Panic(p) => return f("panic", format!("report panicked: {p}")),
        }
    }
    if o.left_in_table != 0 {
        return f("source-not-removed", format!("{} reported sources still in the table", o.left_in_table));
    }
    if !c.real {
        let mut want: Vec<Told> = (0..c.kinds.len() as u8).map(Told::Reg).collect();
        for (i, k) in c.kinds.iter().enumerate() {
            want.push(Told::Rem(i as u8, k.expected_reason()));
        }
        if o.told != want {
            let got = o.told.iter().filter(|t| matches!(t, Told::Rem(..))).count();
            let code = if got < c.kinds.len() {
                "backpressure-removal-lost"
            } else if got > c.kinds.len() {
                "removal-duplicated"
            } else {
                "wrong-removal-reason"
            };
            return f(
                code,
                format!(
                    "owner's channel held {} queued events ({} free) while it was inside try_spawn: it was told {:?}, want {:?}",
                    o.idle_events_queued + c.kinds.len(),
                    if o.channel_was_full { 0 } else { 1 },
                    o.told,
                    want
                ),
            );
        }
        return None;
    }
    let raw = dns_raw();
    let first_of = |k: usize| raw[(raw.len() - (k % raw.len())) % raw.len()].to_string();
    match c.kinds[0] {
        Kind::D => {
            if !o.new_sources.is_empty() {
                return f("e2e-demobilized-respawned", format!("sources created after Demobilize: {:?}", o.new_sources));
            }
        }
        Kind::N => {
            if o.new_sources.len() != 1 || o.new_sources[0] != first_of(o.lookups_end) {
                return f(
                    "backpressure-not-respawned",
                    format!("4 wait periods after a NetworkIssue report under backpressure: new sources {:?}", o.new_sources),
                );
            }
        }
        Kind::U => {
            if o.new_sources.len() != 1 {
                return f(
                    "backpressure-not-respawned",
                    format!("4 wait periods after an Unreachable report under backpressure: new sources {:?}", o.new_sources),
                );
            }
            if o.lookups_end <= o.lookups_at_report || o.new_sources[0] != first_of(o.lookups_end) {
                return f(
                    "backpressure-unreachable-not-reresolved",
                    format!(
                        "lookups {} at the report, {} at the end; replacement polls {:?}",
                        o.lookups_at_report, o.lookups_end, o.new_sources
                    ),
                );
            }
        }
    }
    None
}

// ---------------------------------------------------------------------------------------------
// Part K: soak — nothing injected, the real source task gives up on its own
// ---------------------------------------------------------------------------------------------

#[derive(Clone, Debug, PartialEq, Eq, Hash, Default)]
pub(super) struct SoakObs {
    /// addresses of the successive sources of the real StandardSpawner
    pub(super) addresses: Vec<String>,
    pub(super) lookups_when_seen: Vec<usize>,
    pub(super) max_live_rows: usize,
    /// at every change of source: snapshot ids other than the live one (must be none: the old task removed its entry)
    pub(super) stale_snapshots: usize,
    pub(super) system_alive: bool,
    pub(super) clock_adjustments: u64,
}

/// Real system `run` loop + real `StandardSpawner` + real source tasks polling a closed loopback port. Each
/// source task reports `Unreachable` by itself after three unanswered polls (C11); the report travels
/// msg channel -> `handle_source_update` -> `SourceRemoved{Unreachable}` -> `StandardSpawner` -> new lookup.
pub(super) fn run_soak(want_sources: usize) -> SoakObs {
    super::block_on_paused(async move {
        let mut sys = sp::Sys::new();
        let raw = dns_raw();
        let (addr, tap) = dns::scripted("pool.gt.test", PORT, &raw);
        let n1 = sys.add_spawner(StandardSpawner::new(
            StandardSource {
                address: NtpAddress(addr),
                ntp_version: ProtocolVersion::V4,
            },
            SourceConfig::default(),
        ));
        let taps = sys.taps();
        let (handle, _guard) = sys.run();
        let mut obs = SoakObs::default();
        let mut ids: Vec<ClockId> = Vec::new();
        for _ in 0..(want_sources * 80) {
            tokio::time::sleep(Duration::from_millis(1000)).await;
            sync().await;
            let rows = taps.rows();
            obs.max_live_rows = obs.max_live_rows.max(rows.len());
            for r in &rows {
                if r.spawner == n1 && !ids.contains(&r.key) {
                    ids.push(r.key);
                    obs.lookups_when_seen.push(tap.lookups().unwrap_or(usize::MAX));
                    // the new source has polled once by now (timer 0 s): its entry is there, the old one is gone
                    let snaps = taps.snapshot_rows();
                    obs.addresses
                        .push(snaps.iter().find(|s| s.0 == r.key).map(|s| s.2.clone()).unwrap_or_default());
                    obs.stale_snapshots += snaps.iter().filter(|s| s.0 != r.key).count();
                }
            }
            if ids.len() >= want_sources {
                break;
            }
        }
        obs.system_alive = !handle.is_finished();
        obs.clock_adjustments = _guard.clock_adjustments();
        handle.abort();
        let _ = handle.await;
        obs
    })
}

pub(super) fn judge_soak(obs: &SoakObs, want_sources: usize) -> Option<Finding> {
    let raw = dns_raw();
    let want: Vec<String> = (1..=want_sources)
        .map(|k| raw[(raw.len() - (k % raw.len())) % raw.len()].to_string())
        .collect();
    let f = |code: &'static str, what: String| Some(Finding { code, what, step: 0 });
    if !obs.system_alive {
        return f("soak-system-task-ended", "the system task ended".into());
    }
    if obs.addresses.len() < want_sources {
        return f(
            "soak-unreachable-source-not-replaced",
            format!("only {} sources in {} s: {:?}", obs.addresses.len(), want_sources * 80, obs.addresses),
        );
    }
    if obs.addresses != want || obs.lookups_when_seen != (1..=want_sources).collect::<Vec<_>>() {
        return f(
            "soak-unreachable-not-reresolved",
            format!(
                "successive sources poll {:?} after {:?} lookups; want {:?} (one new lookup per replacement)",
                obs.addresses, obs.lookups_when_seen, want
            ),
        );
    }
    if obs.max_live_rows != 1 {
        return f("soak-source-not-removed", format!("up to {} sources in the table", obs.max_live_rows));
    }
    if obs.stale_snapshots != 0 {
        return f("soak-snapshot-left-behind", format!("{} snapshot entries of replaced sources", obs.stale_snapshots));
    }
    None
}

// ---------------------------------------------------------------------------------------------
// replay + check
// ---------------------------------------------------------------------------------------------

pub(super) fn replay_any(ctx: &Ctx, prefix: &str, trace: &str) -> String {
    let t = trace.trim();
    if let Some(rest) = t.strip_prefix("E:") {
        let Some(evs) = parse_e2(rest) else {
            return format!("unparsable trace {t}");
        };
        let obs = run_e2e(&evs);
        if let (Some(f), _) = judge_e2e(&evs, &obs) {
            ctx.violation(&format!("{prefix}:system-{}", f.code), f.what, t);
        }
        return format!("{:?}", obs);
    }
    if let Some(rest) = t.strip_prefix("B:") {
        let Some(c) = parse_b(rest) else {
            return format!("unparsable trace {t}");
        };
        let obs = run_b(&c);
        if let Some(f) = judge_b(&c, &obs) {
            ctx.violation(&format!("{prefix}:system-{}", f.code), f.what, t);
        }
        return format!("{:?}", obs);
    }
    if let Some(rest) = t.strip_prefix("K:") {
        let n: usize = rest.trim().parse().unwrap_or(3);
        let obs = run_soak(n);
        if let Some(f) = judge_soak(&obs, n) {
            ctx.violation(&format!("{prefix}:system-{}", f.code), f.what, t);
        }
        return format!("{:?}", SoakObs { clock_adjustments: 0, ..obs });
    }
    let rest = t.strip_prefix("X:").unwrap_or(t);
    let Some(evs) = parse_trace(rest) else {
        return format!("unparsable trace {t}");
    };
    let run = run_trace(&evs);
    if let (Some(f), _, _) = judge(&evs, &run) {
        ctx.violation(&format!("{prefix}:system-{}", f.code), f.what, t);
    }
    format!("{:?}", run)
}

fn replay(ctx: &Ctx, trace: &str) -> String {
    replay_any(ctx, "C36", trace)
}

#[test]
fn check() {
    let ctx = Ctx::new("C36");
    if let Some(t) = common::replay_trace() {
        let a = replay(&ctx, &t);
        let b = replay(&ctx, &t);
        common::report_replay("C36", &a, &b, ctx.violation_count() > 0);
        return;
    }
    ctx.rule(
        "X: event sequences S<i> (spawner i creates a source) / R<j><k> (source j, live or not or never created, reports \
         k in D,N,U) against the real SystemTask with two recording spawners: (1) ALL sequences up to the depth, (2) every \
         (state,event) of the deduplicated state graph (state = per created source: owner, live/removed-by-k); a case is \
         distinct by (trace, observed table + notifications per step). E: all words over {W,RD,RN,RU,M,rD,rN,rU} with the \
         real StandardSpawner as S1 under the real run loop; distinct by (word, observation). K: one soak run.",
    );
    ctx.assume(
        "a source id is reported to the system at most once and only after it was created: the NTP source task sends \
         exactly one message and returns (checked by c11_task: C11:task-report-repeated / -sends-after-report), sock/pps/\
         csptp tasks never report, ids come from ClockId::new(). A report for an id that is not live is therefore outside \
         the system task's environment; it is still enumerated: it must not touch any other source or notify anybody, \
         but whether it is ignored or aborts the system task (HEAD: Option::unwrap on None) is recorded, not judged",
    );
    ctx.assume(
        "reports are injected through handle_source_update (part X) / the msg channel the source tasks hold (part E); the \
         real source tasks created by create_source keep running (the system holds no handle to them; a reporting task \
         ends itself and removes its own snapshot entry — c11_task); only part K lets the real task report",
    );
    ctx.assume("mock clock (MockClock) instead of the kernel clock; the cfg(test) DNS stub answers (8 distinct addresses)");

    let quick = ctx.quick();
    let stale_terminal = stale_report_aborts();
    ctx.set("x_stale_report_aborts_in_this_build", stale_terminal as u64);
    let mut all: Vec<(Finding, String, &'static str)> = Vec::new();

    // ---- part X
    let (d_full, d_graph) = if quick { (6, 7) } else { (7, 9) };
    let p1 = full_tree(d_full, 3, stale_terminal);
    ctx.set("x_full_tree_depth", d_full as u64);
    ctx.set("x_full_tree_traces", p1.traces.len() as u64);
    ctx.set("x_full_tree_edges", p1.edges);
    ctx.set("x_full_tree_states", p1.states.len() as u64);
    for (f, t) in run_plan(&ctx, &p1, 37) {
        all.push((f, t, "X"));
    }
    let p2 = state_graph(d_graph, 3);
    ctx.set("x_state_graph_depth", d_graph as u64);
    ctx.set("x_state_graph_states", p2.states.len() as u64);
    ctx.set("x_state_graph_edges", p2.edges);
    for (f, t) in run_plan(&ctx, &p2, 37) {
        all.push((f, t, "X"));
    }
    ctx.set("states", (p1.states.len().max(p2.states.len())) as u64);
    ctx.set("transitions", p1.edges + p2.edges);
    ctx.set("evaluations", (p1.traces.len() + p2.traces.len()) as u64);
    for t in p1.traces.iter().filter(|t| t.len() == d_full).step_by(p1.traces.len().max(1) / 5 + 1) {
        ctx.sample(format!("X:{}", fmt_trace(t)));
    }

    // ---- part E
    let lens: &[usize] = if quick { &[5] } else { &[6, 7] };
    let est: Mutex<E2Stats> = Mutex::new(E2Stats::default());
    let e_find: Mutex<Vec<(Finding, String)>> = Mutex::new(Vec::new());
    let e_nondet = std::sync::atomic::AtomicU64::new(0);
    let mut e_words = 0u64;
    for &n in lens {
        if ctx.over_budget() {
            ctx.cap_hit(&format!("part E length {n} not started"));
            break;
        }
        let total = common::pow(E2_ALPHABET.len(), n);
        e_words += total;
        common::par_for(total, 8, |i| {
            let w: Vec<E2> = common::word_of(i, E2_ALPHABET.len(), n).iter().map(|x| E2_ALPHABET[*x]).collect();
            let obs = run_e2e(&w);
            if i % 41 == 0 && run_e2e(&w) != obs {
                e_nondet.fetch_add(1, std::sync::atomic::Ordering::Relaxed);
            }
            ctx.distinct(common::hash_of(&(&w, &obs)));
            let (f, s) = judge_e2e(&w, &obs);
            {
                let mut t = est.lock().unwrap();
                t.steps += s.steps;
                t.noop_steps += s.noop_steps;
                t.s1_creates += s.s1_creates;
                t.respawn_after_unreachable += s.respawn_after_unreachable;
                t.respawn_after_network_issue += s.respawn_after_network_issue;
                t.respawn_after_network_issue_with_lookup += s.respawn_after_network_issue_with_lookup;
                t.respawn_in_report_step += s.respawn_in_report_step;
                t.respawn_in_wait_step += s.respawn_in_wait_step;
                t.runs_with_demobilisation += s.runs_with_demobilisation;
                t.steps_after_demobilisation += s.steps_after_demobilisation;
                t.s2_removals_while_s1_live += s.s2_removals_while_s1_live;
            }
            if let Some(f) = f {
                let upto = (f.step + 1).min(w.len());
                e_find.lock().unwrap().push((f, fmt_e2(&w[..upto])));
            }
        });
    }
    {
        let t = est.lock().unwrap();
        ctx.set("e_words", e_words);
        ctx.set("e_steps", t.steps);
        ctx.set("e_noop_steps", t.noop_steps);
        ctx.set("e_s1_creates", t.s1_creates);
        ctx.set("e_respawn_after_unreachable_all_with_fresh_lookup", t.respawn_after_unreachable);
        ctx.set("e_respawn_after_network_issue", t.respawn_after_network_issue);
        ctx.set("e_respawn_after_network_issue_with_lookup", t.respawn_after_network_issue_with_lookup);
        ctx.set("e_respawn_in_report_step", t.respawn_in_report_step);
        ctx.set("e_respawn_in_wait_step", t.respawn_in_wait_step);
        ctx.set("e_runs_with_demobilisation", t.runs_with_demobilisation);
        ctx.set("e_steps_after_demobilisation_without_respawn", t.steps_after_demobilisation);
        ctx.set("e_s2_removals_while_s1_live", t.s2_removals_while_s1_live);
        ctx.add("determinism_differences", e_nondet.load(std::sync::atomic::Ordering::Relaxed));
        ctx.add("evaluations", e_words);
        ctx.add("transitions", t.steps);
    }
    let mut ev = e_find.into_inner().unwrap();
    ev.sort_by(|a, b| (a.1.len(), &a.1, a.0.code).cmp(&(b.1.len(), &b.1, b.0.code)));
    ev.dedup_by(|a, b| a.1 == b.1 && a.0.code == b.0.code);
    for (f, t) in ev {
        all.push((f, t, "E"));
    }
    ctx.sample("E:W,RU,W,M,rD");

    // ---- part B (both tiers): reports while the owner's notification channel is (nearly) full
    {
        let cases = b_cases();
        ctx.set("b_cases", cases.len() as u64);
        for c in &cases {
            let a = run_b(c);
            let b = run_b(c);
            if a != b {
                ctx.inc("determinism_differences");
            }
            ctx.distinct(common::hash_of(&(c, &a)));
            ctx.add("evaluations", 1);
            ctx.add("transitions", (c.kinds.len() + a.idle_events_queued) as u64);
            ctx.max("b_events_queued_in_owner_channel_max", (a.idle_events_queued + c.kinds.len()) as u64);
            if a.channel_was_full {
                ctx.inc("b_cases_channel_full");
            }
            if a.report_waited_for_capacity {
                ctx.inc("b_reports_waited_for_capacity_until_gate_opened");
            } else {
                ctx.inc("b_reports_returned_before_gate_opened");
            }
            ctx.add("b_real_spawner_replacements", a.new_sources.len() as u64);
            if a.deadman {
                ctx.inc("b_deadman");
                ctx.cap_hit(&format!("part B case {}: nothing could make progress for 60 virtual seconds; no verdict", fmt_b(c)));
            }
            if let Some(f) = judge_b(c, &a) {
                all.push((f, fmt_b(c), "B"));
            }
        }
        ctx.sample("B:s;F;U");
    }

    // ---- part K
    let k_n = if quick { 3 } else { 6 };
    let soak = run_soak(k_n);
    ctx.set("k_sources_replaced_by_real_task_reports", soak.addresses.len().saturating_sub(1) as u64);
    ctx.set("k_clock_adjustments_on_mock", soak.clock_adjustments);
    ctx.add("evaluations", 1);
    if let Some(f) = judge_soak(&soak, k_n) {
        all.push((f, format!("{k_n}"), "K"));
    }
    ctx.sample(format!("K:{k_n} -> {:?}", soak.addresses));

    if ctx.get("determinism_differences") > 0 {
        ctx.violation("C36:system-nondeterministic-observation", "a re-run of the same trace observed something else", "");
    }
    for (f, t, part) in all {
        ctx.violation(&format!("C36:system-{}", f.code), f.what, format!("{part}:{t}"));
    }
    ctx.exhaustive(ctx.get("b_deadman") == 0);
    ctx.finish();
}
