//! C35: not implemented yet.
