//! C35 — Pool sources are distinct, bounded and respect the ignore list.
//!
//! Engine E-SEQ: explicit-state breadth-first search over the REAL `PoolSpawner`
//! (`ntpd/src/daemon/spawn/pool.rs`). Every transition is a call of the real `try_spawn` /
//! `handle_source_removed`; the DNS answer of every lookup is chosen by the harness through the
//! maintainers' `cfg(test)` DNS stub (probe `gl_probe_config_source.rs`).
//!
//! Roots   : count in {1,2,3} x ignore in {{}, {A}}            (thorough: + ignore {A,B})
//! Events  : `S:<d>`   one spawn round (what `spawner_task` does when it holds a ticket and
//!                      `!is_complete()`); should the round perform a DNS lookup the answer is the
//!                      list d, d in ALL lists of length <= 3 over {A,B,C,D} WITH repetition
//!                      (85 lists: empty answer, duplicates, overlaps with active sources and
//!                      with left-over known addresses, ignored addresses);
//!           `R:<i>:<r>` the system reports active source #i (creation order) removed for reason
//!                      r in {D(emobilized), N(etworkIssue), U(nreachable)}.
//! Depth   : 6 (quick) / 8 (thorough) events, or the fixpoint if the frontier empties earlier.
//! Key     : (count, ignore, sorted multiset of active addresses as observed on the SpawnEvent
//!           stream, spawner's `current_sources` addresses sorted, spawner's `known_ips` IN ORDER
//!           via probe). `known_ips` is kept ordered (finer than the multiset the design names)
//!           because `pop()` makes behaviour depend on the order; a finer key is always sound.
//!
//! Oracle (from the statement, evaluated after every event on the harness' own ledger of
//! "created on the SpawnEvent stream minus reported removed"):
//!   * `C35:over-count`               |active| <= count
//!   * `C35:duplicate-active-address` active addresses pairwise distinct
//!   * `C35:ignored-address-spawned`  no source is created for an ignored address
//!   * `C35:panic`                    no panic (would abort the daemon)
//! A violating state is reported and not expanded further (BFS => first report is shortest).
use std::collections::BTreeMap;
use std::net::{IpAddr, Ipv4Addr, Ipv6Addr, SocketAddr};

use ntp_proto::{ClockId, ProtocolVersion, SourceConfig};
use tokio::sync::mpsc;

use super::common::{self, Ctx};
use crate::daemon::config::verif_probe::gl::dns::{self as dnsp, DnsScript};
use crate::daemon::config::PoolSourceConfig;
use crate::daemon::spawn::pool::verif_probe::gl as poolp;
use crate::daemon::spawn::pool::PoolSpawner;
use crate::daemon::spawn::{
    SourceCreateParameters, SourceRemovalReason, SourceRemovedEvent, SpawnAction, SpawnEvent,
    Spawner,
};

const NAMES: [char; 4] = ['A', 'B', 'C', 'D'];

fn addr_of(i: usize) -> SocketAddr {
    match i {
        0 => SocketAddr::new(IpAddr::V4(Ipv4Addr::new(127, 0, 0, 1)), 123),
        1 => SocketAddr::new(IpAddr::V4(Ipv4Addr::new(127, 0, 0, 2)), 123),
        2 => SocketAddr::new(IpAddr::V4(Ipv4Addr::new(192, 0, 2, 3)), 123),
        // one IPv6 member so that both families pass through the bookkeeping
        _ => SocketAddr::new(IpAddr::V6(Ipv6Addr::new(0x2001, 0xdb8, 0, 0, 0, 0, 0, 4)), 123),
    }
}

fn idx_of(a: &SocketAddr) -> usize {
    (0..4).find(|i| addr_of(*i) == *a).unwrap_or(9)
}

fn name_of(a: &SocketAddr) -> char {
    let i = idx_of(a);
    if i < 4 { NAMES[i] } else { '?' }
}

fn names(v: &[SocketAddr]) -> String {
    v.iter().map(name_of).collect()
}

#[derive(Clone, Debug, PartialEq, Eq)]
enum Ev {
    Spawn(Vec<usize>),
    Remove(usize, u8), // index into active (creation order), reason 0=D 1=N 2=U
}

fn reason_of(r: u8) -> SourceRemovalReason {
    match r {
        0 => SourceRemovalReason::Demobilized,
        1 => SourceRemovalReason::NetworkIssue,
        _ => SourceRemovalReason::Unreachable,
    }
}

fn ev_str(e: &Ev) -> String {
    match e {
        Ev::Spawn(d) => format!("S:{}", d.iter().map(|i| NAMES[*i]).collect::<String>()),
        Ev::Remove(i, r) => format!("R:{}:{}", i, ['D', 'N', 'U'][*r as usize]),
    }
}

fn trace_str(count: usize, ign: &[usize], evs: &[Ev]) -> String {
    let mut s = format!("count={};ignore={}", count, ign.iter().map(|i| NAMES[*i]).collect::<String>());
    for e in evs {
        s.push(';');
        s.push_str(&ev_str(e));
    }
    s
}

fn parse_trace(t: &str) -> Option<(usize, Vec<usize>, Vec<Ev>)> {
    let mut parts = t.trim().split(';');
    let count: usize = parts.next()?.strip_prefix("count=")?.parse().ok()?;
    let ign: Vec<usize> = parts
        .next()?
        .strip_prefix("ignore=")?
        .chars()
        .map(|c| NAMES.iter().position(|n| *n == c))
        .collect::<Option<_>>()?;
    let mut evs = Vec::new();
    for p in parts {
        if let Some(d) = p.strip_prefix("S:") {
            let d: Vec<usize> = d.chars().map(|c| NAMES.iter().position(|n| *n == c)).collect::<Option<_>>()?;
            evs.push(Ev::Spawn(d));
        } else if let Some(r) = p.strip_prefix("R:") {
            let (i, r) = r.split_once(':')?;
            let r = match r {
                "D" => 0,
                "N" => 1,
                "U" => 2,
                _ => return None,
            };
            evs.push(Ev::Remove(i.parse().ok()?, r));
        } else if !p.is_empty() {
            return None;
        }
    }
    Some((count, ign, evs))
}

/// One explored state: the live spawner + the harness' ledger.
struct St {
    count: usize,
    ign: Vec<usize>,
    sp: PoolSpawner,
    dns: DnsScript,
    /// created on the SpawnEvent stream and not yet reported removed, in creation order
    active: Vec<(ClockId, SocketAddr)>,
    evs: Vec<Ev>,
    violated: bool,
}

type Key = (usize, Vec<usize>, Vec<usize>, Vec<usize>, Vec<usize>);

fn key_of(s: &St) -> Key {
    let mut act: Vec<usize> = s.active.iter().map(|(_, a)| idx_of(a)).collect();
    act.sort();
    let (cur, known) = poolp::view(&s.sp);
    let mut cur: Vec<usize> = cur.iter().map(|(_, a)| idx_of(a)).collect();
    cur.sort();
    let known: Vec<usize> = known.iter().map(idx_of).collect();
    (s.count, s.ign.clone(), act, cur, known)
}

fn root(count: usize, ign: &[usize]) -> St {
    let (addr, dns) = dnsp::scripted("pool.verif.example", 123);
    let sp = PoolSpawner::new(
        PoolSourceConfig {
            addr: addr.into(),
            count,
            ignore: ign.iter().map(|i| addr_of(*i).ip()).collect(),
            ntp_version: ProtocolVersion::V4,
        },
        SourceConfig::default(),
    );
    St {
        count,
        ign: ign.to_vec(),
        sp,
        dns,
        active: vec![],
        evs: vec![],
        violated: false,
    }
}

struct Rig {
    rt: tokio::runtime::Runtime,
    tx: mpsc::Sender<SpawnEvent>,
    rx: mpsc::Receiver<SpawnEvent>,
}

impl Rig {
    fn new() -> Rig {
        let rt = tokio::runtime::Builder::new_current_thread()
            .enable_time()
            .start_paused(true)
            .build()
            .expect("runtime");
        let (tx, rx) = mpsc::channel(crate::daemon::system::MESSAGE_BUFFER_SIZE);
        Rig { rt, tx, rx }
    }
}

#[derive(Default)]
struct StepObs {
    created: Vec<SocketAddr>,
    lookup_visible: bool,
    panic: Option<String>,
}

/// Apply one event to `s` (calls into the real spawner), update the ledger.
fn apply(rig: &mut Rig, s: &mut St, e: &Ev) -> StepObs {
    let mut obs = StepObs::default();
    match e {
        Ev::Spawn(d) => {
            let answer: Vec<SocketAddr> = d.iter().map(|i| addr_of(*i)).collect();
            s.dns.set_next_answer(&answer);
            let before = s.dns.raw();
            let tx = &rig.tx;
            let sp = &mut s.sp;
            let r = common::catch(|| rig.rt.block_on(sp.try_spawn(tx)));
            match r {
                Ok(Ok(())) => {}
                Ok(Err(_)) => unreachable!("PoolSpawnError is uninhabited"),
                Err(p) => obs.panic = Some(p),
            }
            obs.lookup_visible = s.dns.raw() != before;
            while let Ok(ev) = rig.rx.try_recv() {
                let SpawnAction::Create(params) = ev.action;
                if let SourceCreateParameters::Ntp(p) = params {
                    s.active.push((p.id, p.addr));
                    obs.created.push(p.addr);
                }
            }
        }
        Ev::Remove(i, r) => {
            let (id, _) = s.active.remove(*i);
            let sp = &mut s.sp;
            let ev = SourceRemovedEvent {
                id,
                reason: reason_of(*r),
            };
            let r = common::catch(|| rig.rt.block_on(sp.handle_source_removed(ev)));
            if let Err(p) = r {
                obs.panic = Some(p);
            }
        }
    }
    s.evs.push(e.clone());
    obs
}

/// The statement's invariants on the ledger; returns the violated classes.
fn judge(s: &St, obs: &StepObs) -> Vec<(&'static str, String)> {
    let mut out = Vec::new();
    if let Some(p) = &obs.panic {
        out.push(("C35:panic", format!("panic in spawner: {p}")));
    }
    if s.active.len() > s.count {
        out.push((
            "C35:over-count",
            format!("{} active sources [{}] for count={}", s.active.len(), names(&s.active.iter().map(|x| x.1).collect::<Vec<_>>()), s.count),
        ));
    }
    let mut seen: BTreeMap<SocketAddr, usize> = BTreeMap::new();
    for (_, a) in &s.active {
        *seen.entry(*a).or_insert(0) += 1;
    }
    if let Some((a, n)) = seen.iter().find(|(_, n)| **n > 1) {
        out.push((
            "C35:duplicate-active-address",
            format!("{n} active sources for address {} ({a}); active = [{}], count={}", name_of(a), names(&s.active.iter().map(|x| x.1).collect::<Vec<_>>()), s.count),
        ));
    }
    for a in &obs.created {
        if s.ign.iter().any(|i| addr_of(*i).ip() == a.ip()) {
            out.push((
                "C35:ignored-address-spawned",
                format!("source created for ignored address {} ({a})", name_of(a)),
            ));
        }
    }
    out
}

fn all_answers(max_len: usize) -> Vec<Vec<usize>> {
    let mut v = Vec::new();
    for len in 0..=max_len {
        for w in common::product(4, len) {
            v.push(w);
        }
    }
    v
}

/// One breadth-first exploration. With `tag == ""` violations go to `ctx.violation`; with a tag
/// (sub-alphabet run) only counters `<tag>...` and the first violating trace (as a note) are kept.
fn explore(ctx: &Ctx, roots: Vec<St>, answers: &[Vec<usize>], depth: u64, tag: &str) -> common::BfsStats {
    let mut rig = Rig::new();
    let mut first_violation_depth: Option<u64> = None;
    let mut sample_tick = 0u64;
    let stats = common::bfs(
        roots,
        key_of,
        |s: &St, d: u64| {
            let mut out = Vec::new();
            if s.violated {
                return out;
            }
            let mut evs: Vec<Ev> = Vec::new();
            if !s.sp.is_complete() {
                for a in answers {
                    evs.push(Ev::Spawn(a.clone()));
                }
            } else {
                ctx.inc(&format!("{tag}states_complete"));
            }
            for i in 0..s.active.len() {
                for r in 0..3u8 {
                    evs.push(Ev::Remove(i, r));
                }
            }
            for e in evs {
                let mut n = St {
                    count: s.count,
                    ign: s.ign.clone(),
                    sp: poolp::fork(&s.sp),
                    dns: s.dns.clone(),
                    active: s.active.clone(),
                    evs: s.evs.clone(),
                    violated: false,
                };
                let obs = apply(&mut rig, &mut n, &e);
                ctx.inc("evaluations");
                match &e {
                    Ev::Spawn(_) => {
                        ctx.inc(&format!("{tag}spawn_rounds"));
                        ctx.inc(&format!("{tag}rounds_creating_{}", obs.created.len()));
                        ctx.add(&format!("{tag}sources_created"), obs.created.len() as u64);
                        if obs.lookup_visible {
                            ctx.inc(&format!("{tag}rounds_with_visible_lookup"));
                        }
                    }
                    Ev::Remove(_, r) => {
                        ctx.inc(&format!("{tag}removals"));
                        ctx.inc(&format!("{tag}removals_reason_{}", ['D', 'N', 'U'][*r as usize]));
                    }
                }
                let (_, known) = poolp::view(&n.sp);
                ctx.max(&format!("{tag}known_ips_max_len"), known.len() as u64);
                let mut k2 = known.clone();
                k2.sort();
                k2.dedup();
                if k2.len() != known.len() {
                    ctx.inc(&format!("{tag}transitions_leaving_duplicate_in_known_ips"));
                }
                if n.active.len() == n.count {
                    ctx.inc(&format!("{tag}transitions_into_full_pool"));
                }
                let verdicts = judge(&n, &obs);
                if !verdicts.is_empty() {
                    n.violated = true;
                    let tr = trace_str(n.count, &n.ign, &n.evs);
                    if first_violation_depth.is_none() {
                        first_violation_depth = Some(d + 1);
                        ctx.set(&format!("{tag}first_violation_depth"), d + 1);
                        if !tag.is_empty() {
                            ctx.note(
                                &format!("{tag}shortest_violating_trace"),
                                &format!("{} => {} ({})", tr, verdicts[0].0, verdicts[0].1),
                            );
                        }
                    }
                    for (class, what) in verdicts {
                        if tag.is_empty() {
                            ctx.violation(class, what, tr.clone());
                        } else {
                            ctx.inc(&format!("{tag}violating_transitions"));
                        }
                    }
                }
                if tag.is_empty() {
                    ctx.distinct(common::hash_of(&key_of(&n)));
                    if n.evs.len() >= 4 && !obs.created.is_empty() && n.evs.iter().any(|e| matches!(e, Ev::Remove(..))) {
                        sample_tick += 1;
                        if sample_tick % 1201 == 1 {
                            ctx.sample(format!(
                                "{} => active [{}], known [{}]",
                                trace_str(n.count, &n.ign, &n.evs),
                                names(&n.active.iter().map(|x| x.1).collect::<Vec<_>>()),
                                names(&known)
                            ));
                        }
                    }
                }
                out.push(n);
            }
            out
        },
        depth,
    );
    stats
}

fn replay(ctx: &Ctx, trace: &str) -> String {
    let Some((count, ign, evs)) = parse_trace(trace) else {
        return format!("unparsable trace {trace:?}");
    };
    let mut rig = Rig::new();
    let mut s = root(count, &ign);
    let mut out = String::new();
    for e in &evs {
        if let Ev::Remove(i, _) = e {
            if *i >= s.active.len() {
                out.push_str(&format!("{} -> no such active source; stop", ev_str(e)));
                break;
            }
        }
        if let Ev::Spawn(_) = e {
            if s.sp.is_complete() {
                out.push_str(&format!("{} -> skipped (spawner complete, the task would not call try_spawn) | ", ev_str(e)));
                continue;
            }
        }
        let obs = apply(&mut rig, &mut s, e);
        let (_, known) = poolp::view(&s.sp);
        out.push_str(&format!(
            "{} -> created [{}] active [{}] known [{}] | ",
            ev_str(e),
            names(&obs.created),
            names(&s.active.iter().map(|x| x.1).collect::<Vec<_>>()),
            names(&known)
        ));
        for (class, what) in judge(&s, &obs) {
            ctx.violation(class, what.clone(), trace);
            out.push_str(&format!("VIOLATION {class}: {what} | "));
        }
    }
    out
}

#[test]
fn check() {
    let ctx = Ctx::new("C35");
    if let Some(t) = common::replay_trace() {
        let a = replay(&ctx, &t);
        let b = replay(&ctx, &t);
        common::report_replay("C35", &a, &b, ctx.violation_count() > 0);
        return;
    }
    let quick = ctx.quick();
    let depth: u64 = if quick { 6 } else { 8 };
    ctx.rule(&format!(
        "explicit-state BFS on the real PoolSpawner from roots count in {{1,2,3}} x ignore in {{{{}},{{A}}{}}}; \
         events: S:<d> = one spawn round whose DNS lookup (if the round performs one) answers d, d over ALL 85 lists \
         of <=3 addresses from {{A,B,C,D}} with repetition, enabled when !is_complete() exactly as spawner_task does; \
         R:<i>:<r> = removal of active source i for reason r in {{D,N,U}}; depth <= {depth} or fixpoint. \
         A state is distinct by (count, ignore, multiset of active addresses, spawner's current_sources, spawner's \
         known_ips in order); non-trivial = reached by >=1 event. Violating states are reported, not expanded.",
        if quick { "" } else { ",{A,B}" }
    ));
    ctx.assume("the cfg(test) DNS stub (HardcodedDnsResolve) stands for tokio::net::lookup_host: answers are always Ok(list); the Err(lookup failed) branch of try_spawn is not reachable through the stub (it returns before touching any state)");
    ctx.assume("the system reports a removal only for a source it created from this spawner's SpawnEvent and reports it once (system.rs removes the source from its table before notifying)");
    ctx.assume("NtsPoolSpawner (nts_pool.rs) is NOT exercised: every round needs a TCP connect + TLS key exchange with a pool KE server; see notes/gl.md");

    let answers = all_answers(3);
    let mut ignores: Vec<Vec<usize>> = vec![vec![], vec![0]];
    if !quick {
        ignores.push(vec![0, 1]);
    }
    let mut roots = Vec::new();
    for count in 1..=3usize {
        for ign in &ignores {
            roots.push(root(count, ign));
        }
    }
    ctx.set("roots", roots.len() as u64);
    ctx.set("dns_answers_per_round", answers.len() as u64);

    let main = explore(&ctx, roots, &answers, depth, "");
    ctx.set("states", main.states);
    ctx.set("transitions", main.transitions);
    ctx.set("max_depth", main.max_depth);
    ctx.set("fixpoint_reached", main.fixpoint as u64);
    ctx.note(
        "bound",
        &if main.fixpoint {
            format!("frontier emptied at depth {}: every history of ANY length over this alphabet stays inside the {} explored states", main.max_depth, main.states)
        } else {
            format!("all histories of <= {depth} events (deduplicated on the state key)")
        },
    );

    // Second search over the sub-alphabet of duplicate-free DNS answers (41 of the 85 lists). It is
    // a subset of the search above and adds no coverage; its only purpose is to produce the shortest
    // counterexample in which the resolver itself never repeats an address inside one answer.
    let nodup: Vec<Vec<usize>> = answers
        .iter()
        .filter(|a| {
            let mut b = (*a).clone();
            b.sort();
            b.dedup();
            b.len() == a.len()
        })
        .cloned()
        .collect();
    ctx.set("nodup_dns_answers_per_round", nodup.len() as u64);
    let mut roots2 = Vec::new();
    for count in 1..=3usize {
        for ign in &ignores {
            roots2.push(root(count, ign));
        }
    }
    let sub = explore(&ctx, roots2, &nodup, depth.max(7), "nodup_");
    ctx.set("nodup_states", sub.states);
    ctx.set("nodup_transitions", sub.transitions);
    ctx.set("nodup_fixpoint_reached", sub.fixpoint as u64);

    // determinism: replay a handful of fixed traces twice
    for t in [
        "count=2;ignore=;S:ABC;R:0:N;R:0:U;S:BA;R:1:D;S:",
        "count=3;ignore=A;S:AAB;S:CD;R:1:U;S:DDA",
        "count=1;ignore=;S:;S:D;R:0:D;S:DD",
    ] {
        let tmp = Ctx::new("C35");
        let a = replay(&tmp, t);
        let b = replay(&tmp, t);
        ctx.inc("determinism_replays");
        if a != b {
            ctx.violation("C35:harness-nondeterminism", format!("two replays differ: {a} vs {b}"), t);
        }
    }
    ctx.exhaustive(true);
    ctx.finish();
}
