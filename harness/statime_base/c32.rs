//! C32 (PTP half) — `statime_base::Timestamp` wraps modulo 2^128, `Duration` saturates, the
//! f64 conversions preserve sign / saturate / round-trip, nothing panics.
//!
//! Engine E-IN. The crate has no probe include for `time_types` and the integer fields are
//! private, so raw values are *written* with `transmute` (both types are single-field
//! wrappers of a 128-bit integer) and *read back* through the derived / hand-written `Hash`
//! impls with a capturing `Hasher`; every constructed input is read back before use, so a
//! layout surprise would be a loud machinery failure and not a verdict.
//!
//! Reference arithmetic avoids the operations under test: modular results are computed by
//! magnitude case analysis with plain (non-wrapping) u128 arithmetic, saturation by explicit
//! range tests, products by magnitude / limit division.
extern crate std;
use std::prelude::v1::*;

use core::hash::{Hash, Hasher};
use std::collections::BTreeSet;
use std::sync::Mutex;
use std::sync::atomic::{AtomicBool, AtomicU64, Ordering};
use std::{format, vec};

use super::common::{self, Ctx};
use crate::{Duration, TAI, Timestamp, UTC};

// ---------------------------------------------------------------------------------
// raw access
// ---------------------------------------------------------------------------------

struct Cap(Option<u128>, u32);
impl Hasher for Cap {
    fn finish(&self) -> u64 {
        0
    }
    fn write(&mut self, bytes: &[u8]) {
        // integer Hash impls funnel into write_{u,i}128 -> write(ne_bytes) by default
        if bytes.len() == 16 {
            let mut b = [0u8; 16];
            b.copy_from_slice(bytes);
            self.0 = Some(u128::from_ne_bytes(b));
        }
        self.1 += 1;
    }
    fn write_u128(&mut self, i: u128) {
        self.0 = Some(i);
        self.1 += 1;
    }
    fn write_i128(&mut self, i: i128) {
        self.0 = Some(i as u128);
        self.1 += 1;
    }
}

fn draw(d: Duration) -> i128 {
    let mut c = Cap(None, 0);
    d.hash(&mut c);
    assert_eq!(c.1, 1, "Duration hashes exactly one integer");
    c.0.expect("Duration hash did not expose its i128") as i128
}

fn traw<A>(t: Timestamp<A>) -> u128 {
    let mut c = Cap(None, 0);
    t.hash(&mut c);
    assert_eq!(c.1, 1, "Timestamp hashes exactly one integer");
    c.0.expect("Timestamp hash did not expose its u128")
}

fn dmk(v: i128) -> Duration {
    // SAFETY: `Duration` is a single-field tuple struct around an i128; verified by read-back.
    let d: Duration = unsafe { core::mem::transmute::<i128, Duration>(v) };
    assert_eq!(draw(d), v, "transmute/readback mismatch (machinery)");
    d
}

fn tmk(v: u128) -> Timestamp<TAI> {
    // SAFETY: `Timestamp<A>` is (u128, PhantomData<A>); verified by read-back.
    let t: Timestamp<TAI> = unsafe { core::mem::transmute::<u128, Timestamp<TAI>>(v) };
    assert_eq!(traw(t), v, "transmute/readback mismatch (machinery)");
    t
}

fn tmk_utc(v: u128) -> Timestamp<UTC> {
    let t: Timestamp<UTC> = unsafe { core::mem::transmute::<u128, Timestamp<UTC>>(v) };
    assert_eq!(traw(t), v, "transmute/readback mismatch (machinery)");
    t
}

// ---------------------------------------------------------------------------------
// reference arithmetic (no wrapping / saturating helpers of std)
// ---------------------------------------------------------------------------------

const HALF: u128 = 1u128 << 127;

/// The unique d in [-2^127, 2^127) with t + d == u (mod 2^128).
fn ref_shortest(t: u128, u: u128) -> i128 {
    if u >= t {
        let m = u - t;
        if m < HALF { m as i128 } else { -((u128::MAX - m) as i128) - 1 }
    } else {
        let m = t - u; // 1 ..= 2^128-1
        if m <= HALF { -((m - 1) as i128) - 1 } else { ((u128::MAX - m) + 1) as i128 }
    }
}

fn ref_ts_add(t: u128, d: i128) -> u128 {
    if d >= 0 {
        let x = d as u128;
        if x <= u128::MAX - t { t + x } else { x - (u128::MAX - t) - 1 }
    } else {
        let x = d.unsigned_abs();
        if x <= t { t - x } else { u128::MAX - (x - t) + 1 }
    }
}

fn ref_ts_sub(t: u128, d: i128) -> u128 {
    if d == i128::MIN {
        // t - (-2^127) = t + 2^127
        if t < HALF { t + HALF } else { t - HALF }
    } else {
        ref_ts_add(t, -d)
    }
}

/// (value, needed saturation)
fn ref_sat_add(a: i128, b: i128) -> (i128, bool) {
    if b > 0 && a > i128::MAX - b {
        (i128::MAX, true)
    } else if b < 0 && a < i128::MIN - b {
        (i128::MIN, true)
    } else {
        (a + b, false)
    }
}

fn ref_sat_sub(a: i128, b: i128) -> (i128, bool) {
    if b < 0 && a > i128::MAX + b {
        (i128::MAX, true)
    } else if b > 0 && a < i128::MIN + b {
        (i128::MIN, true)
    } else {
        (a - b, false)
    }
}

fn ref_sat_mul(a: i128, k: i128) -> (i128, bool) {
    if a == 0 || k == 0 {
        return (0, false);
    }
    let neg = (a < 0) != (k < 0);
    let (ma, mk) = (a.unsigned_abs(), k.unsigned_abs());
    let limit = if neg { HALF } else { HALF - 1 };
    if ma > limit / mk {
        return (if neg { i128::MIN } else { i128::MAX }, true);
    }
    let m = ma * mk; // <= limit
    if neg {
        if m == HALF { (i128::MIN, false) } else { (-(m as i128), false) }
    } else {
        (m as i128, false)
    }
}

/// floor and ceil of the exact quotient (k != 0), saturated; (lo, hi, needed saturation)
fn ref_quot(a: i128, k: i128) -> (i128, i128, bool) {
    if a == i128::MIN && k == -1 {
        return (i128::MAX, i128::MAX, true);
    }
    let q = a / k; // truncation, cannot overflow here
    let r = a % k;
    if r == 0 {
        (q, q, false)
    } else if (a < 0) != (k < 0) {
        (q - 1, q, false) // exact quotient is negative: trunc is the ceiling
    } else {
        (q, q + 1, false)
    }
}

// ---------------------------------------------------------------------------------
// boundary sets
// ---------------------------------------------------------------------------------

fn b_i128() -> Vec<i128> {
    let mut s = BTreeSet::new();
    for k in 0..=126u32 {
        let pw = 1i128 << k;
        for d in [-1i128, 0, 1] {
            s.insert(pw + d);
            s.insert(-(pw + d));
        }
    }
    for v in [
        0i128, 3, 7, 10, 1_000_000_000, i128::MAX, i128::MAX - 1, i128::MIN, i128::MIN + 1, i128::MIN + 2,
        i128::MAX / 2, i128::MIN / 2, i128::MAX / 3, (i64::MAX as i128) << 64, (i64::MIN as i128) << 64,
        ((i64::MAX as i128) << 64) | (u64::MAX as i128), 0x1234_5678_9ABC_DEF0_0FED_CBA9_8765_4321,
        -0x1234_5678_9ABC_DEF0_0FED_CBA9_8765_4321, 1i128 << 64, (1i128 << 64) * 86400, 37i128 << 64,
    ] {
        s.insert(v);
    }
    s.into_iter().collect()
}

fn b_u128() -> Vec<u128> {
    let mut s = BTreeSet::new();
    s.insert(0u128);
    s.insert(u128::MAX);
    for k in 0..=127u32 {
        let pw = 1u128 << k;
        s.insert(pw);
        s.insert(pw - 1);
        s.insert(pw + 1);
        s.insert(u128::MAX - pw);
        s.insert(u128::MAX - pw + 1);
    }
    for v in [3u128, 1_700_000_000u128 << 64, (1_700_000_000u128 << 64) + (1u128 << 63), HALF - 2, HALF + 2, u128::MAX - 1,
              (u64::MAX as u128) << 64, 0xFEDC_BA98_7654_3210_0123_4567_89AB_CDEF] {
        s.insert(v);
    }
    s.into_iter().collect()
}

fn b_f64() -> Vec<f64> {
    let mut bits: BTreeSet<u64> = BTreeSet::new();
    let mut put = |x: f64| {
        if x.is_finite() {
            bits.insert(x.to_bits());
            bits.insert((-x).to_bits());
        }
    };
    for b in 0..=0x7FEu64 {
        put(f64::from_bits(b << 52));
        put(f64::from_bits((b << 52) + 1));
        if b > 0 {
            put(f64::from_bits((b << 52) - 1));
        }
    }
    for k in 0..52u32 {
        put(f64::from_bits(1u64 << k));
    }
    let two63 = 9223372036854775808.0f64;
    for base in [0.0f64, 0.5, 1.0, 1.5, 37.0, 1e9, 1.7e9, two63 / 2.0, two63, two63 * 2.0, 1e19, 1e40, 1e300] {
        let mut up = base;
        let mut down = base;
        for _ in 0..6 {
            put(up);
            put(down);
            up = f64::from_bits(up.to_bits() + 1);
            if down > 0.0 {
                down = f64::from_bits(down.to_bits() - 1);
            }
        }
    }
    for x in [0.1, 0.2, 0.3, 1e-3, 1e-6, 1e-9, 1e-12, 5.421010862427522e-20, 2.710505431213761e-20, 1e-25, 3.141592653589793,
              f64::MAX, f64::MIN_POSITIVE, f64::EPSILON, 0.999999999, 123456.789] {
        put(x);
    }
    bits.into_iter().map(f64::from_bits).collect()
}

fn scal_signed(bits: u32) -> Vec<i128> {
    let mut s = BTreeSet::new();
    let min = -(1i128 << (bits - 1));
    let max = (1i128 << (bits - 1)) - 1;
    for k in 0..bits {
        for d in [-1i128, 0, 1] {
            for v in [(1i128 << k) + d, -((1i128 << k) + d)] {
                if v >= min && v <= max {
                    s.insert(v);
                }
            }
        }
    }
    for v in [min, min + 1, max, max - 1, 0, 3, -3, 10, 1000, -1000] {
        if v >= min && v <= max {
            s.insert(v);
        }
    }
    s.into_iter().collect()
}

fn scal_unsigned(bits: u32) -> Vec<i128> {
    let mut s = BTreeSet::new();
    let max = (1i128 << bits) - 1;
    for k in 0..=bits {
        for d in [-1i128, 0, 1] {
            let v = (1i128 << k) + d;
            if v >= 0 && v <= max {
                s.insert(v);
            }
        }
    }
    for v in [0, 3, 10, 1000, max, max - 1] {
        if v <= max {
            s.insert(v);
        }
    }
    s.into_iter().collect()
}

// ---------------------------------------------------------------------------------
// judging
// ---------------------------------------------------------------------------------

#[derive(Default)]
struct St {
    evals: AtomicU64,
    exact: AtomicU64,
    saturated: AtomicU64,
    panics: AtomicU64,
    era_cross: AtomicU64,
    neg_diff: AtomicU64,
    pos_diff: AtomicU64,
}

static RECORD: AtomicBool = AtomicBool::new(false);
static OBS: Mutex<Vec<String>> = Mutex::new(Vec::new());

/// values are carried as u128 bit patterns; `signed` only affects printing
fn show(v: u128, signed: bool) -> String {
    if signed { format!("{}", v as i128) } else { format!("{v}") }
}

#[inline]
fn judge(ctx: &Ctx, st: &St, fam: &str, op: &str, a: u128, b: u128, got: Result<u128, String>, lo: u128, hi: u128, signed: bool, overflow: bool) {
    st.evals.fetch_add(1, Ordering::Relaxed);
    if overflow {
        st.saturated.fetch_add(1, Ordering::Relaxed);
    } else {
        st.exact.fetch_add(1, Ordering::Relaxed);
    }
    let ok = match &got {
        Ok(g) => {
            if signed { (lo as i128) <= (*g as i128) && (*g as i128) <= (hi as i128) } else { *g == lo }
        }
        Err(_) => false,
    };
    let w = if lo == hi { show(lo, signed) } else { format!("{}..={}", show(lo, signed), show(hi, signed)) };
    if RECORD.load(Ordering::Relaxed) {
        let g = match &got {
            Ok(g) => show(*g, signed),
            Err(e) => format!("panic({e})"),
        };
        OBS.lock().unwrap().push(format!("{op}({a:#x},{b:#x}) got={g} want={w}"));
    }
    if ok {
        return;
    }
    match got {
        Err(e) => {
            st.panics.fetch_add(1, Ordering::Relaxed);
            ctx.violation(&format!("C32:ptp-{fam}-panic"), format!("{op}({a:#x}, {b:#x}) panicked ({e}); reference {w}"), format!("{op};{a:x};{b:x}"));
        }
        Ok(g) => {
            let kind = if overflow { "overflow" } else { "wrong" };
            ctx.violation(&format!("C32:ptp-{fam}-{kind}"), format!("{op}({a:#x}, {b:#x}) = {}, reference {w}", show(g, signed)), format!("{op};{a:x};{b:x}"));
        }
    }
}

fn dur_binary(ctx: &Ctx, st: &St, a: i128, b: i128) {
    let (da, db) = (dmk(a), dmk(b));
    let (s, so) = ref_sat_add(a, b);
    let (d, dof) = ref_sat_sub(a, b);
    let (au, bu) = (a as u128, b as u128);
    judge(ctx, st, "dur-add", "dadd", au, bu, common::catch(|| draw(da + db) as u128), s as u128, s as u128, true, so);
    judge(ctx, st, "dur-add", "dadd_assign", au, bu, common::catch(|| { let mut x = da; x += db; draw(x) as u128 }), s as u128, s as u128, true, so);
    judge(ctx, st, "dur-sub", "dsub", au, bu, common::catch(|| draw(da - db) as u128), d as u128, d as u128, true, dof);
    judge(ctx, st, "dur-sub", "dsub_assign", au, bu, common::catch(|| { let mut x = da; x -= db; draw(x) as u128 }), d as u128, d as u128, true, dof);
    st.evals.fetch_add(1, Ordering::Relaxed);
    if (da < db) != (a < b) || (da == db) != (a == b) {
        ctx.violation("C32:ptp-dur-order-wrong", format!("ordering of durations {a} and {b} differs from the integer ordering"), format!("dadd;{au:x};{bu:x}"));
    }
}

macro_rules! scalar_case {
    ($fname:ident, $ty:ty, $tn:expr) => {
        fn $fname(ctx: &Ctx, st: &St, a: i128, k: $ty) {
            let ki = k as i128;
            let d = dmk(a);
            let (pr, of) = ref_sat_mul(a, ki);
            let (au, ku) = (a as u128, ki as u128);
            judge(ctx, st, "dur-mul", concat!("dmul.", $tn), au, ku, common::catch(|| draw(d * k) as u128), pr as u128, pr as u128, true, of);
            judge(ctx, st, "dur-mul", concat!("dmulr.", $tn), au, ku, common::catch(|| draw(k * d) as u128), pr as u128, pr as u128, true, of);
            judge(ctx, st, "dur-mul", concat!("dmul_assign.", $tn), au, ku, common::catch(|| { let mut x = d; x *= k; draw(x) as u128 }), pr as u128, pr as u128, true, of);
            if ki != 0 {
                let (lo, hi, qof) = ref_quot(a, ki);
                judge(ctx, st, "dur-div", concat!("ddiv.", $tn), au, ku, common::catch(|| draw(d / k) as u128), lo as u128, hi as u128, true, qof);
            }
        }
    };
}
scalar_case!(scal_i8, i8, "i8");
scalar_case!(scal_u8, u8, "u8");
scalar_case!(scal_i16, i16, "i16");
scalar_case!(scal_u16, u16, "u16");
scalar_case!(scal_i32, i32, "i32");
scalar_case!(scal_u32, u32, "u32");
scalar_case!(scal_i64, i64, "i64");
scalar_case!(scal_u64, u64, "u64");

fn ts_pair(ctx: &Ctx, st: &St, t: u128, u: u128) {
    let (tt, tu) = (tmk(t), tmk(u));
    let want = ref_shortest(t, u);
    if want < 0 {
        st.neg_diff.fetch_add(1, Ordering::Relaxed);
    } else if want > 0 {
        st.pos_diff.fetch_add(1, Ordering::Relaxed);
    }
    if want != 0 && (want > 0) != (u > t) {
        st.era_cross.fetch_add(1, Ordering::Relaxed);
    }
    judge(ctx, st, "ts-sub", "tsub", t, u, common::catch(|| draw(tu - tt) as u128), want as u128, want as u128, true, false);
    judge(ctx, st, "ts-roundtrip", "troundtrip", t, u, common::catch(|| traw(tt + (tu - tt))), u, u, false, false);
    judge(ctx, st, "ts-roundtrip", "troundtrip_sub", t, u, common::catch(|| traw(tu - (tu - tt))), t, t, false, false);
    st.evals.fetch_add(1, Ordering::Relaxed);
    if (tt == tu) != (t == u) {
        ctx.violation("C32:ptp-ts-eq-wrong", format!("timestamps {t:#x} / {u:#x}: equality differs from the integer equality"), format!("tsub;{t:x};{u:x}"));
    }
}

fn ts_dur(ctx: &Ctx, st: &St, t: u128, d: i128) {
    let (tt, dd) = (tmk(t), dmk(d));
    let plus = ref_ts_add(t, d);
    let minus = ref_ts_sub(t, d);
    let wp = (d >= 0 && plus < t) || (d < 0 && plus > t);
    let wm = (d >= 0 && minus > t) || (d < 0 && minus < t);
    let du = d as u128;
    judge(ctx, st, "ts-add", "tadd", t, du, common::catch(|| traw(tt + dd)), plus, plus, false, wp);
    judge(ctx, st, "ts-add", "tadd_assign", t, du, common::catch(|| { let mut x = tt; x += dd; traw(x) }), plus, plus, false, wp);
    judge(ctx, st, "ts-subdur", "tsubd", t, du, common::catch(|| traw(tt - dd)), minus, minus, false, wm);
    judge(ctx, st, "ts-subdur", "tsubd_assign", t, du, common::catch(|| { let mut x = tt; x -= dd; traw(x) }), minus, minus, false, wm);
}

fn utc_spot(ctx: &Ctx, st: &St, t: u128, u: u128) {
    // the UTC instantiation shares the generic code; spot check it is the same arithmetic
    let (tt, tu) = (tmk_utc(t), tmk_utc(u));
    let want = ref_shortest(t, u);
    judge(ctx, st, "ts-sub", "tsub_utc", t, u, common::catch(|| draw(tu - tt) as u128), want as u128, want as u128, true, false);
    judge(ctx, st, "ts-roundtrip", "troundtrip_utc", t, u, common::catch(|| traw(tt + (tu - tt))), u, u, false, false);
}

#[derive(Default)]
struct FStat {
    sat_max: AtomicU64,
    sat_min: AtomicU64,
    inrange: AtomicU64,
    tiny: AtomicU64,
}

fn from_f64_case(ctx: &Ctx, st: &St, fs: &FStat, x: f64) {
    st.evals.fetch_add(1, Ordering::Relaxed);
    let tr = format!("dfromsec;{:x};0", x.to_bits());
    let got = match common::catch(|| draw(Duration::from_f64_seconds(x))) {
        Ok(g) => g,
        Err(e) => {
            ctx.violation("C32:ptp-from-seconds-panic", format!("from_f64_seconds({x:e}) panicked: {e}"), tr);
            return;
        }
    };
    if RECORD.load(Ordering::Relaxed) {
        OBS.lock().unwrap().push(format!("from_f64_seconds({x:e}) = {got}"));
    }
    if (x > 0.0 && got < 0) || (x < 0.0 && got > 0) {
        ctx.violation("C32:ptp-from-seconds-sign", format!("from_f64_seconds({x:e}) = {got}: sign not preserved"), tr.clone());
    }
    let two64 = 18446744073709551616.0f64;
    let two127 = 170141183460469231731687303715884105728.0f64;
    let scaled = x * two64; // exact unless it overflows to infinity
    if scaled >= two127 {
        fs.sat_max.fetch_add(1, Ordering::Relaxed);
        if got != i128::MAX {
            ctx.violation("C32:ptp-from-seconds-saturation", format!("from_f64_seconds({x:e}) = {got}, must saturate to the maximum"), tr);
        }
    } else if scaled <= -two127 {
        fs.sat_min.fetch_add(1, Ordering::Relaxed);
        if got != i128::MIN {
            ctx.violation("C32:ptp-from-seconds-saturation", format!("from_f64_seconds({x:e}) = {got}, must saturate to the minimum"), tr);
        }
    } else {
        if scaled.abs() < 1.0 {
            fs.tiny.fetch_add(1, Ordering::Relaxed);
        } else {
            fs.inrange.fetch_add(1, Ordering::Relaxed);
        }
        let err = (got as f64 - scaled).abs();
        if err > scaled.abs() * 1e-9 + 2.0 {
            ctx.violation("C32:ptp-from-seconds-inexact", format!("from_f64_seconds({x:e}) = {got}, exact {scaled:e} units (off by {err:e})"), tr);
        }
    }
}

fn dur_seconds(ctx: &Ctx, st: &St, a: i128) {
    st.evals.fetch_add(2, Ordering::Relaxed);
    let d = dmk(a);
    let tr = format!("dtosec;{:x};0", a as u128);
    let x = match common::catch(|| d.as_seconds()) {
        Ok(x) => x,
        Err(e) => {
            ctx.violation("C32:ptp-to-seconds-panic", format!("as_seconds({a}) panicked: {e}"), tr);
            return;
        }
    };
    let two64 = 18446744073709551616.0f64;
    let exact = a as f64 / two64;
    if RECORD.load(Ordering::Relaxed) {
        OBS.lock().unwrap().push(format!("as_seconds({a}) = {x:e}"));
    }
    if !x.is_finite() || (x - exact).abs() > exact.abs() * 1e-9 + 1.0 / two64 || (x != 0.0 && a != 0 && (x < 0.0) != (a < 0)) {
        ctx.violation("C32:ptp-to-seconds-wrong", format!("as_seconds({a}) = {x:e}, exact {exact:e}"), tr.clone());
    }
    let back = match common::catch(|| draw(Duration::from_f64_seconds(x))) {
        Ok(b) => b,
        Err(e) => {
            ctx.violation("C32:ptp-from-seconds-panic", format!("from_f64_seconds(as_seconds({a})) panicked: {e}"), tr);
            return;
        }
    };
    if RECORD.load(Ordering::Relaxed) {
        OBS.lock().unwrap().push(format!("from_f64_seconds(as_seconds({a})) = {back}"));
    }
    // |back - a| < |a| * 1e-9 + 1  <=>  (|delta| - 1) * 1e9 < |a|   (u128 magnitudes, checked)
    let delta = if back >= a { (back as u128).wrapping_sub(a as u128) } else { (a as u128).wrapping_sub(back as u128) };
    let bad = if delta <= 1 {
        delta == 1 && a == 0
    } else {
        match (delta - 1).checked_mul(1_000_000_000) {
            Some(v) => v >= a.unsigned_abs(),
            None => true,
        }
    };
    if bad {
        ctx.violation("C32:ptp-seconds-roundtrip", format!("duration {a} -> {x:e} s -> {back}: changed by {delta} units, allowed < |d|*1e-9 + 1"), tr);
    }
}

fn constructors(ctx: &Ctx, st: &St) {
    let mut nanos_out_of_contract_wraps = 0u64;
    for s in [0i64, 1, -1, 37, -37, 1_700_000_000, i64::MAX, i64::MAX - 1, i64::MIN, i64::MIN + 1, 1 << 32, -(1 << 32)] {
        for n in [0u32, 1, 2, 499_999_999, 500_000_000, 500_000_001, 999_999_998, 999_999_999] {
            let want = ((s as i128) << 64) + ((n as i128) << 64) / 1_000_000_000;
            judge(ctx, st, "dur-from-secnanos", "dsecnanos", s as i128 as u128, n as u128, common::catch(|| draw(Duration::from_seconds_nanos(s, n)) as u128), want as u128, want as u128, true, false);
        }
        for n in [1_000_000_000u32, 2_000_000_000, u32::MAX] {
            // more than a second of nanoseconds: outside the documented use; no panic, count wraps
            st.evals.fetch_add(1, Ordering::Relaxed);
            match common::catch(|| draw(Duration::from_seconds_nanos(s, n))) {
                Ok(g) => {
                    if s > 0 && g < 0 {
                        nanos_out_of_contract_wraps += 1;
                    }
                }
                Err(e) => ctx.violation("C32:ptp-dur-from-secnanos-panic", format!("from_seconds_nanos({s}, {n}) panicked: {e}"), format!("dsecnanos;{:x};{:x}", s as i128 as u128, n)),
            }
        }
    }
    ctx.set("obs_from_seconds_nanos_over_1e9_wraps_negative", nanos_out_of_contract_wraps);
    for s in [0u64, 1, 37, 1_700_000_000, u64::MAX, u64::MAX - 1, 1 << 63, (1 << 63) - 1, 1 << 32] {
        for n in [0u32, 1, 2, 499_999_999, 500_000_000, 999_999_999] {
            let want = ((s as u128) << 64) + ((n as u128) << 64) / 1_000_000_000;
            judge(ctx, st, "ts-from-secnanos", "tsecnanos", s as u128, n as u128,
                common::catch(|| traw(Timestamp::<TAI>::from_seconds_nanos_since_unix_epoch(s, n))), want, want, false, false);
        }
    }
    st.evals.fetch_add(2, Ordering::Relaxed);
    if draw(Duration::ZERO) != 0 || traw(Timestamp::<UTC>::UNIX_EPOCH) != 0 {
        ctx.violation("C32:ptp-constants-wrong", "Duration::ZERO / UNIX_EPOCH are not zero", "dsecnanos;0;0");
    }
}

// ---------------------------------------------------------------------------------

fn run_one(ctx: &Ctx, st: &St, trace: &str) {
    let parts: Vec<&str> = trace.split(';').collect();
    let op = parts.first().copied().unwrap_or("");
    let a: u128 = parts.get(1).and_then(|s| u128::from_str_radix(s, 16).ok()).unwrap_or(0);
    let b: u128 = parts.get(2).and_then(|s| u128::from_str_radix(s, 16).ok()).unwrap_or(0);
    let (base, ty) = op.split_once('.').unwrap_or((op, ""));
    match base {
        "dadd" | "dadd_assign" | "dsub" | "dsub_assign" => dur_binary(ctx, st, a as i128, b as i128),
        "dmul" | "dmulr" | "dmul_assign" | "ddiv" => {
            let k = b as i128;
            match ty {
                "i8" => scal_i8(ctx, st, a as i128, k as i8),
                "u8" => scal_u8(ctx, st, a as i128, k as u8),
                "i16" => scal_i16(ctx, st, a as i128, k as i16),
                "u16" => scal_u16(ctx, st, a as i128, k as u16),
                "i32" => scal_i32(ctx, st, a as i128, k as i32),
                "u32" => scal_u32(ctx, st, a as i128, k as u32),
                "i64" => scal_i64(ctx, st, a as i128, k as i64),
                "u64" => scal_u64(ctx, st, a as i128, k as u64),
                _ => {}
            }
        }
        "tsub" | "troundtrip" | "troundtrip_sub" => ts_pair(ctx, st, a, b),
        "tsub_utc" | "troundtrip_utc" => utc_spot(ctx, st, a, b),
        "tadd" | "tadd_assign" | "tsubd" | "tsubd_assign" => ts_dur(ctx, st, a, b as i128),
        "dfromsec" => from_f64_case(ctx, st, &FStat::default(), f64::from_bits(a as u64)),
        "dtosec" => dur_seconds(ctx, st, a as i128),
        "dsecnanos" | "tsecnanos" => constructors(ctx, st),
        _ => OBS.lock().unwrap().push(format!("unknown trace {trace:?}")),
    }
}

fn replay(ctx: &Ctx, trace: &str) -> String {
    OBS.lock().unwrap().clear();
    RECORD.store(true, Ordering::Relaxed);
    let st = St::default();
    run_one(ctx, &st, trace);
    RECORD.store(false, Ordering::Relaxed);
    let obs = OBS.lock().unwrap().join(" | ");
    format!("{obs} | violations_so_far={}", ctx.violation_count() > 0)
}

#[test]
fn check() {
    let ctx = Ctx::new("C32");
    if let Some(t) = common::replay_trace() {
        let a = replay(&ctx, &t);
        let b = replay(&ctx, &t);
        common::report_replay("C32", &a, &b, ctx.violation_count() > 0);
        return;
    }
    ctx.rule(
        "PTP types: boundary sets B_i128 (every +-2^k, +-(2^k +- 1), MIN, MIN+1, MAX, ...) and B_u128 (2^k, 2^k +- 1, 2^128 - 2^k, era midpoint +- 2): \
         timestamps B_u128 x B_u128 (u - t, t + (u - t), u - (u - t)) and B_u128 x B_i128 (t + d, t - d, +=, -=); durations B_i128 x B_i128 (+, -, +=, -=, order) \
         and B_i128 x scalars (all i8, all u8, boundary i16/u16/i32/u32/i64/u64) for d*k, k*d, *=, d/k (k != 0); ~13k finite f64 for from_f64_seconds; \
         B_i128 for as_seconds and the round trip. Distinct & non-trivial = a case needing saturation / wrapping / era crossing, or a float case.",
    );
    ctx.assume("division by zero is undefined and excluded");
    ctx.assume("Duration / Timestamp are single-field wrappers of a 128-bit integer (inputs written by transmute, every one read back through Hash before use)");
    let st = St::default();
    let bi = b_i128();
    let bu = b_u128();
    let bf = b_f64();
    ctx.set("b_i128", bi.len() as u64);
    ctx.set("b_u128", bu.len() as u64);
    ctx.set("b_f64", bf.len() as u64);
    let n = bi.len() as u64;
    common::par_for(n, 4, |i| {
        let a = bi[i as usize];
        dur_seconds(&ctx, &st, a);
        let mut hs = Vec::new();
        for &b in &bi {
            dur_binary(&ctx, &st, a, b);
            if ref_sat_add(a, b).1 || ref_sat_sub(a, b).1 {
                hs.push(common::hash_of(&("dd", a, b)));
            }
        }
        ctx.distinct_many(hs);
    });
    let s_i16 = scal_signed(16);
    let s_i32 = scal_signed(32);
    let s_i64 = scal_signed(64);
    let s_u16 = scal_unsigned(16);
    let s_u32 = scal_unsigned(32);
    let s_u64 = scal_unsigned(64);
    ctx.set("scalars_per_duration", (512 + s_i16.len() + s_i32.len() + s_i64.len() + s_u16.len() + s_u32.len() + s_u64.len()) as u64);
    common::par_for(n, 4, |i| {
        let a = bi[i as usize];
        let mut hs = Vec::new();
        let mut note = |k: i128, tag: &str| {
            if ref_sat_mul(a, k).1 || (a == i128::MIN && k == -1) {
                hs.push(common::hash_of(&(tag, a, k)));
            }
        };
        for k in i8::MIN..=i8::MAX {
            scal_i8(&ctx, &st, a, k);
            note(k as i128, "i8");
        }
        for k in 0..=u8::MAX {
            scal_u8(&ctx, &st, a, k);
            note(k as i128, "u8");
        }
        for &k in &s_i16 {
            scal_i16(&ctx, &st, a, k as i16);
            note(k, "i16");
        }
        for &k in &s_u16 {
            scal_u16(&ctx, &st, a, k as u16);
            note(k, "u16");
        }
        for &k in &s_i32 {
            scal_i32(&ctx, &st, a, k as i32);
            note(k, "i32");
        }
        for &k in &s_u32 {
            scal_u32(&ctx, &st, a, k as u32);
            note(k, "u32");
        }
        for &k in &s_i64 {
            scal_i64(&ctx, &st, a, k as i64);
            note(k, "i64");
        }
        for &k in &s_u64 {
            scal_u64(&ctx, &st, a, k as u64);
            note(k, "u64");
        }
        ctx.distinct_many(hs);
    });
    let m = bu.len() as u64;
    common::par_for(m, 4, |i| {
        let t = bu[i as usize];
        let mut hs = Vec::new();
        for &u in &bu {
            ts_pair(&ctx, &st, t, u);
            let w = ref_shortest(t, u);
            if w != 0 && (w > 0) != (u > t) {
                hs.push(common::hash_of(&("tt", t, u)));
            }
        }
        for &d in &bi {
            ts_dur(&ctx, &st, t, d);
            let pl = ref_ts_add(t, d);
            if (d >= 0 && pl < t) || (d < 0 && pl > t) {
                hs.push(common::hash_of(&("td", t, d)));
            }
        }
        if i % 7 == 0 {
            for &u in &bu {
                utc_spot(&ctx, &st, t, u);
            }
        }
        ctx.distinct_many(hs);
    });
    let fs = FStat::default();
    common::par_for(bf.len() as u64, 256, |i| from_f64_case(&ctx, &st, &fs, bf[i as usize]));
    ctx.distinct_many(bf.iter().map(|x| common::hash_of(&("f", x.to_bits()))));
    ctx.set("from_seconds_saturated_max", fs.sat_max.load(Ordering::Relaxed));
    ctx.set("from_seconds_saturated_min", fs.sat_min.load(Ordering::Relaxed));
    ctx.set("from_seconds_in_range", fs.inrange.load(Ordering::Relaxed));
    ctx.set("from_seconds_below_one_unit", fs.tiny.load(Ordering::Relaxed));
    constructors(&ctx, &st);

    ctx.set("evaluations", st.evals.load(Ordering::Relaxed));
    ctx.set("outcome_exact", st.exact.load(Ordering::Relaxed));
    ctx.set("outcome_needs_saturation_or_wrap", st.saturated.load(Ordering::Relaxed));
    ctx.set("outcome_panicked", st.panics.load(Ordering::Relaxed));
    ctx.set("ts_diff_negative", st.neg_diff.load(Ordering::Relaxed));
    ctx.set("ts_diff_positive", st.pos_diff.load(Ordering::Relaxed));
    ctx.set("ts_diff_across_era_boundary", st.era_cross.load(Ordering::Relaxed));
    ctx.sample(format!("Timestamp(2^128-1) -> Timestamp(1): difference {}", draw(tmk(1) - tmk(u128::MAX))));
    ctx.sample(format!("Duration(MAX) + Duration(1) = {}", draw(dmk(i128::MAX) + dmk(1))));
    ctx.sample(format!("Duration(MIN) / -1i8 = {:?}", common::catch(|| draw(dmk(i128::MIN) / -1i8))));
    ctx.sample(format!("Duration(MIN) * -1i64 = {:?}", common::catch(|| draw(dmk(i128::MIN) * -1i64))));
    ctx.sample(format!("from_f64_seconds(1e40) = {}", draw(Duration::from_f64_seconds(1e40))));
    ctx.sample(format!("from_f64_seconds(-1e-25) = {}", draw(Duration::from_f64_seconds(-1e-25))));
    ctx.exhaustive(true);
    ctx.finish();
}
