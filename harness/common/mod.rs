//! Shared harness library: compiled into every crate's unit-test binary through
//! `#[path = "/verif/harness/common/mod.rs"] mod common;` in that crate's harness root.
//!
//! Contents
//! * `Ctx`      – per-check context: tier, seed, counters, distinct-case set, samples,
//!                violations; prints the machine-readable `VERIF-*` lines that
//!                `/verif/bin/check` turns into the evidence file and the exit status.
//! * `catch`    – `catch_unwind` with the panic message captured (and the default hook
//!                silenced while the harness runs).
//! * `bfs`      – explicit-state breadth-first search with canonical-key deduplication.
//! * `product`  – odometer over a cartesian product (all words of length n over k symbols).
//! * `par_map`  – fork/join over std threads (the engines are exhaustive; threads only
//!                partition the space, they never sample it).
//! * `block_on_paused` is NOT here (tokio is not a dependency of every crate); crates
//!   that have tokio define it in their own harness root.
//!
//! The library only uses `std`, so it also builds inside the `#![no_std]` statime crates
//! (their harness roots do `extern crate std;`).
#![allow(
    dead_code,
    unused_imports,
    unused_macros,
    clippy::all,
    clippy::pedantic
)]

extern crate std;

use std::prelude::v1::*;

use std::collections::{BTreeMap, BTreeSet, HashMap, HashSet, VecDeque};
use std::hash::{Hash, Hasher};
use std::sync::atomic::{AtomicBool, AtomicU64, Ordering};
use std::sync::{Arc, Mutex, Once};
use std::time::Instant;
use std::{eprintln, format, println, vec};

#[derive(Clone, Copy, PartialEq, Eq, Debug)]
pub enum Tier {
    Quick,
    Thorough,
}

pub fn tier() -> Tier {
    match std::env::var("VERIF_TIER").as_deref() {
        Ok("thorough") => Tier::Thorough,
        _ => Tier::Quick,
    }
}

pub fn seed() -> u64 {
    std::env::var("VERIF_SEED")
        .ok()
        .and_then(|s| s.parse::<i64>().ok())
        .map(|v| v as u64)
        .unwrap_or(0)
}

/// The trace to replay (set by `/verif/bin/check --replay`), if any.
pub fn replay_trace() -> Option<String> {
    std::env::var("VERIF_REPLAY_TRACE").ok()
}

/// Wall-clock budget in seconds a harness may use before it must stop raising its
/// bound (it then reports the last *completed* bound). Never used to cut an
/// enumeration short silently: a harness that hits it calls `Ctx::cap_hit`.
pub fn budget_s() -> f64 {
    if let Ok(v) = std::env::var("VERIF_BUDGET_S") {
        if let Ok(f) = v.parse::<f64>() {
            return f;
        }
    }
    match tier() {
        Tier::Quick => 40.0,
        Tier::Thorough => 900.0,
    }
}

pub fn threads() -> usize {
    if let Ok(v) = std::env::var("VERIF_THREADS") {
        if let Ok(n) = v.parse::<usize>() {
            return n.max(1);
        }
    }
    std::thread::available_parallelism()
        .map(|n| n.get())
        .unwrap_or(4)
}

pub fn json_escape(s: &str) -> String {
    let mut out = String::with_capacity(s.len() + 2);
    for c in s.chars() {
        match c {
            '"' => out.push_str("\\\""),
            '\\' => out.push_str("\\\\"),
            '\n' => out.push_str("\\n"),
            '\r' => out.push_str("\\r"),
            '\t' => out.push_str("\\t"),
            c if (c as u32) < 0x20 => out.push_str(&format!("\\u{:04x}", c as u32)),
            c => out.push(c),
        }
    }
    out
}

pub fn hex(bytes: &[u8]) -> String {
    let mut s = String::with_capacity(bytes.len() * 2);
    for b in bytes {
        s.push_str(&format!("{:02x}", b));
    }
    s
}

pub fn unhex(s: &str) -> Option<Vec<u8>> {
    let s = s.trim();
    if s.len() % 2 != 0 {
        return None;
    }
    (0..s.len())
        .step_by(2)
        .map(|i| u8::from_str_radix(&s[i..i + 2], 16).ok())
        .collect()
}

pub fn hash_of<T: Hash>(t: &T) -> u64 {
    // FNV-1a based, deterministic across runs (std's DefaultHasher is keyed with fixed
    // keys when constructed through `new`, but keep this explicit).
    struct Fnv(u64);
    impl Hasher for Fnv {
        fn finish(&self) -> u64 {
            self.0
        }
        fn write(&mut self, bytes: &[u8]) {
            for b in bytes {
                self.0 ^= *b as u64;
                self.0 = self.0.wrapping_mul(0x100000001b3);
            }
        }
    }
    let mut h = Fnv(0xcbf29ce484222325);
    t.hash(&mut h);
    h.finish()
}

static HOOK_ONCE: Once = Once::new();
static QUIET: AtomicBool = AtomicBool::new(false);

std::thread_local! {
    static LAST_PANIC: std::cell::RefCell<Option<String>> = const { std::cell::RefCell::new(None) };
}

fn install_hook() {
    HOOK_ONCE.call_once(|| {
        let prev = std::panic::take_hook();
        std::panic::set_hook(Box::new(move |info| {
            let msg = if let Some(s) = info.payload().downcast_ref::<&str>() {
                (*s).to_string()
            } else if let Some(s) = info.payload().downcast_ref::<String>() {
                s.clone()
            } else {
                "<non-string panic payload>".to_string()
            };
            let loc = info
                .location()
                .map(|l| format!("{}:{}", l.file(), l.line()))
                .unwrap_or_default();
            LAST_PANIC.with(|p| *p.borrow_mut() = Some(format!("{msg} @ {loc}")));
            if !QUIET.load(Ordering::Relaxed) {
                prev(info);
            } else {
                // keep the first few visible so a harness bug is not silent
                static SHOWN: AtomicU64 = AtomicU64::new(0);
                if SHOWN.fetch_add(1, Ordering::Relaxed) < 8 {
                    eprintln!("verif: caught panic: {msg} @ {loc}");
                }
            }
        }));
    });
}

/// Run `f`, catching a panic of the code under test. `Err(message @ file:line)`.
/// While any `catch` is active on any thread the default panic printer is silenced
/// (the message is captured instead), so exhaustive sweeps do not flood stderr.
pub fn catch<T>(f: impl FnOnce() -> T) -> Result<T, String> {
    install_hook();
    QUIET.store(true, Ordering::Relaxed);
    let r = std::panic::catch_unwind(std::panic::AssertUnwindSafe(f));
    match r {
        Ok(v) => Ok(v),
        Err(_) => Err(LAST_PANIC
            .with(|p| p.borrow_mut().take())
            .unwrap_or_else(|| "<panic>".to_string())),
    }
}

/// Re-enable normal panic printing (harness assertion failures after this point are
/// machinery errors and should be visible).
pub fn loud_panics() {
    QUIET.store(false, Ordering::Relaxed);
}

#[derive(Clone, Debug)]
pub struct Violation {
    /// stable class signature, e.g. "C41:tlv-empty-trailing"; used to match
    /// /verif/known_findings.json
    pub class: String,
    /// human readable one-liner
    pub what: String,
    /// harness-defined compact trace that `replay` understands
    pub trace: String,
}

struct Inner {
    counters: BTreeMap<String, u64>,
    notes: BTreeMap<String, String>,
    distinct: HashSet<u64>,
    samples: Vec<String>,
    violations: Vec<Violation>,
    violation_classes: BTreeMap<String, u64>,
    assumptions: Vec<String>,
    rule: String,
    exhaustive: Option<bool>,
    caps: Vec<String>,
}

/// Per-check context. Cheap to share between worker threads (`&Ctx` is `Sync`).
pub struct Ctx {
    pub id: &'static str,
    pub tier: Tier,
    pub seed: u64,
    start: Instant,
    inner: Mutex<Inner>,
}

impl Ctx {
    pub fn new(id: &'static str) -> Ctx {
        install_hook();
        Ctx {
            id,
            tier: tier(),
            seed: seed(),
            start: Instant::now(),
            inner: Mutex::new(Inner {
                counters: BTreeMap::new(),
                notes: BTreeMap::new(),
                distinct: HashSet::new(),
                samples: Vec::new(),
                violations: Vec::new(),
                violation_classes: BTreeMap::new(),
                assumptions: Vec::new(),
                rule: String::new(),
                exhaustive: None,
                caps: Vec::new(),
            }),
        }
    }

    pub fn quick(&self) -> bool {
        self.tier == Tier::Quick
    }

    pub fn elapsed_s(&self) -> f64 {
        self.start.elapsed().as_secs_f64()
    }

    /// True once the wall-clock budget is used up; harnesses test this only *between*
    /// completed bounds and record the fact with `cap_hit`.
    pub fn over_budget(&self) -> bool {
        self.elapsed_s() > budget_s()
    }

    pub fn add(&self, key: &str, n: u64) {
        let mut i = self.inner.lock().unwrap();
        *i.counters.entry(key.to_string()).or_insert(0) += n;
    }

    pub fn inc(&self, key: &str) {
        self.add(key, 1);
    }

    pub fn set(&self, key: &str, n: u64) {
        self.inner
            .lock()
            .unwrap()
            .counters
            .insert(key.to_string(), n);
    }

    pub fn max(&self, key: &str, n: u64) {
        let mut i = self.inner.lock().unwrap();
        let e = i.counters.entry(key.to_string()).or_insert(0);
        if n > *e {
            *e = n;
        }
    }

    pub fn get(&self, key: &str) -> u64 {
        *self.inner.lock().unwrap().counters.get(key).unwrap_or(&0)
    }

    /// Free-text key/value that ends up in the evidence's coverage object.
    pub fn note(&self, key: &str, value: &str) {
        self.inner
            .lock()
            .unwrap()
            .notes
            .insert(key.to_string(), value.to_string());
    }

    /// Record one explored case as *distinct and non-trivial* (by the rule stated with
    /// `rule`). `h` is a hash of the canonical form of the case / observation.
    pub fn distinct(&self, h: u64) {
        self.inner.lock().unwrap().distinct.insert(h);
    }

    pub fn distinct_many(&self, hs: impl IntoIterator<Item = u64>) {
        let mut i = self.inner.lock().unwrap();
        for h in hs {
            i.distinct.insert(h);
        }
    }

    pub fn distinct_count(&self) -> u64 {
        self.inner.lock().unwrap().distinct.len() as u64
    }

    /// Keep at most 12 samples (first come) – written to the evidence verbatim.
    pub fn sample(&self, s: impl Into<String>) {
        let mut i = self.inner.lock().unwrap();
        if i.samples.len() < 12 {
            i.samples.push(s.into());
        }
    }

    pub fn rule(&self, s: &str) {
        self.inner.lock().unwrap().rule = s.to_string();
    }

    pub fn assume(&self, s: &str) {
        self.inner.lock().unwrap().assumptions.push(s.to_string());
    }

    pub fn exhaustive(&self, b: bool) {
        self.inner.lock().unwrap().exhaustive = Some(b);
    }

    /// A wall/size cap stopped a deeper level: say which and what was covered below.
    pub fn cap_hit(&self, s: &str) {
        self.inner.lock().unwrap().caps.push(s.to_string());
    }

    /// Report a property violation. Only the first 3 traces of each class are kept
    /// (all are counted).
    pub fn violation(&self, class: &str, what: impl Into<String>, trace: impl Into<String>) {
        let mut i = self.inner.lock().unwrap();
        let n = i.violation_classes.entry(class.to_string()).or_insert(0);
        *n += 1;
        if *n <= 3 {
            i.violations.push(Violation {
                class: class.to_string(),
                what: what.into(),
                trace: trace.into(),
            });
        }
    }

    pub fn violation_count(&self) -> u64 {
        self.inner.lock().unwrap().violation_classes.values().sum()
    }

    /// Print everything for `/verif/bin/check`. Call exactly once at the end.
    pub fn finish(&self) {
        loud_panics();
        let i = self.inner.lock().unwrap();
        let id = self.id;
        println!();
        for (k, v) in &i.counters {
            println!("VERIF-STAT {id} {k}={v}");
        }
        println!("VERIF-STAT {id} distinct_nontrivial={}", i.distinct.len());
        for (k, v) in &i.notes {
            println!("VERIF-NOTE {id} {k}={}", json_escape(v));
        }
        println!("VERIF-RULE {id} {}", json_escape(&i.rule));
        for a in &i.assumptions {
            println!("VERIF-ASSUME {id} {}", json_escape(a));
        }
        for c in &i.caps {
            println!("VERIF-CAP {id} {}", json_escape(c));
        }
        if let Some(e) = i.exhaustive {
            println!("VERIF-EXHAUSTIVE {id} {e}");
        }
        for s in &i.samples {
            println!("VERIF-SAMPLE {id} {}", json_escape(s));
        }
        for (c, n) in &i.violation_classes {
            println!("VERIF-VCLASS {id} {c} {n}");
        }
        for v in &i.violations {
            println!(
                "VERIF-VIOLATION {id} {{\"class\":\"{}\",\"what\":\"{}\",\"trace\":\"{}\"}}",
                json_escape(&v.class),
                json_escape(&v.what),
                json_escape(&v.trace)
            );
        }
        println!("VERIF-WALL {id} {:.3}", self.start.elapsed().as_secs_f64());
        println!("VERIF-DONE {id}");
    }
}

/// Result of a replay: the harness re-executes the trace twice and reports both
/// observations; the runner fails loudly if they differ.
pub fn report_replay(id: &str, first: &str, second: &str, violates: bool) {
    loud_panics();
    println!();
    println!(
        "VERIF-REPLAY {id} deterministic={} violates={}",
        first == second,
        violates
    );
    println!("VERIF-REPLAY-OBS {id} {}", json_escape(first));
    println!("VERIF-DONE {id}");
}

// ---------------------------------------------------------------------------------
// enumeration helpers
// ---------------------------------------------------------------------------------

/// All words of length `len` over `0..k`, in lexicographic order, as an odometer.
pub struct Product {
    k: usize,
    cur: Vec<usize>,
    done: bool,
}

pub fn product(k: usize, len: usize) -> Product {
    Product {
        k,
        cur: vec![0; len],
        done: k == 0 && len > 0,
    }
}

impl Iterator for Product {
    type Item = Vec<usize>;
    fn next(&mut self) -> Option<Vec<usize>> {
        if self.done {
            return None;
        }
        let out = self.cur.clone();
        // advance
        let mut i = self.cur.len();
        loop {
            if i == 0 {
                self.done = true;
                break;
            }
            i -= 1;
            self.cur[i] += 1;
            if self.cur[i] < self.k {
                break;
            }
            self.cur[i] = 0;
        }
        Some(out)
    }
}

/// Mixed-radix product: all vectors v with v[i] < radix[i].
pub fn mixed_product(radix: &[usize]) -> impl Iterator<Item = Vec<usize>> + '_ {
    let total: u128 = radix.iter().map(|r| *r as u128).product();
    let n = radix.len();
    (0..total).map(move |mut x| {
        let mut v = vec![0usize; n];
        for i in (0..n).rev() {
            let r = radix[i] as u128;
            v[i] = (x % r) as usize;
            x /= r;
        }
        v
    })
}

/// Decode index `x` in `0..k^len` to its word (most significant symbol first).
pub fn word_of(mut x: u64, k: usize, len: usize) -> Vec<usize> {
    let mut v = vec![0usize; len];
    for i in (0..len).rev() {
        v[i] = (x % k as u64) as usize;
        x /= k as u64;
    }
    v
}

pub fn pow(k: usize, len: usize) -> u64 {
    (k as u64).pow(len as u32)
}

/// Fork/join: run `f(worker_index, item_index)` for every index in `0..n`, work-stealing
/// by an atomic counter in chunks. Exhaustive: every index is visited exactly once.
pub fn par_for(n: u64, chunk: u64, f: impl Fn(u64) + Sync) {
    let next = AtomicU64::new(0);
    let nt = threads();
    let chunk = chunk.max(1);
    std::thread::scope(|s| {
        for _ in 0..nt {
            s.spawn(|| {
                loop {
                    let start = next.fetch_add(chunk, Ordering::Relaxed);
                    if start >= n {
                        break;
                    }
                    let end = (start + chunk).min(n);
                    for i in start..end {
                        f(i);
                    }
                }
            });
        }
    });
}

/// Like `par_for` but each worker thread first builds a thread-local state with `init`
/// (e.g. a tokio runtime), passed to `f` by mutable reference.
pub fn par_for_with<S>(
    n: u64,
    chunk: u64,
    init: impl Fn() -> S + Sync,
    f: impl Fn(&mut S, u64) + Sync,
) {
    let next = AtomicU64::new(0);
    let nt = threads();
    let chunk = chunk.max(1);
    std::thread::scope(|s| {
        for _ in 0..nt {
            s.spawn(|| {
                let mut st = init();
                loop {
                    let start = next.fetch_add(chunk, Ordering::Relaxed);
                    if start >= n {
                        break;
                    }
                    let end = (start + chunk).min(n);
                    for i in start..end {
                        f(&mut st, i);
                    }
                }
            });
        }
    });
}

// ---------------------------------------------------------------------------------
// explicit-state search
// ---------------------------------------------------------------------------------

pub struct BfsStats {
    pub states: u64,
    pub transitions: u64,
    pub max_depth: u64,
    /// true if the frontier emptied (fixpoint) rather than the depth bound stopping it
    pub fixpoint: bool,
}

/// Breadth-first search over states of type `S` deduplicated on `K = key(&S)`.
///
/// `succ(&S, depth)` returns the successors (each already checked by the caller's oracle
/// inside `succ`; `succ` reports violations through its own `Ctx`). Search stops at
/// `max_depth` transitions from an initial state or at fixpoint. Because it is
/// breadth-first the first violation reported has the fewest events.
pub fn bfs<S, K: Eq + Hash>(
    init: Vec<S>,
    key: impl Fn(&S) -> K,
    mut succ: impl FnMut(&S, u64) -> Vec<S>,
    max_depth: u64,
) -> BfsStats {
    let mut seen: HashSet<K> = HashSet::new();
    let mut frontier: Vec<S> = Vec::new();
    for s in init {
        if seen.insert(key(&s)) {
            frontier.push(s);
        }
    }
    let mut stats = BfsStats {
        states: seen.len() as u64,
        transitions: 0,
        max_depth: 0,
        fixpoint: false,
    };
    let mut depth = 0;
    while !frontier.is_empty() && depth < max_depth {
        let mut next = Vec::new();
        for s in &frontier {
            for n in succ(s, depth) {
                stats.transitions += 1;
                if seen.insert(key(&n)) {
                    next.push(n);
                }
            }
        }
        depth += 1;
        if !next.is_empty() {
            stats.max_depth = depth;
        }
        frontier = next;
    }
    stats.fixpoint = frontier.is_empty();
    stats.states = seen.len() as u64;
    stats
}

/// Tiny deterministic PRNG (splitmix64) – only ever used to *rotate the order* of an
/// exhaustive enumeration or to pick which of the explored cases are printed as
/// samples; never to decide what is explored.
pub struct SplitMix(pub u64);
impl SplitMix {
    pub fn next(&mut self) -> u64 {
        self.0 = self.0.wrapping_add(0x9e3779b97f4a7c15);
        let mut z = self.0;
        z = (z ^ (z >> 30)).wrapping_mul(0xbf58476d1ce4e5b9);
        z = (z ^ (z >> 27)).wrapping_mul(0x94d049bb133111eb);
        z ^ (z >> 31)
    }
}
