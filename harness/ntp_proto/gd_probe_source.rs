//! Group gd — probe of `crate::source` and the shared driver ("rig") of C08 / C11 / C12.
//!
//! This file is the child module `crate::source::verif_probe::gd`, so it can *read* the
//! private fields of `NtpSource` / `Reach`. It never writes them: the source under test is
//! only ever changed through its real entry points `NtpSource::new`, `handle_timer`,
//! `handle_incoming` (and read through `observe`).
//!
//! Contents
//! * `Stub`      – recording `SourceController` (every `handle_measurement` / `set_usable`).
//! * `View`      – canonical snapshot of the private state (random identifiers are not part
//!                 of it; the pending request is represented by "present + remaining validity").
//! * `Rig`       – one real `NtpSource<Stub>` in one of five configurations (plain V4 / V5 /
//!                 automatic upgrade, NTS with negotiated V4 / V5) + the list of every request
//!                 it emitted (parsed at byte level: version, upgrade marker, origin timestamp
//!                 / v5 client cookie, NTS unique identifier).
//! * `Ans`       – symbolic description of an answer datagram; `Rig::build` assembles the
//!                 bytes (48-byte v3/v4/v5 header written field by field, extension fields
//!                 framed by hand, NTS authenticator through `Cipher::encrypt`) from the
//!                 request the answer refers to. Nothing here uses `NtpPacket`.
#![allow(dead_code)]

use std::collections::HashMap;
use std::net::{IpAddr, Ipv4Addr, SocketAddr};
use std::sync::{Arc, Mutex, RwLock};
use std::time::Duration;

use super::super::{NtpSource, NtpSourceAction, NtpSourceSnapshot, ProtocolVersion, SourceNtsData};
use crate::ClockId;
use crate::algorithm::{Measurement, ObservableSourceTimedata, SourceController};
use crate::config::SourceConfig;
use crate::cookiestash::CookieStash;
use crate::packet::v5::server_reference_id::ServerId;
use crate::packet::{AesSivCmac256, Cipher};
use crate::system::NtpSourceInfo;
use crate::time_types::{NtpTimestamp, PollInterval};

pub(crate) const UPGRADE_MARKER: [u8; 8] = *b"NTP5DRFT";
pub(crate) const DRAFT: &[u8] = b"draft-ietf-ntp-ntpv5-09";
const C2S_KEY: [u8; 32] = [0x11; 32];
const S2C_KEY: [u8; 32] = [0x22; 32];

// ---------------------------------------------------------------------------------------
// recording controller
// ---------------------------------------------------------------------------------------

#[derive(Default)]
pub(crate) struct Rec {
    pub meas: Vec<Measurement>,
    pub usable: Vec<bool>,
}

pub(crate) struct Stub {
    rec: Arc<Mutex<Rec>>,
    desired: PollInterval,
}

impl SourceController for Stub {
    fn handle_measurement(&mut self, measurement: Measurement) {
        self.rec.lock().unwrap().meas.push(measurement);
    }
    fn set_usable(&mut self, usable: bool) {
        self.rec.lock().unwrap().usable.push(usable);
    }
    fn desired_poll_interval(&self) -> PollInterval {
        self.desired
    }
    fn observe(&self) -> ObservableSourceTimedata {
        ObservableSourceTimedata::default()
    }
}

// ---------------------------------------------------------------------------------------
// view of the private state
// ---------------------------------------------------------------------------------------

#[derive(Clone, Copy, Debug, PartialEq, Eq, Hash, PartialOrd, Ord)]
pub(crate) enum Pv {
    V4,
    Upgrading(u8),
    Upgraded,
    V5,
}

#[derive(Clone, Debug, PartialEq, Eq, Hash, PartialOrd, Ord)]
pub(crate) struct View {
    pub reach: u8,
    pub tries: usize,
    pub pv: Pv,
    pub remote_min_poll: i8,
    pub last_poll: i8,
    /// `None`: no pending request. `Some(ns)`: validity - now in nanoseconds (negative = expired).
    pub pending: Option<i128>,
    pub deny: bool,
    pub stratum: u8,
    pub cookies: Option<usize>,
}

pub(crate) fn view<C: SourceController>(s: &NtpSource<C>) -> View {
    let now = tokio::time::Instant::now();
    View {
        reach: s.reach.0,
        tries: s.tries,
        pv: match s.protocol_version {
            ProtocolVersion::V4 => Pv::V4,
            ProtocolVersion::V4UpgradingToV5 { tries_left } => Pv::Upgrading(tries_left),
            ProtocolVersion::UpgradedToV5 => Pv::Upgraded,
            ProtocolVersion::V5 => Pv::V5,
        },
        remote_min_poll: s.remote_min_poll_interval.as_log(),
        last_poll: s.last_poll_interval.as_log(),
        pending: s.current_request_identifier.as_ref().map(|(_, validity)| {
            if *validity >= now {
                validity.duration_since(now).as_nanos() as i128
            } else {
                -(now.duration_since(*validity).as_nanos() as i128)
            }
        }),
        deny: s.have_deny_rstr_response,
        stratum: s.stratum,
        cookies: s.nts.as_ref().map(|n| n.cookies.len()),
    }
}

// ---------------------------------------------------------------------------------------
// configurations
// ---------------------------------------------------------------------------------------

#[derive(Clone, Copy, Debug, PartialEq, Eq, Hash, PartialOrd, Ord)]
pub(crate) enum Mode {
    V4,
    V5,
    Auto,
    NtsV4,
    NtsV5,
}

impl Mode {
    pub(crate) const PLAIN: [Mode; 3] = [Mode::V4, Mode::V5, Mode::Auto];
    pub(crate) const ALL: [Mode; 5] = [Mode::V4, Mode::V5, Mode::Auto, Mode::NtsV4, Mode::NtsV5];
    pub(crate) fn name(self) -> &'static str {
        match self {
            Mode::V4 => "v4",
            Mode::V5 => "v5",
            Mode::Auto => "auto",
            Mode::NtsV4 => "nts4",
            Mode::NtsV5 => "nts5",
        }
    }
    pub(crate) fn parse(s: &str) -> Option<Mode> {
        Mode::ALL.into_iter().find(|m| m.name() == s)
    }
    pub(crate) fn nts(self) -> bool {
        matches!(self, Mode::NtsV4 | Mode::NtsV5)
    }
}

// ---------------------------------------------------------------------------------------
// requests (parsed from the emitted bytes) and symbolic answers
// ---------------------------------------------------------------------------------------

#[derive(Clone, Debug)]
pub(crate) struct Req {
    pub bytes: Vec<u8>,
    pub version: u8,
    pub mode_bits: u8,
    pub poll: u8,
    /// v4 request whose reference timestamp is the upgrade marker
    pub marker: bool,
    /// v3/v4: transmit timestamp; v5: client cookie
    pub id8: [u8; 8],
    /// NTS unique identifier (first 0x0104 field)
    pub uid: Option<Vec<u8>>,
    pub sent_at: tokio::time::Instant,
}

/// Walk RFC 7822 / v5 extension fields by hand; returns (type, body) of each.
pub(crate) fn walk_efs(mut b: &[u8]) -> Vec<(u16, Vec<u8>)> {
    let mut out = Vec::new();
    while b.len() >= 4 {
        let ty = u16::from_be_bytes([b[0], b[1]]);
        let len = u16::from_be_bytes([b[2], b[3]]) as usize;
        if len < 4 || len > b.len() {
            break;
        }
        out.push((ty, b[4..len].to_vec()));
        let adv = (len + 3) / 4 * 4;
        if adv > b.len() {
            break;
        }
        b = &b[adv..];
    }
    out
}

fn parse_req(bytes: &[u8]) -> Req {
    let version = (bytes[0] >> 3) & 7;
    let mut id8 = [0u8; 8];
    if version == 5 {
        id8.copy_from_slice(&bytes[24..32]);
    } else {
        id8.copy_from_slice(&bytes[40..48]);
    }
    let uid = walk_efs(&bytes[48..])
        .into_iter()
        .find(|(t, _)| *t == 0x0104)
        .map(|(_, b)| b);
    Req {
        bytes: bytes.to_vec(),
        version,
        mode_bits: bytes[0] & 7,
        poll: bytes[2],
        marker: version == 4 && bytes[16..24] == UPGRADE_MARKER,
        id8,
        uid,
        sent_at: tokio::time::Instant::now(),
    }
}

#[derive(Clone, Copy, Debug, PartialEq, Eq, Hash, PartialOrd, Ord)]
pub(crate) enum IdSel {
    /// identifier of the most recent request the source emitted
    Match,
    /// identifier of the request before that
    Stale,
    Zero,
    /// a fixed value unrelated to any request
    Random,
}

#[derive(Clone, Copy, Debug, PartialEq, Eq, Hash, PartialOrd, Ord)]
pub(crate) enum Kiss {
    Deny,
    Rate,
    Rstr,
    Ntsn,
    Unknown,
}

#[derive(Clone, Copy, Debug, PartialEq, Eq, Hash, PartialOrd, Ord)]
pub(crate) enum UidSel {
    Match,
    Wrong,
    Absent,
}

/// Symbolic answer datagram.
#[derive(Clone, Copy, Debug, PartialEq, Eq, Hash, PartialOrd, Ord)]
pub(crate) struct Ans {
    pub id: IdSel,
    pub version: u8,
    /// v3/v4: reference timestamp = "NTP5DRFT" (the upgrade marker)
    pub marker: bool,
    /// association mode bits (4 = server)
    pub mode: u8,
    pub stratum: u8,
    /// which kiss code is encoded when stratum == 0 (ignored otherwise)
    pub kiss: Kiss,
    /// NTS: authenticated with the session's s2c key (cookie inside the encrypted part)
    pub auth: bool,
    /// NTS: unique identifier field placed before the authenticator
    pub uid: UidSel,
}

impl Ans {
    pub(crate) fn plain(
        id: IdSel,
        version: u8,
        marker: bool,
        mode: u8,
        stratum: u8,
        kiss: Kiss,
    ) -> Ans {
        Ans {
            id,
            version,
            marker,
            mode,
            stratum,
            kiss,
            auth: false,
            uid: UidSel::Absent,
        }
    }

    /// Harness-side reading of the statement: "is in server mode, is not a KISS code and
    /// has stratum at most 16" (stratum 0 is the KISS encoding in every NTP version).
    pub(crate) fn usable_fields(&self) -> bool {
        self.mode == 4 && self.stratum != 0 && self.stratum <= 16
    }

    pub(crate) fn code(&self) -> String {
        format!(
            "A:{}:{}:{}:{}:{}:{}:{}:{}",
            match self.id {
                IdSel::Match => 'M',
                IdSel::Stale => 'S',
                IdSel::Zero => 'Z',
                IdSel::Random => 'R',
            },
            self.version,
            if self.marker { 'm' } else { '-' },
            self.mode,
            self.stratum,
            match self.kiss {
                Kiss::Deny => 'D',
                Kiss::Rate => 'R',
                Kiss::Rstr => 'S',
                Kiss::Ntsn => 'N',
                Kiss::Unknown => 'X',
            },
            if self.auth { 'a' } else { '-' },
            match self.uid {
                UidSel::Match => 'M',
                UidSel::Wrong => 'W',
                UidSel::Absent => '-',
            },
        )
    }

    pub(crate) fn parse(s: &str) -> Option<Ans> {
        let p: Vec<&str> = s.split(':').collect();
        if p.len() != 9 || p[0] != "A" {
            return None;
        }
        Some(Ans {
            id: match p[1] {
                "M" => IdSel::Match,
                "S" => IdSel::Stale,
                "Z" => IdSel::Zero,
                "R" => IdSel::Random,
                _ => return None,
            },
            version: p[2].parse().ok()?,
            marker: p[3] == "m",
            mode: p[4].parse().ok()?,
            stratum: p[5].parse().ok()?,
            kiss: match p[6] {
                "D" => Kiss::Deny,
                "R" => Kiss::Rate,
                "S" => Kiss::Rstr,
                "N" => Kiss::Ntsn,
                "X" => Kiss::Unknown,
                _ => return None,
            },
            auth: p[7] == "a",
            uid: match p[8] {
                "M" => UidSel::Match,
                "W" => UidSel::Wrong,
                "-" => UidSel::Absent,
                _ => return None,
            },
        })
    }
}

// ---------------------------------------------------------------------------------------
// observations
// ---------------------------------------------------------------------------------------

#[derive(Clone, Copy, Debug, PartialEq, Eq, Hash, PartialOrd, Ord)]
pub(crate) enum Act {
    Send,
    SetTimer,
    Reset,
    Demobilize,
}

#[derive(Clone, Debug)]
pub(crate) struct TimerObs {
    pub acts: Vec<Act>,
    /// index into `Rig::requests` of the request emitted by this timer, if any
    pub sent: Option<usize>,
    pub set_timer: Option<Duration>,
}

impl TimerObs {
    /// exactly [Send, SetTimer]
    pub(crate) fn is_poll(&self) -> bool {
        self.acts == [Act::Send, Act::SetTimer]
    }
    pub(crate) fn is_reset(&self) -> bool {
        self.acts == [Act::Reset]
    }
    pub(crate) fn is_demobilize(&self) -> bool {
        self.acts == [Act::Demobilize]
    }
}

#[derive(Clone, Debug)]
pub(crate) struct DeliverObs {
    pub acts: Vec<Act>,
    /// number of `handle_measurement` calls made during this delivery
    pub meas_calls: usize,
    /// the calls were exactly the (outgoing, incoming) pair carrying this datagram's
    /// receive / transmit timestamps
    pub linked: bool,
}

impl DeliverObs {
    pub(crate) fn accepted(&self) -> bool {
        self.meas_calls > 0
    }
}

// ---------------------------------------------------------------------------------------
// the rig
// ---------------------------------------------------------------------------------------

pub(crate) struct Rig {
    pub mode: Mode,
    pub src: NtpSource<Stub>,
    pub rec: Arc<Mutex<Rec>>,
    pub requests: Vec<Req>,
    pub deliveries: u16,
    s2c: Option<AesSivCmac256>,
}

fn classify(
    actions: impl Iterator<Item = NtpSourceAction>,
) -> (Vec<Act>, Option<Vec<u8>>, Option<Duration>) {
    let mut acts = Vec::new();
    let mut sent = None;
    let mut timer = None;
    for a in actions {
        match a {
            NtpSourceAction::Send(b) => {
                acts.push(Act::Send);
                sent = Some(b);
            }
            NtpSourceAction::SetTimer(d) => {
                acts.push(Act::SetTimer);
                timer = Some(d);
            }
            NtpSourceAction::Reset => acts.push(Act::Reset),
            NtpSourceAction::Demobilize => acts.push(Act::Demobilize),
        }
    }
    (acts, sent, timer)
}

impl Rig {
    /// A fresh source exactly as `NtpManager::new_source` would build it (default poll
    /// limits 4..10, local stratum 16, no local addresses). NTS sources get a full stash of
    /// 8 cookies and AES-SIV-CMAC-256 session keys, with the protocol version "negotiated"
    /// = the `ProtocolVersion` handed to `NtpSource::new`, as `nts::KeyExchangeClient` does.
    pub(crate) fn new(mode: Mode) -> Rig {
        let rec = Arc::new(Mutex::new(Rec::default()));
        let cfg = SourceConfig::default();
        let stub = Stub {
            rec: rec.clone(),
            desired: cfg.poll_interval_limits.min,
        };
        let info = Arc::new(RwLock::new(NtpSourceInfo {
            ip_list: Arc::from(Vec::<IpAddr>::new()),
            server_id: ServerId::default(),
            local_stratum: 16,
        }));
        let snaps: Arc<Mutex<HashMap<ClockId, NtpSourceSnapshot>>> = Arc::default();
        let pv = match mode {
            Mode::V4 | Mode::NtsV4 => ProtocolVersion::V4,
            Mode::V5 | Mode::NtsV5 => ProtocolVersion::V5,
            Mode::Auto => ProtocolVersion::v4_upgrading_to_v5_with_default_tries(),
        };
        let (nts, s2c) = if mode.nts() {
            let mut cookies = CookieStash::default();
            for i in 0..8u8 {
                cookies.store(vec![0xC0 | i; 32]);
            }
            (
                Some(Box::new(SourceNtsData {
                    cookies,
                    c2s: Box::new(AesSivCmac256::new(C2S_KEY.into())),
                    s2c: Box::new(AesSivCmac256::new(S2C_KEY.into())),
                })),
                Some(AesSivCmac256::new(S2C_KEY.into())),
            )
        } else {
            (None, None)
        };
        let (src, _initial) = NtpSource::new(
            SocketAddr::new(IpAddr::V4(Ipv4Addr::new(10, 0, 0, 1)), 123),
            cfg,
            pv,
            stub,
            nts,
            ClockId(7),
            info,
            snaps,
        );
        Rig {
            mode,
            src,
            rec,
            requests: Vec::new(),
            deliveries: 0,
            s2c,
        }
    }

    pub(crate) fn view(&self) -> View {
        view(&self.src)
    }

    /// `ObservableSourceState.unanswered_polls` through the public `observe`.
    pub(crate) fn unanswered_polls(&self) -> u32 {
        self.src.observe(String::new(), ClockId(7)).unanswered_polls
    }

    pub(crate) fn timer(&mut self) -> TimerObs {
        let (acts, sent, set_timer) = classify(self.src.handle_timer());
        let sent = sent.map(|b| {
            self.requests.push(parse_req(&b));
            self.requests.len() - 1
        });
        TimerObs {
            acts,
            sent,
            set_timer,
        }
    }

    /// The request an answer with identifier selector `id` refers to.
    pub(crate) fn req_for(&self, id: IdSel) -> Option<&Req> {
        let n = self.requests.len();
        match id {
            IdSel::Match => self.requests.last(),
            IdSel::Stale => {
                if n >= 2 {
                    self.requests.get(n - 2)
                } else {
                    None
                }
            }
            IdSel::Zero | IdSel::Random => self.requests.last(),
        }
    }

    /// Assemble the datagram. `None` when the symbol is not applicable (it refers to a
    /// request that does not exist yet).
    pub(crate) fn build(&self, a: &Ans) -> Option<Vec<u8>> {
        let req = self.req_for(a.id)?;
        let id8: [u8; 8] = match a.id {
            IdSel::Match | IdSel::Stale => req.id8,
            IdSel::Zero => [0; 8],
            IdSel::Random => [0x5a, 0x13, 0x77, 0x01, 0xfe, 0x42, 0x99, 0x3c],
        };
        let k = self.deliveries;
        let recv = [0xA0, 0, 0, 0, 0, 1, (k >> 8) as u8, k as u8];
        let xmit = [0xB0, 0, 0, 0, 0, 2, (k >> 8) as u8, k as u8];
        let own_poll = req.poll;
        let mut d = Vec::with_capacity(160);
        d.push(((a.version & 7) << 3) | (a.mode & 7)); // leap 0
        d.push(a.stratum);
        if a.version == 5 {
            // v5 kiss codes live in the poll field / flags (draft-ietf-ntp-ntpv5)
            let poll = if a.stratum == 0 {
                match a.kiss {
                    Kiss::Rate => own_poll.saturating_add(1).min(126),
                    Kiss::Deny => 127,
                    _ => own_poll,
                }
            } else {
                own_poll
            };
            d.push(poll);
            d.push(0xE8); // precision -24
            d.extend_from_slice(&[0, 0, 0x10, 0]); // root delay (time32)
            d.extend_from_slice(&[0, 0, 0x20, 0]); // root dispersion (time32)
            d.push(0); // timescale UTC
            d.push(0); // era
            let mut flags = if a.stratum != 0 { 0b001u8 } else { 0 }; // synchronized
            if a.stratum == 0 && a.kiss == Kiss::Ntsn {
                flags |= 0b100; // authnak
            }
            d.extend_from_slice(&[0, flags]);
            d.extend_from_slice(b"SRVCOOKI"); // server cookie
            d.extend_from_slice(&id8); // client cookie
            d.extend_from_slice(&recv);
            d.extend_from_slice(&xmit);
        } else {
            d.push(own_poll);
            d.push(0xE8);
            d.extend_from_slice(&[0, 0, 0x01, 0]); // root delay (short)
            d.extend_from_slice(&[0, 0, 0x02, 0]); // root dispersion (short)
            let refid: [u8; 4] = if a.stratum == 0 {
                match a.kiss {
                    Kiss::Deny => *b"DENY",
                    Kiss::Rate => *b"RATE",
                    Kiss::Rstr => *b"RSTR",
                    Kiss::Ntsn => *b"NTSN",
                    Kiss::Unknown => *b"XXXX",
                }
            } else {
                *b"VRF\0"
            };
            d.extend_from_slice(&refid);
            if a.marker {
                d.extend_from_slice(&UPGRADE_MARKER);
            } else {
                d.extend_from_slice(&[0xD0, 0, 0, 0, 0, 0, 0, 1]); // reference timestamp
            }
            d.extend_from_slice(&id8); // origin
            d.extend_from_slice(&recv);
            d.extend_from_slice(&xmit);
        }
        debug_assert_eq!(d.len(), 48);
        if a.version == 3 {
            return Some(d); // v3 has no extension fields
        }
        // unique identifier (NTS)
        match a.uid {
            UidSel::Absent => {}
            UidSel::Match | UidSel::Wrong => {
                let mut uid = req.uid.clone().unwrap_or_else(|| vec![0x33; 32]);
                if a.uid == UidSel::Wrong {
                    uid[0] ^= 0x80;
                }
                d.extend_from_slice(&0x0104u16.to_be_bytes());
                d.extend_from_slice(&((4 + uid.len()) as u16).to_be_bytes());
                d.extend_from_slice(&uid);
                while d.len() % 4 != 0 {
                    d.push(0);
                }
            }
        }
        if a.version == 5 {
            d.extend_from_slice(&0xF5FFu16.to_be_bytes());
            d.extend_from_slice(&((4 + DRAFT.len()) as u16).to_be_bytes());
            d.extend_from_slice(DRAFT);
            while d.len() % 4 != 0 {
                d.push(0);
            }
        }
        if a.auth {
            let cipher = self.s2c.as_ref()?;
            // plaintext: one fresh cookie (type 0x0204), as a real NTS server sends
            let cookie = [0xE0u8 | (k as u8 & 0x0f); 32];
            let mut pt = Vec::new();
            pt.extend_from_slice(&0x0204u16.to_be_bytes());
            pt.extend_from_slice(&((4 + cookie.len()) as u16).to_be_bytes());
            pt.extend_from_slice(&cookie);
            let mut buf = vec![0u8; pt.len() + 64];
            buf[..pt.len()].copy_from_slice(&pt);
            let r = cipher.encrypt(&mut buf, pt.len(), &d).ok()?;
            let nonce = buf[..r.nonce_length].to_vec();
            let ct = buf[r.nonce_length..r.nonce_length + r.ciphertext_length].to_vec();
            let pad = |n: usize| (n + 3) / 4 * 4;
            let total = 4 + 4 + pad(nonce.len()) + pad(ct.len());
            d.extend_from_slice(&0x0404u16.to_be_bytes());
            d.extend_from_slice(&(total as u16).to_be_bytes());
            d.extend_from_slice(&(nonce.len() as u16).to_be_bytes());
            d.extend_from_slice(&(ct.len() as u16).to_be_bytes());
            d.extend_from_slice(&nonce);
            while d.len() % 4 != 0 {
                d.push(0);
            }
            d.extend_from_slice(&ct);
            while d.len() % 4 != 0 {
                d.push(0);
            }
        }
        Some(d)
    }

    /// Deliver raw bytes; the measurement link is checked against bytes 32..48 (receive /
    /// transmit timestamp of every NTP version).
    pub(crate) fn deliver_bytes(&mut self, bytes: &[u8]) -> DeliverObs {
        let before = self.rec.lock().unwrap().meas.len();
        self.deliveries = self.deliveries.wrapping_add(1);
        let send_time = NtpTimestamp::from_bits([0x90, 0, 0, 0, 0, 0, 0, 1]);
        let recv_time = NtpTimestamp::from_bits([0x90, 0, 0, 0, 0, 0, 0, 9]);
        let (acts, _, _) = classify(self.src.handle_incoming(bytes, send_time, recv_time));
        let rec = self.rec.lock().unwrap();
        let new = &rec.meas[before..];
        let linked = new.len() == 2 && bytes.len() >= 48 && {
            let r: [u8; 8] = bytes[32..40].try_into().unwrap();
            let x: [u8; 8] = bytes[40..48].try_into().unwrap();
            new[0].sender_id == ClockId::SYSTEM
                && new[0].receiver_id == ClockId(7)
                && new[0].sender_ts == send_time
                && new[0].receiver_ts == NtpTimestamp::from_bits(r)
                && new[1].sender_id == ClockId(7)
                && new[1].receiver_id == ClockId::SYSTEM
                && new[1].sender_ts == NtpTimestamp::from_bits(x)
                && new[1].receiver_ts == recv_time
        };
        DeliverObs {
            acts,
            meas_calls: new.len(),
            linked,
        }
    }

    pub(crate) fn deliver(&mut self, a: &Ans) -> Option<(Vec<u8>, DeliverObs)> {
        let bytes = self.build(a)?;
        let obs = self.deliver_bytes(&bytes);
        Some((bytes, obs))
    }

    pub(crate) fn total_measurement_calls(&self) -> usize {
        self.rec.lock().unwrap().meas.len()
    }
}

/// One tokio runtime with a paused clock per worker thread; histories run inside
/// `rt.block_on`. The source only ever compares instants relative to each other, so the
/// clock never needs to be reset between histories.
pub(crate) fn paused_rt() -> tokio::runtime::Runtime {
    tokio::runtime::Builder::new_current_thread()
        .enable_time()
        .start_paused(true)
        .build()
        .expect("runtime")
}

// ---------------------------------------------------------------------------------------
// level-parallel explicit-state search for objects that cannot be cloned
// ---------------------------------------------------------------------------------------

pub(crate) struct LevelStats {
    pub states: u64,
    pub transitions: u64,
    pub max_depth: u64,
    pub fixpoint: bool,
}

/// Breadth-first search where a state is represented by the *history* (`Vec<u16>` of
/// event indices) that reaches it; `expand(rt, history)` replays the history on a fresh
/// object and returns `(event, key)` for every applicable event. Worker threads only
/// partition a level; candidates are sorted by (parent, event) before deduplication so the
/// representative history of every key — and therefore every count — is deterministic.
pub(crate) fn level_bfs<K: Eq + std::hash::Hash + Clone + Send>(
    init_key: K,
    max_depth: u64,
    expand: impl Fn(&mut tokio::runtime::Runtime, &[u16]) -> Vec<(u16, K)> + Sync,
    mut on_level: impl FnMut(u64, usize) -> bool,
) -> LevelStats {
    use crate::verif::common;
    let mut seen: std::collections::HashSet<K> = std::collections::HashSet::new();
    seen.insert(init_key);
    let mut frontier: Vec<Vec<u16>> = vec![vec![]];
    let mut stats = LevelStats {
        states: 1,
        transitions: 0,
        max_depth: 0,
        fixpoint: false,
    };
    let mut depth = 0u64;
    while !frontier.is_empty() && depth < max_depth {
        if !on_level(depth, frontier.len()) {
            break;
        }
        let out: Mutex<Vec<(usize, u16, K)>> = Mutex::new(Vec::new());
        let fr = &frontier;
        common::par_for_with(fr.len() as u64, 4, paused_rt, |rt, i| {
            let succ = expand(rt, &fr[i as usize]);
            let mut o = out.lock().unwrap();
            for (e, k) in succ {
                o.push((i as usize, e, k));
            }
        });
        let mut cands = out.into_inner().unwrap();
        cands.sort_by(|a, b| (a.0, a.1).cmp(&(b.0, b.1)));
        let mut next = Vec::new();
        for (p, e, k) in cands {
            stats.transitions += 1;
            if !seen.contains(&k) {
                seen.insert(k);
                let mut h = frontier[p].clone();
                h.push(e);
                next.push(h);
            }
        }
        depth += 1;
        if !next.is_empty() {
            stats.max_depth = depth;
        }
        frontier = next;
    }
    stats.fixpoint = frontier.is_empty();
    stats.states = seen.len() as u64;
    stats
}
