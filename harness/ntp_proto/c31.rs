//! C31 — IP filters match exactly the configured subnets.
//!
//! Engine E-IN (exhaustive input enumeration against the subnet definition).
//!
//! (a) all lists of <= 2 prefixes over an 8-bit window (511 prefixes -> 131 328 lists)
//!     x all 256 window addresses (+ 2 addresses outside the window's base), with the
//!     window placed at several bit offsets (nibble aligned and not) of the IPv4 and the
//!     IPv6 tree;
//! (b) all multisets of <= 3 (quick) / <= 4 (thorough) prefixes over a 5-bit window
//!     (63 prefixes) x all 32 addresses: exercises the union-coverage merging in
//!     `fill_node`;
//! (c) `IpSubnet::from_str` over address texts x every mask 0..=255 (+ malformed masks),
//!     acceptance compared with the statement, and accepted subnets compared for
//!     membership on probe addresses.
//!
//! Oracle: `exists subnet: family(canonical addr) == family(subnet) &&
//!          (addr ^ net) >> (W - mask) == 0` computed in u128.
use std::net::{IpAddr, Ipv4Addr, Ipv6Addr};
use std::str::FromStr;

use super::common::{self, Ctx};
use crate::ipfilter::IpFilter;
use crate::server::IpSubnet;

#[derive(Clone, Copy, Debug, PartialEq, Eq, Hash)]
struct Pfx {
    bits: u32, // window bits, left aligned in `len` bits (value < 2^len)
    len: u8,   // 0..=win
}

fn prefixes(win: u8) -> Vec<Pfx> {
    let mut v = Vec::new();
    for len in 0..=win {
        for bits in 0..(1u32 << len) {
            v.push(Pfx { bits, len });
        }
    }
    v
}

#[derive(Clone, Copy)]
struct Placement {
    v6: bool,
    offset: u8, // bit offset of the window from the top of the address
    win: u8,
    base: u128, // bits above the window (left aligned in a 128-bit word; for v4 in the top 32)
}

impl Placement {
    fn width(&self) -> u8 {
        if self.v6 { 128 } else { 32 }
    }
    /// 128-bit left-aligned value of an address whose window bits are `w` and whose
    /// bits below the window are all `fill`.
    fn addr_bits(&self, w: u32, fill: bool) -> u128 {
        let below = self.width() - self.offset - self.win; // bits below window
        let mut v = self.base;
        let shift = 128 - self.offset as u32 - self.win as u32;
        v |= (w as u128) << shift;
        if fill && below > 0 {
            // ones in the `below` bits directly under the window
            let ones = ((1u128 << below) - 1) << (shift - below as u32);
            v |= ones;
        }
        v
    }
    fn ip(&self, bits: u128) -> IpAddr {
        if self.v6 {
            IpAddr::V6(Ipv6Addr::from(bits.to_be_bytes()))
        } else {
            IpAddr::V4(Ipv4Addr::from(((bits >> 96) as u32).to_be_bytes()))
        }
    }
    fn subnet(&self, p: Pfx, host_ones: bool) -> (IpSubnet, u128, u8) {
        let mask = self.offset + p.len;
        // prefix value: base | p.bits left aligned under the offset
        let mut v = self.base;
        if p.len > 0 {
            v |= (p.bits as u128) << (128 - self.offset as u32 - p.len as u32);
        }
        let mut raw = v;
        if host_ones {
            let w = self.width();
            let host = w - mask;
            if host > 0 {
                let ones = ((1u128 << host) - 1) << (128 - w as u32);
                raw |= ones;
            }
        }
        (
            IpSubnet {
                addr: self.ip(raw),
                mask,
            },
            v,
            mask,
        )
    }
}

fn in_ref(nets: &[(u128, u8)], addr: u128) -> bool {
    nets.iter().any(|(net, mask)| {
        if *mask == 0 {
            true
        } else {
            ((addr ^ net) >> (128 - *mask as u32)) == 0
        }
    })
}

fn run_window(ctx: &Ctx, pl: Placement, max_list: usize, tag: &str) {
    let pfx = prefixes(pl.win);
    let n = pfx.len() as u64;
    // enumerate multisets of size 0..=max_list as non-decreasing index tuples
    let mut lists: Vec<Vec<usize>> = vec![vec![]];
    fn rec(start: usize, n: usize, left: usize, cur: &mut Vec<usize>, out: &mut Vec<Vec<usize>>) {
        if left == 0 {
            return;
        }
        for i in start..n {
            cur.push(i);
            out.push(cur.clone());
            rec(i, n, left - 1, cur, out);
            cur.pop();
        }
    }
    rec(0, n as usize, max_list, &mut vec![], &mut lists);
    let total = lists.len() as u64;
    let naddr = 1u32 << pl.win;
    // two addresses outside the base (top bit of the address flipped), only meaningful
    // when the window does not start at bit 0
    let outside: Vec<u128> = if pl.offset > 0 {
        vec![
            pl.addr_bits(0, false) ^ (1u128 << 127),
            pl.addr_bits(naddr - 1, true) ^ (1u128 << 127),
        ]
    } else {
        vec![]
    };
    // every list is built in both configured orders (as written and reversed): the trie
    // construction sorts its input, so a verdict that depends on the configured order of
    // nested subnets sharing a base address would otherwise stay invisible
    common::par_for(total * 2, 256, |li2| {
        let li = li2 / 2;
        let reversed = li2 % 2 == 1;
        let base_list = &lists[li as usize];
        if reversed && base_list.len() < 2 {
            return;
        }
        let list_owned: Vec<usize> = if reversed {
            base_list.iter().rev().copied().collect()
        } else {
            base_list.clone()
        };
        let list = &list_owned;
        let mut subnets = Vec::with_capacity(list.len());
        let mut nets = Vec::with_capacity(list.len());
        for (k, &pi) in list.iter().enumerate() {
            let (s, net, mask) = pl.subnet(pfx[pi], k % 2 == 1);
            subnets.push(s);
            nets.push((net, mask));
        }
        let built = common::catch(|| IpFilter::new(&subnets));
        let filter = match built {
            Ok(f) => f,
            Err(e) => {
                ctx.violation(
                    "C31:build-panic",
                    format!("IpFilter::new panicked: {e}"),
                    format!("{tag};{}", fmt_subnets(&subnets)),
                );
                return;
            }
        };
        let mut evals = 0u64;
        let mut matched = 0u64;
        for w in 0..naddr {
            for fill in [false, true] {
                let a = pl.addr_bits(w, fill);
                let ip = pl.ip(a);
                let want = in_ref(&nets, a);
                let got = match common::catch(|| filter.is_in(ip)) {
                    Ok(g) => g,
                    Err(e) => {
                        ctx.violation(
                            "C31:lookup-panic",
                            format!("is_in panicked: {e}"),
                            format!("{tag};{};{ip}", fmt_subnets(&subnets)),
                        );
                        continue;
                    }
                };
                evals += 1;
                if want {
                    matched += 1;
                }
                if got != want {
                    ctx.violation(
                        "C31:membership",
                        format!(
                            "is_in({ip}) = {got}, definition says {want} for [{}]",
                            fmt_subnets(&subnets)
                        ),
                        format!("{tag};{};{ip}", fmt_subnets(&subnets)),
                    );
                }
                // the same v4 address as an IPv4-mapped IPv6 client address
                if !pl.v6 {
                    let v4 = match ip {
                        IpAddr::V4(x) => x,
                        IpAddr::V6(_) => unreachable!(),
                    };
                    let mapped = IpAddr::V6(v4.to_ipv6_mapped());
                    let gotm = filter.is_in(mapped);
                    evals += 1;
                    if gotm != want {
                        ctx.violation(
                            "C31:membership-mapped",
                            format!(
                                "is_in({mapped}) = {gotm}, definition says {want} for [{}]",
                                fmt_subnets(&subnets)
                            ),
                            format!("{tag};{};{mapped}", fmt_subnets(&subnets)),
                        );
                    }
                }
            }
        }
        for a in &outside {
            let ip = pl.ip(*a);
            let want = in_ref(&nets, *a);
            let got = filter.is_in(ip);
            evals += 1;
            if got != want {
                ctx.violation(
                    "C31:membership",
                    format!(
                        "is_in({ip}) = {got}, definition says {want} for [{}]",
                        fmt_subnets(&subnets)
                    ),
                    format!("{tag};{};{ip}", fmt_subnets(&subnets)),
                );
            }
        }
        ctx.add("evaluations", evals);
        ctx.add("lists", 1);
        // a list is non-trivial if it has >= 1 subnet and splits the window (some
        // address in, some out)
        if !list.is_empty() && matched > 0 && matched < 2 * naddr as u64 {
            ctx.distinct(common::hash_of(&(tag, list)));
        }
        if reversed {
            ctx.add("lists_reversed_order", 1);
        }
        if li % 40_009 == 7 && !reversed {
            ctx.sample(format!(
                "{tag}: subnets [{}] -> {} of {} window addresses listed",
                fmt_subnets(&subnets),
                matched,
                2 * naddr
            ));
        }
    });
}

fn fmt_subnets(s: &[IpSubnet]) -> String {
    s.iter()
        .map(|x| format!("{}/{}", x.addr, x.mask))
        .collect::<Vec<_>>()
        .join(",")
}

fn parse_subnets(s: &str) -> Option<Vec<IpSubnet>> {
    if s.is_empty() {
        return Some(vec![]);
    }
    s.split(',')
        .map(|p| {
            let (a, m) = p.split_once('/')?;
            Some(IpSubnet {
                addr: a.parse().ok()?,
                mask: m.parse().ok()?,
            })
        })
        .collect()
}

fn to_bits(ip: IpAddr) -> (bool, u128) {
    match ip.to_canonical() {
        IpAddr::V4(a) => (false, (u32::from_be_bytes(a.octets()) as u128) << 96),
        IpAddr::V6(a) => (true, u128::from_be_bytes(a.octets())),
    }
}

/// Reference membership for arbitrary (already canonical) subnets.
fn in_ref_general(subnets: &[IpSubnet], ip: IpAddr) -> bool {
    let (v6, a) = to_bits(ip);
    subnets.iter().any(|s| {
        let (sv6, net) = match s.addr {
            IpAddr::V4(x) => (false, (u32::from_be_bytes(x.octets()) as u128) << 96),
            IpAddr::V6(x) => (true, u128::from_be_bytes(x.octets())),
        };
        sv6 == v6 && (s.mask == 0 || ((a ^ net) >> (128 - s.mask as u32)) == 0)
    })
}

fn run_from_str(ctx: &Ctx) {
    let addr_texts = [
        "0.0.0.0",
        "192.168.1.7",
        "255.255.255.255",
        "10.0.0.0",
        "::",
        "::1",
        "2001:db8::1",
        "ffff:ffff:ffff:ffff:ffff:ffff:ffff:ffff",
        "::ffff:1.2.3.4",
        "::ffff:0.0.0.0",
        "::ffff:255.255.255.255",
        "::fffe:1.2.3.4",
        "::1.2.3.4",
        "1.2.3",
        "",
        "1.2.3.4.5",
        "g::",
        "1.2.3.4 ",
        " 1.2.3.4",
        "01.2.3.4",
        "1:2:3:4:5:6:7:8:9",
        "[::1]",
    ];
    let mut mask_texts: Vec<String> = (0..=255u32).map(|m| m.to_string()).collect();
    for bad in ["", "x", "-1", "256", "1.5", "1000", " 8", "8 ", "/8"] {
        mask_texts.push(bad.to_string());
    }
    let probes: Vec<IpAddr> = [
        "0.0.0.0",
        "1.2.3.4",
        "1.2.3.5",
        "1.2.4.4",
        "192.168.1.7",
        "192.168.1.255",
        "192.168.2.0",
        "255.255.255.255",
        "10.0.0.1",
        "128.0.0.0",
        "::",
        "::1",
        "::2",
        "2001:db8::1",
        "2001:db8::2",
        "2001:db9::1",
        "ffff:ffff:ffff:ffff:ffff:ffff:ffff:ffff",
        "8000::",
        "::ffff:1.2.3.4",
        "::ffff:1.2.3.5",
        "::ffff:192.168.1.7",
        "::fffe:1.2.3.4",
        "::1.2.3.4",
        "::1.2.3.5",
    ]
    .iter()
    .map(|s| s.parse().unwrap())
    .collect();
    for at in addr_texts {
        for mt in &mask_texts {
            let text = format!("{at}/{mt}");
            let got = match common::catch(|| IpSubnet::from_str(&text)) {
                Ok(g) => g,
                Err(e) => {
                    ctx.violation(
                        "C31:parse-panic",
                        format!("from_str({text:?}) panicked: {e}"),
                        format!("parse;{text}"),
                    );
                    continue;
                }
            };
            ctx.inc("evaluations");
            ctx.inc("parse_cases");
            // expected acceptance
            let addr: Option<IpAddr> = at.parse().ok();
            let mask: Option<u8> = if mt.chars().all(|c| c.is_ascii_digit()) && !mt.is_empty() {
                mt.parse().ok()
            } else {
                None
            };
            let expect: Option<IpSubnet> = match (addr, mask) {
                (Some(a), Some(m)) => match (a, a.to_canonical()) {
                    (IpAddr::V6(_), c @ IpAddr::V4(_)) => {
                        if m >= 96 && m - 96 <= 32 {
                            Some(IpSubnet {
                                addr: c,
                                mask: m - 96,
                            })
                        } else {
                            None
                        }
                    }
                    (IpAddr::V4(_), _) => {
                        if m <= 32 {
                            Some(IpSubnet { addr: a, mask: m })
                        } else {
                            None
                        }
                    }
                    (IpAddr::V6(_), _) => {
                        if m <= 128 {
                            Some(IpSubnet { addr: a, mask: m })
                        } else {
                            None
                        }
                    }
                },
                _ => None,
            };
            match (&got, &expect) {
                (Ok(g), Some(e)) => {
                    // membership of the accepted subnet on the probes, via a one-element filter
                    let f = IpFilter::new(std::slice::from_ref(g));
                    for p in &probes {
                        let want = in_ref_general(std::slice::from_ref(e), *p);
                        let have = f.is_in(*p);
                        ctx.inc("evaluations");
                        if want != have {
                            ctx.violation(
                                "C31:parsed-subnet-membership",
                                format!(
                                    "subnet {text:?}: is_in({p}) = {have}, definition says {want}"
                                ),
                                format!("parse;{text};{p}"),
                            );
                        }
                    }
                    ctx.distinct(common::hash_of(&("parse-ok", &text)));
                }
                (Err(_), None) => {
                    if addr.is_some() {
                        ctx.distinct(common::hash_of(&("parse-rej", &text)));
                    }
                }
                (Ok(g), None) => ctx.violation(
                    "C31:parse-accepts",
                    format!(
                        "from_str({text:?}) accepted as {}/{} but the statement rejects it",
                        g.addr, g.mask
                    ),
                    format!("parse;{text}"),
                ),
                (Err(e), Some(_)) => ctx.violation(
                    "C31:parse-rejects",
                    format!("from_str({text:?}) rejected ({e}) but address parses and mask fits"),
                    format!("parse;{text}"),
                ),
            }
        }
    }
    ctx.sample("parse: \"::ffff:1.2.3.4/120\" -> 1.2.3.4/24; \"::ffff:1.2.3.4/95\" rejected; \"1.2.3.4/33\" rejected");
}

fn replay(ctx: &Ctx, trace: &str) -> String {
    // trace formats: "<tag>;<subnets>;<ip>"  |  "parse;<text>[;<ip>]"
    let parts: Vec<&str> = trace.split(';').collect();
    if parts[0] == "parse" {
        let r = common::catch(|| IpSubnet::from_str(parts[1]));
        return format!("{r:?}");
    }
    let subnets = parse_subnets(parts[1]).unwrap_or_default();
    let ip: IpAddr = parts
        .get(2)
        .and_then(|s| s.parse().ok())
        .unwrap_or(IpAddr::V4(Ipv4Addr::UNSPECIFIED));
    let got = common::catch(|| IpFilter::new(&subnets).is_in(ip));
    let want = in_ref_general(&subnets, ip);
    if got != Ok(want) {
        ctx.violation(
            "C31:membership",
            format!("is_in({ip}) = {got:?}, definition {want}"),
            trace,
        );
    }
    format!("got={got:?} want={want}")
}

#[test]
fn check() {
    let ctx = Ctx::new("C31");
    if let Some(t) = common::replay_trace() {
        let a = replay(&ctx, &t);
        let b = replay(&ctx, &t);
        common::report_replay("C31", &a, &b, ctx.violation_count() > 0);
        return;
    }
    ctx.rule(
        "(a) every list of <=2 prefixes over an 8-bit window, in both configured orders, x every window address (host bits all-0 and all-1, \
         plain and IPv4-mapped form) at each placement; (b) every multiset of <=3 (quick) / <=4 (thorough) \
         prefixes over a 5-bit window, as written and reversed, x every address; (c) IpSubnet::from_str on 22 address texts x masks 0..=255 \
         + 9 malformed masks. Non-trivial & distinct = a (placement, list) whose subnets split the window \
         (some addresses listed, some not), or a distinct parse text whose address part is valid.",
    );
    ctx.assume("IPv4-mapped IPv6 client addresses and subnet strings are canonicalised to IPv4 first; IPv6 subnets never match canonicalised IPv4 clients (family-separated reading of the statement)");
    ctx.assume("std's IpAddr::from_str decides whether an address text parses");
    let v4_offsets: &[u8] = if ctx.quick() {
        &[0, 13, 24]
    } else {
        &[0, 1, 4, 7, 13, 16, 21, 24]
    };
    let v6_offsets: &[u8] = if ctx.quick() {
        &[4, 61]
    } else {
        &[0, 4, 30, 61, 64, 93, 117, 120]
    };
    let base4: u128 = (0xC0A8_0107u128) << 96; // 192.168.1.7
    let base6: u128 = 0x2001_0db8_85a3_0000_1234_8a2e_0370_7334u128;
    for &off in v4_offsets {
        let base = if off == 0 {
            0
        } else {
            base4 & (u128::MAX << (128 - off as u32))
        };
        run_window(
            &ctx,
            Placement {
                v6: false,
                offset: off,
                win: 8,
                base,
            },
            2,
            &format!("a.v4@{off}"),
        );
    }
    for &off in v6_offsets {
        let base = if off == 0 {
            0
        } else {
            base6 & (u128::MAX << (128 - off as u32))
        };
        run_window(
            &ctx,
            Placement {
                v6: true,
                offset: off,
                win: 8,
                base,
            },
            2,
            &format!("a.v6@{off}"),
        );
    }
    let k = if ctx.quick() { 3 } else { 4 };
    for (v6, off) in [(false, 2u8), (false, 27), (true, 3), (true, 123)] {
        let b = if v6 { base6 } else { base4 };
        let base = b & (u128::MAX << (128 - off as u32));
        run_window(
            &ctx,
            Placement {
                v6,
                offset: off,
                win: 5,
                base,
            },
            k,
            &format!("b.{}@{off}", if v6 { "v6" } else { "v4" }),
        );
    }
    run_from_str(&ctx);
    ctx.exhaustive(true);
    ctx.finish();
}
