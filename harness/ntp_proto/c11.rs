//! C11 — Unreachable sources are reset, responsive sources are kept.
//!
//! Two enumerations over the REAL `NtpSource` (plain modes V4, V5, automatic upgrade):
//!
//! (A) exhaustive TREE, no state merging, no abstraction: every answered/unanswered pattern
//!     of 14 polls (2^14 words) and every pattern over {unanswered, answered usably, answered
//!     with an unauthenticated DENY} of 11 (quick) / 13 (thorough) polls (3^L words). A poll
//!     slot = virtual time advances by the interval the source asked for, the timer fires,
//!     then the slot's answer (if any) is delivered, built at byte level as a real server
//!     would answer the request just emitted (same version, upgrade marker mirrored). The
//!     oracle is evaluated after every event, so all shorter patterns are covered as prefixes.
//!
//! (B) explicit-state search to FIXPOINT with free-form events, merged on a canonical key:
//!     timer without time passing, 5.1 s passing (answers become late), usable answer
//!     (with/without marker), usable answer to the *previous* request, matching DENY, RSTR,
//!     unknown KISS, stratum-17 answer, client-mode answer. This adds late answers, answers
//!     after a reset, duplicates, and answers that must not count as usable.
//!
//! Oracle (reference register written from the statement): the harness keeps one boolean per
//! poll sent ("a usable answer to it was received"). At a timer the source must return
//! exactly [Reset] — or exactly [Demobilize] if a matching unauthenticated DENY/RSTR was seen
//! since the last usable answer — iff (no poll was ever answered and >= 3 polls were sent) or
//! (none of the last 8 polls was answered); otherwise exactly [Send, SetTimer]. Once a usable
//! answer was received, `ObservableSourceState.unanswered_polls` must equal the number of
//! polls sent since, capped at 8.
use std::collections::BTreeMap;
use std::time::Duration;

use super::common::{self, Ctx};
use crate::source::verif_probe::gd::{self as rig, Ans, IdSel, Kiss, Mode, Rig, View};

const WINDOW_NS: u128 = 5_000_000_000;

#[derive(Clone, Copy, Debug, PartialEq, Eq)]
enum Ev {
    /// time advances by the last SetTimer duration (16 s before the first), then timer
    Tick,
    /// timer, no time passes
    Timer,
    Wait(u64),
    /// usable answer to the most recent request, as a real server would send it
    Usable,
    /// same, but never carrying the upgrade marker
    UsableNoMarker,
    /// usable answer to the previous request
    Stale,
    Deny,
    Rstr,
    KissX,
    Stratum17,
    ClientMode,
}

impl Ev {
    fn code(&self) -> String {
        match self {
            Ev::Tick => "Tick".into(),
            Ev::Timer => "T".into(),
            Ev::Wait(ms) => format!("W{ms}"),
            Ev::Usable => "U".into(),
            Ev::UsableNoMarker => "Un".into(),
            Ev::Stale => "S".into(),
            Ev::Deny => "D".into(),
            Ev::Rstr => "R".into(),
            Ev::KissX => "X".into(),
            Ev::Stratum17 => "H".into(),
            Ev::ClientMode => "C".into(),
        }
    }
    fn parse(s: &str) -> Option<Ev> {
        Some(match s {
            "Tick" => Ev::Tick,
            "T" => Ev::Timer,
            "U" => Ev::Usable,
            "Un" => Ev::UsableNoMarker,
            "S" => Ev::Stale,
            "D" => Ev::Deny,
            "R" => Ev::Rstr,
            "X" => Ev::KissX,
            "H" => Ev::Stratum17,
            "C" => Ev::ClientMode,
            _ => return s.strip_prefix('W')?.parse().ok().map(Ev::Wait),
        })
    }
}

#[derive(Default)]
struct Local(BTreeMap<&'static str, u64>);
impl Local {
    fn inc(&mut self, k: &'static str) {
        *self.0.entry(k).or_insert(0) += 1;
    }
    fn flush(self, ctx: &Ctx) {
        for (k, v) in self.0 {
            ctx.add(k, v);
        }
    }
}

/// Reference register, straight from the statement.
#[derive(Clone, Debug, Default)]
struct Reference {
    /// one entry per poll sent: was a usable answer to it received?
    answered: Vec<bool>,
    /// matching unauthenticated DENY / RSTR seen since the last usable answer
    deny: bool,
    /// the most recent poll has not been answered usably yet
    open: bool,
}

impl Reference {
    fn never(&self) -> bool {
        !self.answered.iter().any(|a| *a)
    }
    fn missed(&self) -> usize {
        self.answered.iter().rev().take_while(|a| !**a).count()
    }
    /// "received no usable answer within its first three polls, or none within its last
    /// eight polls"
    fn must_reset(&self) -> bool {
        let n = self.answered.len();
        (self.never() && n >= 3) || (n >= 8 && !self.answered[n - 8..].iter().any(|a| *a))
    }
}

struct World {
    mode: Mode,
    rig: Rig,
    rf: Reference,
    next_interval: Duration,
}

impl World {
    fn new(mode: Mode) -> World {
        World {
            mode,
            rig: Rig::new(mode),
            rf: Reference::default(),
            next_interval: Duration::from_secs(16),
        }
    }
    fn in_window(&self) -> bool {
        self.rig.requests.last().map_or(false, |r| {
            tokio::time::Instant::now()
                .duration_since(r.sent_at)
                .as_nanos()
                < WINDOW_NS
        })
    }
}

enum Step {
    NotApplicable,
    Ok(String),
    Violation(&'static str, String),
}

fn mirror(
    w: &World,
    id: IdSel,
    marker_allowed: bool,
    mode: u8,
    stratum: u8,
    kiss: Kiss,
) -> Option<Ans> {
    let req = w.rig.req_for(id)?;
    Some(Ans::plain(
        id,
        req.version,
        marker_allowed && req.marker,
        mode,
        stratum,
        kiss,
    ))
}

async fn step(w: &mut World, ev: &Ev, st: &mut Local) -> Step {
    let r = match ev {
        Ev::Wait(ms) => {
            tokio::time::advance(Duration::from_millis(*ms)).await;
            Step::Ok("waited".into())
        }
        Ev::Tick | Ev::Timer => {
            if *ev == Ev::Tick {
                tokio::time::advance(w.next_interval).await;
            }
            let must_reset = w.rf.must_reset();
            let obs = w.rig.timer();
            if let Some(d) = obs.set_timer {
                w.next_interval = d;
            }
            if must_reset {
                let want_demob = w.rf.deny;
                if obs.sent.is_some() {
                    let class = if obs
                        .acts
                        .iter()
                        .any(|a| matches!(a, rig::Act::Reset | rig::Act::Demobilize))
                    {
                        "C11:sends-while-reset"
                    } else {
                        "C11:missing-reset"
                    };
                    return Step::Violation(
                        class,
                        format!(
                            "polls answered {:?}: the source must be {} but the timer returned {:?}",
                            w.rf.answered,
                            if want_demob { "demobilised" } else { "reset" },
                            obs.acts
                        ),
                    );
                }
                if want_demob && !obs.is_demobilize() || !want_demob && !obs.is_reset() {
                    return Step::Violation(
                        "C11:reset-vs-demobilize",
                        format!(
                            "polls answered {:?}, deny seen since last usable answer: {want_demob}; timer returned {:?}",
                            w.rf.answered, obs.acts
                        ),
                    );
                }
                st.inc(if want_demob {
                    "timers_demobilize"
                } else {
                    "timers_reset"
                });
                if w.rf.never() {
                    st.inc("resets_startup_rule");
                } else {
                    st.inc("resets_eight_missed_rule");
                }
                Step::Ok(format!("{:?}", obs.acts))
            } else {
                if !obs.is_poll() {
                    return Step::Violation(
                        "C11:spurious-reset",
                        format!(
                            "polls answered {:?}: the source must keep polling but the timer returned {:?}",
                            w.rf.answered, obs.acts
                        ),
                    );
                }
                w.rf.answered.push(false);
                w.rf.open = true;
                st.inc("timers_poll");
                Step::Ok("poll".into())
            }
        }
        _ => {
            let ans = match ev {
                Ev::Usable => mirror(w, IdSel::Match, true, 4, 1, Kiss::Unknown),
                Ev::UsableNoMarker => mirror(w, IdSel::Match, false, 4, 1, Kiss::Unknown),
                Ev::Stale => mirror(w, IdSel::Stale, true, 4, 1, Kiss::Unknown),
                // Only usable answers mirror the upgrade marker: a real server (see
                // `NtpHeaderV3V4::deny_response` etc.) never puts it into a KISS, and a
                // marker-carrying unusable answer would switch an automatic source to NTPv5
                // (C12's subject), after which "answer in the version of the request" is no
                // longer "answer of the expected version".
                Ev::Deny => mirror(w, IdSel::Match, false, 4, 0, Kiss::Deny),
                // NTPv5 has no RSTR encoding: on a v5 request this is a second DENY
                Ev::Rstr => mirror(w, IdSel::Match, false, 4, 0, Kiss::Rstr).map(|mut a| {
                    if a.version == 5 {
                        a.kiss = Kiss::Deny;
                    }
                    a
                }),
                Ev::KissX => mirror(w, IdSel::Match, false, 4, 0, Kiss::Unknown),
                Ev::Stratum17 => mirror(w, IdSel::Match, false, 4, 17, Kiss::Unknown),
                Ev::ClientMode => mirror(w, IdSel::Match, false, 3, 1, Kiss::Unknown),
                _ => unreachable!(),
            };
            let Some(ans) = ans else {
                return Step::NotApplicable;
            };
            let live = w.rf.open && w.in_window() && ans.id == IdSel::Match;
            let Some((_b, obs)) = w.rig.deliver(&ans) else {
                return Step::NotApplicable;
            };
            let expect_usable = live && ans.usable_fields();
            if obs.accepted() != expect_usable {
                return Step::Violation(
                    "C11:usable-answer-classification",
                    format!(
                        "{} (request open & in window: {live}) measurement delivered: {}, expected {}",
                        ans.code(),
                        obs.accepted(),
                        expect_usable
                    ),
                );
            }
            if expect_usable {
                *w.rf.answered.last_mut().unwrap() = true;
                w.rf.deny = false;
                w.rf.open = false;
                st.inc("usable_answers");
            } else if live && ans.stratum == 0 && matches!(ans.kiss, Kiss::Deny | Kiss::Rstr) {
                w.rf.deny = true;
                st.inc("deny_answers_seen");
            } else {
                st.inc("answers_not_counted");
            }
            Step::Ok(if obs.accepted() {
                "usable".into()
            } else {
                "ignored".into()
            })
        }
    };
    // reported missed polls
    if !w.rf.never() {
        let want = w.rf.missed().min(8) as u32;
        let got = w.rig.unanswered_polls();
        if got != want {
            return Step::Violation(
                "C11:unanswered-polls",
                format!(
                    "polls answered {:?}: {} polls since the last usable answer, reported unanswered_polls = {got}",
                    w.rf.answered,
                    w.rf.missed()
                ),
            );
        }
        st.inc(match want {
            0 => "reported_missed_0",
            1..=3 => "reported_missed_1_3",
            4..=7 => "reported_missed_4_7",
            _ => "reported_missed_8",
        });
    }
    r
}

// ---------------------------------------------------------------------------------------
// (A) tree
// ---------------------------------------------------------------------------------------

fn word_events(word: &[usize]) -> Vec<Ev> {
    let mut v = Vec::with_capacity(word.len() * 2);
    for d in word {
        v.push(Ev::Tick);
        match d {
            0 => {}
            1 => v.push(Ev::Usable),
            _ => v.push(Ev::Deny),
        }
    }
    v
}

fn trace_string(mode: Mode, evs: &[Ev]) -> String {
    format!(
        "{};{}",
        mode.name(),
        evs.iter().map(|e| e.code()).collect::<Vec<_>>().join(",")
    )
}

fn tree(ctx: &Ctx, k: usize, len: usize) {
    let total = common::pow(k, len);
    for mode in Mode::PLAIN {
        common::par_for_with(total, 256, rig::paused_rt, |rt, idx| {
            let word = common::word_of(idx, k, len);
            let evs = word_events(&word);
            rt.block_on(async {
                let mut w = World::new(mode);
                let mut st = Local::default();
                let mut resets = 0u32;
                let mut n = 0u64;
                for (i, ev) in evs.iter().enumerate() {
                    n += 1;
                    match step(&mut w, ev, &mut st).await {
                        Step::NotApplicable => {}
                        Step::Ok(o) => {
                            if o.starts_with('[') {
                                resets += 1;
                            }
                        }
                        Step::Violation(class, what) => {
                            ctx.violation(class, what, trace_string(mode, &evs[..=i]));
                            break;
                        }
                    }
                }
                st.inc("histories");
                *st.0.entry("transitions").or_insert(0) += n;
                *st.0.entry("evaluations").or_insert(0) += n;
                if resets > 0 {
                    st.inc("histories_with_reset_or_demobilize");
                }
                if word.iter().all(|d| *d == 1) {
                    st.inc("always_answering_histories");
                    if resets == 0 {
                        st.inc("always_answering_histories_never_reset");
                    }
                }
                // non-trivial: at least one answered and one unanswered poll
                if word.iter().any(|d| *d == 1) && word.iter().any(|d| *d != 1) {
                    ctx.distinct(common::hash_of(&(mode, k, &word)));
                }
                st.flush(ctx);
            });
        });
    }
    ctx.add("tree_words", total * 3);
}

// ---------------------------------------------------------------------------------------
// (B) fixpoint search
// ---------------------------------------------------------------------------------------

/// Canonical key of (B).
/// * `view`: private state of the source (see C12's key for what is left out and why);
///   `tries` saturated at 3 (only `tries >= 3` is evaluated); pending validity collapsed to
///   expired / exact remaining ns.
/// * reference register reduced to what its future depends on: never answered, polls sent
///   saturated at 3 (only `>= 3` is evaluated, and only while never answered), trailing
///   unanswered polls saturated at 8 (only `>= 8` and `min(.., 8)` are evaluated; "none of
///   the last 8 answered" is exactly trailing >= 8), deny flag, request open, in window.
/// * `nreq`: whether a previous request exists (applicability of `S`).
#[derive(Clone, Debug, PartialEq, Eq, Hash)]
struct Key {
    view: View,
    never: bool,
    sent: u8,
    missed: u8,
    deny: bool,
    open: bool,
    in_window: bool,
    nreq: u8,
}

fn key_of(w: &World) -> Key {
    let mut view = w.rig.view();
    view.tries = view.tries.min(3);
    view.pending = view.pending.map(|ns| if ns < 0 { -1 } else { ns });
    Key {
        view,
        never: w.rf.never(),
        sent: w.rf.answered.len().min(3) as u8,
        missed: w.rf.missed().min(8) as u8,
        deny: w.rf.deny,
        open: w.rf.open,
        in_window: w.in_window(),
        nreq: w.rig.requests.len().min(2) as u8,
    }
}

const SEQ_ALPHA: [Ev; 11] = [
    Ev::Timer,
    Ev::Wait(5100),
    Ev::Usable,
    Ev::UsableNoMarker,
    Ev::Stale,
    Ev::Deny,
    Ev::Rstr,
    Ev::KissX,
    Ev::Stratum17,
    Ev::ClientMode,
    Ev::Tick,
];

async fn replay_prefix(mode: Mode, hist: &[u16]) -> World {
    let mut w = World::new(mode);
    let mut sink = Local::default();
    for e in hist {
        let _ = step(&mut w, &SEQ_ALPHA[*e as usize], &mut sink).await;
    }
    w
}

fn fixpoint(ctx: &Ctx, mode: Mode) -> bool {
    let init_key = super::block_on_paused(async { key_of(&World::new(mode)) });
    let stats = rig::level_bfs(
        init_key,
        400,
        |rt, hist| {
            rt.block_on(async {
                let mut st = Local::default();
                let mut out = Vec::new();
                let w0 = replay_prefix(mode, hist).await;
                let base = key_of(&w0);
                let mut cur = Some(w0);
                for (ei, ev) in SEQ_ALPHA.iter().enumerate() {
                    if cur.is_none() {
                        cur = Some(replay_prefix(mode, hist).await);
                    }
                    let w = cur.as_mut().unwrap();
                    match step(w, ev, &mut st).await {
                        Step::NotApplicable => {}
                        Step::Violation(class, what) => {
                            let mut evs: Vec<Ev> =
                                hist.iter().map(|e| SEQ_ALPHA[*e as usize]).collect();
                            evs.push(*ev);
                            ctx.violation(class, what, trace_string(mode, &evs));
                            cur = None;
                        }
                        Step::Ok(_) => {
                            let k = key_of(w);
                            if k != base {
                                ctx.distinct(common::hash_of(&(mode, "seq", &k)));
                                cur = None;
                            }
                            out.push((ei as u16, k));
                        }
                    }
                }
                st.flush(ctx);
                out
            })
        },
        |depth, width| {
            if ctx.over_budget() {
                ctx.cap_hit(&format!(
                    "(B) mode {}: budget used up before depth {} (frontier {}); complete below",
                    mode.name(),
                    depth,
                    width
                ));
                return false;
            }
            true
        },
    );
    ctx.add("states", stats.states);
    ctx.add("transitions", stats.transitions);
    ctx.add("evaluations", stats.transitions);
    ctx.max("max_depth", stats.max_depth);
    ctx.note(
        &format!("fixpoint_mode_{}", mode.name()),
        &format!(
            "{} states, {} transitions, depth {}, fixpoint {}",
            stats.states, stats.transitions, stats.max_depth, stats.fixpoint
        ),
    );
    stats.fixpoint
}

fn replay(ctx: &Ctx, trace: &str) -> String {
    let Some((m, evs)) = trace.split_once(';') else {
        return "bad trace".into();
    };
    let Some(mode) = Mode::parse(m) else {
        return "bad mode".into();
    };
    super::block_on_paused(async {
        let mut w = World::new(mode);
        let mut st = Local::default();
        let mut obs = Vec::new();
        for code in evs.split(',').filter(|s| !s.is_empty()) {
            let Some(ev) = Ev::parse(code) else {
                obs.push(format!("{code}=?"));
                continue;
            };
            match step(&mut w, &ev, &mut st).await {
                Step::NotApplicable => obs.push(format!("{code}=n/a")),
                Step::Ok(o) => obs.push(format!(
                    "{code}={o}|reach={:#010b},missed={}",
                    w.rig.view().reach,
                    w.rig.unanswered_polls()
                )),
                Step::Violation(class, what) => {
                    ctx.violation(class, what.clone(), trace);
                    obs.push(format!("{code}=VIOLATION {class}: {what}"));
                    break;
                }
            }
        }
        obs.join(" ; ")
    })
}

#[test]
fn check() {
    let ctx = Ctx::new("C11");
    if let Some(t) = common::replay_trace() {
        let a = replay(&ctx, &t);
        let b = replay(&ctx, &t);
        common::report_replay("C11", &a, &b, ctx.violation_count() > 0);
        return;
    }
    let tern = if ctx.quick() { 11 } else { 13 };
    ctx.rule(&format!(
        "(A) tree, no merging: modes plain V4, V5, automatic x every word of 14 poll slots over {{unanswered, answered usably}} \
         and every word of {tern} poll slots over {{unanswered, answered usably, answered with DENY}}; a slot = time advances \
         by the requested interval, timer, answer. (B) fixpoint search merged on a canonical key with events {{timer, 5.1 s \
         pass, usable, usable without marker, usable to previous request, DENY, RSTR, unknown KISS, stratum 17, client mode, \
         interval+timer}}. The oracle runs after every event. Distinct & non-trivial = a (mode, word) with at least one \
         answered and one not-answered poll, or a (mode, canonical state) reached by a state-changing transition of (B)."
    ));
    ctx.assume("poll limits are the defaults (4..10), the controller always desires the minimum, so polls are 16.2–16.8 s apart in (A): an answer delivered after a reset is late and must be ignored");
    ctx.assume("a usable answer = matching the open most recent request, < 5 s after it, version of the request, server mode, stratum 1..=16; 'reported missed polls' is only judged after the first usable answer (before it the code reports 8)");
    ctx.assume("after a timer that returned Reset/Demobilize the daemon drops the source; (B) nevertheless keeps delivering events: a late usable answer inside the window legitimately revives the register (statement evaluated per timer)");
    // (B) first: it is cheap and breadth-first, so the traces kept for a violation class
    // are the shortest ones
    let mut complete = true;
    for mode in Mode::PLAIN {
        complete &= fixpoint(&ctx, mode);
    }
    tree(&ctx, 2, 14);
    if ctx.over_budget() {
        ctx.cap_hit("ternary tree not started");
        complete = false;
    } else {
        tree(&ctx, 3, tern);
    }
    ctx.sample("v4;Tick,Tick,Tick,Tick -> poll, poll, poll, [Reset]");
    ctx.sample("v4;Tick,U,Tick x8 -> polls; 10th Tick -> [Reset]; reported missed polls 0..8");
    ctx.sample("v4;Tick,D,Tick,Tick,Tick -> [Demobilize]");
    ctx.sample("v4;Tick,D,Tick,U,Tick x9 -> [Reset] (usable answer clears the deny)");
    ctx.exhaustive(complete);
    ctx.finish();
}
