//! C11: not implemented yet.
