#[cfg(any(not(verif_select), verif_ga))]
#[path = "/verif/harness/ntp_proto/ga_probe_kalman_source.rs"]
pub(crate) mod ga;
