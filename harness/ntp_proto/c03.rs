//! C03 — the clock is only steered on a majority consensus of usable sources.
//!
//! Engine E-IN, two drivers over the same kind of input (a vector of source estimates +
//! `minimum-agreeing-sources`):
//!
//! (d) **direct**: the real `select` (+ `combine`) is called through the kalman probe on
//!     every vector of n snapshots over a 17-symbol per-source alphabet (exact dyadic
//!     offsets / radii so that *touching* intervals are exact ties; radius exactly at and
//!     just above the uncertainty limit; unsynchronised; periodic), every
//!     `minimum_agreeing_sources` in 1..=4 and three different realisations of the same
//!     radius through (statistical weight, delay weight, uncertainty, delay).
//!     All orders are covered because all vectors (not multisets) are enumerated.
//!
//! (e) **end to end**: a fresh `KalmanClockController` over a recording clock;
//!     `add_source`/`add_one_way_source` per source, one real measurement through the real
//!     source controller (first-sample snapshots: offset and delay are exactly the chosen
//!     whole seconds), `source_update` with the usable flag, then one `source_message`
//!     that makes the controller decide on the complete table. Observed: `step_clock` /
//!     `set_frequency` calls, `used_sources`, the message sent back to the sources.
//!
//! Oracle (from the statement, integer arithmetic, brute force over interval end points):
//!   eligible  = usable ∧ synchronised ∧ non-periodic ∧ radius <= limit
//!   M_closed  = max number of eligible closed intervals [o-r, o+r] sharing a point
//!   M_open    = the same for open intervals (lower bound on exact ties)
//!   steered / selection non-empty  =>  M_closed >= min ∧ 2*M_closed > |eligible|
//!   every selected / used source is usable, synchronised, radius <= limit
//!   the non-periodic selected sources (the voters whose estimate is used) contain an
//!   agreeing set that is >= min and a strict majority of the eligible ones; when no two
//!   eligible intervals touch they all share the point (separate class, derived).
//! The converse (consensus => steered) is a coverage statistic only.
use std::sync::{Arc, Mutex};

use super::common::{self, Ctx};
use crate::{
    ClockId,
    algorithm::{
        AlgorithmConfig, InternalMeasurement, InternalSourceController, InternalStateUpdate,
        InternalTimeSyncController, KalmanClockController, KalmanControllerMessage,
        KalmanSourceMessage,
    },
    clock::NtpClock,
    config::{SourceConfig, SynchronizationConfig},
    packet::NtpLeapIndicator,
    time_types::{NtpDuration, NtpTimestamp},
};

pub(super) type Snap = (u64, f64, f64, f64, Option<f64>, NtpLeapIndicator);

// ---------------------------------------------------------------------------------
// shared rig (also used by c04): recording clock + helpers
// ---------------------------------------------------------------------------------

#[derive(Clone, Debug, PartialEq)]
pub(super) enum Call {
    Step(i64),
    Freq(f64),
    Status(NtpLeapIndicator),
    ErrEst,
    Disable,
}

#[derive(Clone)]
pub(super) struct RecClock {
    pub log: Arc<Mutex<Vec<Call>>>,
    pub now: NtpTimestamp,
}

impl RecClock {
    pub(super) fn new(now: NtpTimestamp) -> RecClock {
        RecClock {
            log: Arc::new(Mutex::new(Vec::new())),
            now,
        }
    }
    pub(super) fn take(&self) -> Vec<Call> {
        std::mem::take(&mut *self.log.lock().unwrap())
    }
}

/// raw 2^-32 s units of a duration (through public arithmetic only)
pub(super) fn raw(d: NtpDuration) -> i64 {
    i64::from_be_bytes((NtpTimestamp::default() + d).to_bits())
}

/// A duration of exactly `s` whole seconds *as seen by `to_seconds`* (which divides by
/// 2^32 - 1): raw = s * (2^32 - 1) converts back to exactly `s as f64`.
pub(super) fn whole_seconds(s: i64) -> NtpDuration {
    NtpDuration::from_fixed_int(s * 0xFFFF_FFFF)
}

impl NtpClock for RecClock {
    type Error = std::io::Error;
    fn now(&self) -> Result<NtpTimestamp, Self::Error> {
        Ok(self.now)
    }
    fn set_frequency(&self, freq: f64) -> Result<NtpTimestamp, Self::Error> {
        self.log.lock().unwrap().push(Call::Freq(freq));
        Ok(self.now)
    }
    fn get_frequency(&self) -> Result<f64, Self::Error> {
        Ok(0.0)
    }
    fn step_clock(&self, offset: NtpDuration) -> Result<NtpTimestamp, Self::Error> {
        self.log.lock().unwrap().push(Call::Step(raw(offset)));
        Ok(self.now)
    }
    fn disable_ntp_algorithm(&self) -> Result<(), Self::Error> {
        self.log.lock().unwrap().push(Call::Disable);
        Ok(())
    }
    fn error_estimate_update(&self, _e: NtpDuration, _m: NtpDuration) -> Result<(), Self::Error> {
        self.log.lock().unwrap().push(Call::ErrEst);
        Ok(())
    }
    fn status_update(&self, leap: NtpLeapIndicator) -> Result<(), Self::Error> {
        self.log.lock().unwrap().push(Call::Status(leap));
        Ok(())
    }
}

pub(super) type Ctl = KalmanClockController<RecClock>;
pub(super) type TwoWay = <Ctl as InternalTimeSyncController>::NtpSourceController;
pub(super) type OneWay = <Ctl as InternalTimeSyncController>::OneWaySourceController;

/// fixed local time of every measurement (all filters stay at the same time)
pub(super) fn t0() -> NtpTimestamp {
    NtpTimestamp::from_fixed_int(0x1000_0000_0000_0000)
}

/// One real measurement through a fresh real two-way source controller.
pub(super) fn two_way_message(
    ctl: &mut Ctl,
    id: u64,
    offset_s: i64,
    delay_s: i64,
    leap: NtpLeapIndicator,
) -> (TwoWay, Option<KalmanSourceMessage>) {
    let mut src = ctl.add_source(ClockId(id), SourceConfig::default());
    let m = src.handle_measurement(InternalMeasurement {
        delay: whole_seconds(delay_s),
        offset: whole_seconds(offset_s),
        localtime: t0(),
        root_delay: NtpDuration::ZERO,
        root_dispersion: NtpDuration::ZERO,
        leap,
        precision: 0,
    });
    (src, m)
}

/// One real measurement through a fresh real one-way (periodic) source controller.
pub(super) fn one_way_message(
    ctl: &mut Ctl,
    id: u64,
    offset_s: i64,
    period: Option<f64>,
    leap: NtpLeapIndicator,
) -> (OneWay, Option<KalmanSourceMessage>) {
    let mut src = ctl.add_one_way_source(ClockId(id), SourceConfig::default(), 1e-6, 0.0, period);
    let m = src.handle_measurement(InternalMeasurement {
        delay: (),
        offset: whole_seconds(offset_s),
        localtime: t0(),
        root_delay: NtpDuration::ZERO,
        root_dispersion: NtpDuration::ZERO,
        leap,
        precision: 0,
    });
    (src, m)
}

pub(super) fn steering_calls(log: &[Call]) -> usize {
    log.iter()
        .filter(|c| matches!(c, Call::Step(_) | Call::Freq(_)))
        .count()
}

// ---------------------------------------------------------------------------------
// reference oracle
// ---------------------------------------------------------------------------------

/// Max number of closed / open intervals sharing a point (brute force over end points
/// and, for open intervals, over the mid points between consecutive end points).
pub(super) fn max_overlap(ivs: &[(i64, i64)]) -> (usize, usize) {
    if ivs.is_empty() {
        return (0, 0);
    }
    let mut pts: Vec<i64> = Vec::with_capacity(ivs.len() * 2);
    for (lo, hi) in ivs {
        pts.push(2 * lo);
        pts.push(2 * hi);
    }
    pts.sort_unstable();
    pts.dedup();
    let mut closed = 0;
    for p in &pts {
        let c = ivs
            .iter()
            .filter(|(lo, hi)| 2 * lo <= *p && *p <= 2 * hi)
            .count();
        closed = closed.max(c);
    }
    let mut open = 0;
    for w in pts.windows(2) {
        let mid = (w[0] + w[1]) / 2; // doubled coordinates: always an integer strictly between
        let c = ivs
            .iter()
            .filter(|(lo, hi)| 2 * lo < mid && mid < 2 * hi)
            .count();
        open = open.max(c);
    }
    (closed, open)
}

#[derive(Clone, Copy, PartialEq, Eq, Hash, Debug)]
enum Kind {
    Normal,
    Unsync,
    Periodic,
}

/// A per-source estimate in integer units (1/1024 s direct, 1 s end to end).
#[derive(Clone, Copy, Debug, PartialEq, Eq, Hash)]
struct Sym {
    off: i64,
    rad: i64,
    kind: Kind,
    usable: bool,
}

struct Verdict {
    eligible: usize,
    m_closed: usize,
    m_open: usize,
    tie: bool,
    /// some pair of eligible intervals touches in exactly one point
    touching: bool,
    cond_closed: bool,
    cond_open: bool,
}

fn reference(syms: &[Sym], limit: i64, min: usize) -> Verdict {
    let ivs: Vec<(i64, i64)> = syms
        .iter()
        .filter(|s| s.usable && s.kind == Kind::Normal && s.rad <= limit)
        .map(|s| (s.off - s.rad, s.off + s.rad))
        .collect();
    let (m_closed, m_open) = max_overlap(&ivs);
    let e = ivs.len();
    Verdict {
        eligible: e,
        m_closed,
        m_open,
        tie: m_closed != m_open,
        touching: ivs.iter().any(|a| ivs.iter().any(|b| a.1 == b.0)),
        cond_closed: m_closed >= min && 2 * m_closed > e,
        cond_open: m_open >= min && 2 * m_open > e,
    }
}

/// Checks shared by both drivers. `selected` = bit mask over positions of the sources the
/// implementation selected / used; `acted` = it selected something / touched the clock.
/// Returns violation (class, text) list.
fn judge(
    syms: &[Sym],
    limit: i64,
    min: usize,
    v: &Verdict,
    acted: bool,
    selected: u32,
    non_clique_on_tie: &mut u64,
) -> Vec<(&'static str, String)> {
    let mut out = Vec::new();
    if acted && !v.cond_closed {
        out.push((
            "C03:steer-without-consensus",
            format!(
                "acted with eligible={} max-agreeing(closed)={} min={min}",
                v.eligible, v.m_closed
            ),
        ));
    }
    let mut voters: Vec<(i64, i64)> = Vec::new();
    for (i, s) in syms.iter().enumerate() {
        if selected & (1 << i) == 0 {
            continue;
        }
        if !s.usable || s.kind == Kind::Unsync || s.rad > limit {
            out.push((
                "C03:ineligible-used",
                format!(
                    "source #{i} (usable={}, {:?}, radius {} limit {limit}) is part of the estimate",
                    s.usable, s.kind, s.rad
                ),
            ));
        } else if s.kind == Kind::Normal {
            voters.push((s.off - s.rad, s.off + s.rad));
        }
    }
    if selected != 0 {
        // The estimate must be built on the consensus: the selected non-periodic sources
        // contain an agreeing set that is >= min and a strict majority of the eligible ones.
        let (m_sel, _) = max_overlap(&voters);
        if m_sel < min || 2 * m_sel <= v.eligible {
            out.push((
                "C03:selection-lacks-consensus",
                format!(
                    "only {m_sel} of the {} selected non-periodic sources agree (eligible={}, min={min})",
                    voters.len(),
                    v.eligible
                ),
            ));
        } else if m_sel != voters.len() && v.touching {
            *non_clique_on_tie += 1;
        } else if m_sel != voters.len() {
            // Derived requirement (reported under its own class): without exact ties a
            // source that does not share the common point is a falseticker and must not
            // be merged into the estimate. With touching intervals the implementation's
            // closed final filter may legitimately admit both neighbours of the common
            // interval, so nothing is demanded there.
            out.push((
                "C03:outlier-in-selection",
                format!(
                    "{} selected non-periodic sources but only {m_sel} of them share a point and no intervals touch",
                    voters.len()
                ),
            ));
        }
    }
    out
}

// ---------------------------------------------------------------------------------
// (d) direct driver
// ---------------------------------------------------------------------------------

const D_LIMIT: i64 = 32; // 32/1024 s

fn d_syms() -> Vec<Sym> {
    let mut v = Vec::new();
    for off in [0, 16, 32, 48] {
        for rad in [8, 16, 24] {
            v.push(Sym {
                off,
                rad,
                kind: Kind::Normal,
                usable: true,
            });
        }
    }
    v.push(Sym {
        off: 16,
        rad: 32,
        kind: Kind::Normal,
        usable: true,
    }); // exactly at the limit
    v.push(Sym {
        off: 16,
        rad: 33,
        kind: Kind::Normal,
        usable: true,
    }); // too uncertain
    v.push(Sym {
        off: 16,
        rad: 8,
        kind: Kind::Unsync,
        usable: true,
    });
    v.push(Sym {
        off: 16,
        rad: 8,
        kind: Kind::Periodic,
        usable: true,
    });
    v.push(Sym {
        off: 48,
        rad: 8,
        kind: Kind::Periodic,
        usable: true,
    });
    v
}

const REALISATIONS: usize = 3;

fn d_algo(real: usize) -> AlgorithmConfig {
    let (ws, wd) = match real {
        0 => (2.0, 0.25), // the defaults
        1 => (1.0, 1.0),
        _ => (0.0, 1.0),
    };
    AlgorithmConfig {
        maximum_source_uncertainty: D_LIMIT as f64 / 1024.0,
        range_statistical_weight: ws,
        range_delay_weight: wd,
        ..AlgorithmConfig::default()
    }
}

fn d_snap(id: u64, s: &Sym, real: usize) -> Snap {
    let off = s.off as f64 / 1024.0;
    let r = s.rad as f64 / 1024.0;
    // radius = unc * ws + delay * wd, all exact in binary floating point
    let (unc, delay) = match real {
        0 => (r / 4.0, 2.0 * r),
        1 => (r / 2.0, r / 2.0),
        _ => (1.0 / 1024.0, r),
    };
    (
        id,
        off,
        unc,
        delay,
        if s.kind == Kind::Periodic {
            Some(1.0)
        } else {
            None
        },
        if s.kind == Kind::Unsync {
            NtpLeapIndicator::Unsynchronized
        } else {
            NtpLeapIndicator::NoWarning
        },
    )
}

#[derive(Default)]
struct Stats {
    evals: u64,
    acted: u64,
    idle_no_eligible: u64,
    idle_min: u64,
    idle_majority: u64,
    ties: u64,
    tie_acted: u64,
    tie_idle: u64,
    periodic_selected: u64,
    converse_ok: u64,
    converse_miss: u64,
    step: u64,
    slew: u64,
    calls: u64,
    non_clique_on_tie: u64,
}

impl Stats {
    fn note(&mut self, v: &Verdict, min: usize, acted: bool) {
        self.evals += 1;
        if acted {
            self.acted += 1;
        } else if v.eligible == 0 {
            self.idle_no_eligible += 1;
        } else if v.m_closed < min {
            self.idle_min += 1;
        } else {
            self.idle_majority += 1;
        }
        if v.tie {
            self.ties += 1;
            if v.cond_closed != v.cond_open {
                if acted {
                    self.tie_acted += 1;
                } else {
                    self.tie_idle += 1;
                }
            }
        }
        if v.cond_open {
            if acted {
                self.converse_ok += 1;
            } else {
                self.converse_miss += 1;
            }
        }
    }
    fn flush(&self, ctx: &Ctx, p: &str) {
        ctx.add("evaluations", self.evals);
        ctx.add(&format!("{p}_cases"), self.evals);
        ctx.add(&format!("{p}_acted"), self.acted);
        ctx.add(
            &format!("{p}_idle_no_eligible_source"),
            self.idle_no_eligible,
        );
        ctx.add(&format!("{p}_idle_below_minimum"), self.idle_min);
        ctx.add(&format!("{p}_idle_no_strict_majority"), self.idle_majority);
        ctx.add(&format!("{p}_exact_tie_cases"), self.ties);
        ctx.add(&format!("{p}_decisive_tie_counted_closed"), self.tie_acted);
        ctx.add(&format!("{p}_decisive_tie_counted_open"), self.tie_idle);
        ctx.add(
            &format!("{p}_periodic_source_in_selection"),
            self.periodic_selected,
        );
        ctx.add(
            &format!("{p}_touching_neighbours_both_selected"),
            self.non_clique_on_tie,
        );
        ctx.add(
            &format!("{p}_converse_consensus_and_acted"),
            self.converse_ok,
        );
        ctx.add(
            &format!("{p}_converse_consensus_but_idle"),
            self.converse_miss,
        );
        if self.step + self.slew > 0 {
            ctx.add(&format!("{p}_step_clock"), self.step);
            ctx.add(&format!("{p}_slew_or_freq_only"), self.slew);
        }
        ctx.add("impl_calls", self.calls);
    }
}

fn d_case(
    word: &[usize],
    syms: &[Sym],
    real: usize,
    min: usize,
    nc: &mut u64,
) -> (Verdict, Result<u32, String>, Vec<(&'static str, String)>) {
    let vec: Vec<Sym> = word.iter().map(|&i| syms[i]).collect();
    let v = reference(&vec, D_LIMIT, min);
    let snaps: Vec<Snap> = vec
        .iter()
        .enumerate()
        .map(|(i, s)| d_snap(i as u64, s, real))
        .collect();
    let algo = d_algo(real);
    let got = common::catch(|| algo.verif_gb_select_mask(min, &snaps));
    let viol = match &got {
        Ok(mask) => judge(&vec, D_LIMIT, min, &v, *mask != 0, *mask, nc),
        Err(e) => vec![("C03:select-panic", format!("select panicked: {e}"))],
    };
    (v, got, viol)
}

fn d_trace(word: &[usize], real: usize, min: usize) -> String {
    format!(
        "d;real={real};min={min};syms={}",
        word.iter()
            .map(|x| x.to_string())
            .collect::<Vec<_>>()
            .join(",")
    )
}

fn run_direct(ctx: &Ctx, n: usize, reals: &[usize], mins: &[usize]) {
    let syms = d_syms();
    let k = syms.len();
    let total = common::pow(k, n);
    const CH: u64 = 2048;
    let chunks = total.div_ceil(CH);
    common::par_for(chunks, 1, |c| {
        let mut st = Stats::default();
        let mut distinct: Vec<u64> = Vec::new();
        for x in c * CH..((c + 1) * CH).min(total) {
            let word = common::word_of(x, k, n);
            let mut sorted = word.clone();
            sorted.sort_unstable();
            for &real in reals {
                for &min in mins {
                    let (v, got, viol) = d_case(&word, &syms, real, min, &mut st.non_clique_on_tie);
                    st.calls += 1;
                    let mask = got.unwrap_or(0);
                    st.note(&v, min, mask != 0);
                    if word
                        .iter()
                        .enumerate()
                        .any(|(i, &s)| mask & (1 << i) != 0 && syms[s].kind == Kind::Periodic)
                    {
                        st.periodic_selected += 1;
                    }
                    if v.eligible >= 2 {
                        distinct.push(common::hash_of(&("d", &sorted, real, min)));
                    }
                    for (class, what) in viol {
                        ctx.violation(
                            class,
                            format!("direct n={n}: {what}"),
                            d_trace(&word, real, min),
                        );
                    }
                    if x % 100_003 == 17 && real == 0 && min == 2 {
                        ctx.sample(format!(
                            "direct {} -> selected mask {:#b} (eligible {}, agreeing closed/open {}/{})",
                            d_trace(&word, real, min), mask, v.eligible, v.m_closed, v.m_open
                        ));
                    }
                }
            }
        }
        distinct.sort_unstable();
        distinct.dedup();
        ctx.distinct_many(distinct);
        st.flush(ctx, "direct");
    });
}

// ---------------------------------------------------------------------------------
// (e) end-to-end driver
// ---------------------------------------------------------------------------------

const E_LIMIT: i64 = 4; // seconds

/// 9 kinds x usable flag = 18 symbols; index = kind * 2 + usable
fn e_syms() -> Vec<Sym> {
    let mut kinds = Vec::new();
    for off in [10, 12, 14] {
        for rad in [1, 2] {
            kinds.push(Sym {
                off,
                rad,
                kind: Kind::Normal,
                usable: true,
            });
        }
    }
    kinds.push(Sym {
        off: 12,
        rad: 5,
        kind: Kind::Normal,
        usable: true,
    }); // too uncertain
    kinds.push(Sym {
        off: 12,
        rad: 1,
        kind: Kind::Unsync,
        usable: true,
    });
    kinds.push(Sym {
        off: 12,
        rad: 1,
        kind: Kind::Periodic,
        usable: true,
    }); // one-way: radius is 1 s by construction
    let mut v = Vec::new();
    for k in kinds {
        v.push(Sym { usable: false, ..k });
        v.push(Sym { usable: true, ..k });
    }
    v
}

/// cfg 0: default step threshold (10 ms) -> the correction is a step;
/// cfg 1: step threshold 100 s -> the same correction becomes a slew (set_frequency).
fn e_algo(cfg: usize) -> AlgorithmConfig {
    AlgorithmConfig {
        maximum_source_uncertainty: E_LIMIT as f64,
        range_statistical_weight: 0.0,
        range_delay_weight: 1.0,
        step_threshold: if cfg == 1 {
            100.0
        } else {
            AlgorithmConfig::default().step_threshold
        },
        ..AlgorithmConfig::default()
    }
}

#[derive(Debug, Clone, PartialEq)]
struct EObs {
    /// clock calls while every source was still flagged unusable
    early_steer: usize,
    early_used: bool,
    /// clock calls of the deciding update
    log: Vec<Call>,
    used: Option<Vec<u64>>,
    source_message: bool,
}

fn e_run(vec: &[Sym], cfg: usize, min: usize, trigger: usize) -> EObs {
    let clock = RecClock::new(t0());
    let sync = SynchronizationConfig {
        minimum_agreeing_sources: min,
        ..SynchronizationConfig::default()
    };
    let mut ctl = Ctl::new(clock.clone(), sync, e_algo(cfg)).expect("controller");
    let mut msgs: Vec<KalmanSourceMessage> = Vec::new();
    let mut keep_two: Vec<TwoWay> = Vec::new();
    let mut keep_one: Vec<OneWay> = Vec::new();
    for (i, s) in vec.iter().enumerate() {
        let leap = if s.kind == Kind::Unsync {
            NtpLeapIndicator::Unsynchronized
        } else {
            NtpLeapIndicator::NoWarning
        };
        let m = if s.kind == Kind::Periodic {
            let (src, m) = one_way_message(&mut ctl, i as u64, s.off, Some(100.0), leap);
            keep_one.push(src);
            m
        } else {
            let (src, m) = two_way_message(&mut ctl, i as u64, s.off, s.rad, leap);
            keep_two.push(src);
            m
        };
        let m = m.expect("first measurement yields a snapshot");
        // machinery self-check: the snapshot carries exactly the chosen numbers
        let sn = m.verif_gb_snap();
        assert_eq!(sn.1, s.off as f64, "harness: offset not exact");
        assert_eq!(sn.3, s.rad as f64, "harness: delay not exact");
        assert_eq!(sn.4.is_some(), s.kind == Kind::Periodic);
        msgs.push(m);
    }
    // phase A: everything is (explicitly) unusable while the table fills
    let mut early_used = false;
    for i in 0..vec.len() {
        ctl.source_update(ClockId(i as u64), false);
    }
    for (i, m) in msgs.iter().enumerate() {
        let u = ctl.source_message(ClockId(i as u64), *m);
        early_used |= u.used_sources.is_some() || u.source_message.is_some();
    }
    let early = clock.take();
    // phase B: the usable flags of the case
    for (i, s) in vec.iter().enumerate() {
        ctl.source_update(ClockId(i as u64), s.usable);
    }
    // phase C: one update on the complete table
    let u = ctl.source_message(ClockId(trigger as u64), msgs[trigger]);
    let log = clock.take();
    EObs {
        early_steer: early.iter().filter(|c| !matches!(c, Call::Disable)).count(),
        early_used,
        log,
        used: u.used_sources.map(|v| {
            let mut v: Vec<u64> = v.iter().map(|c| c.0).collect();
            v.sort_unstable();
            v
        }),
        source_message: u.source_message.is_some(),
    }
}

fn e_judge(
    vec: &[Sym],
    min: usize,
    v: &Verdict,
    o: &EObs,
    nc: &mut u64,
) -> Vec<(&'static str, String)> {
    let mut out = Vec::new();
    if o.early_steer > 0 || o.early_used {
        out.push((
            "C03:ineligible-used",
            format!(
                "clock touched ({} calls) while every source was flagged unusable",
                o.early_steer
            ),
        ));
    }
    let steer = steering_calls(&o.log);
    let acted = steer > 0 || o.used.is_some() || o.source_message;
    let mut mask = 0u32;
    for id in o.used.iter().flatten() {
        mask |= 1 << (*id as u32);
    }
    let mut j = judge(vec, E_LIMIT, min, v, acted, mask, nc);
    if steer > 0 && o.used.is_none() {
        j.push((
            "C03:steer-without-consensus",
            "clock steered without a reported set of used sources".to_string(),
        ));
    }
    out.extend(j);
    out
}

fn e_trace(word: &[usize], cfg: usize, min: usize, trigger: usize) -> String {
    format!(
        "e;cfg={cfg};min={min};trig={trigger};syms={}",
        word.iter()
            .map(|x| x.to_string())
            .collect::<Vec<_>>()
            .join(",")
    )
}

fn run_e2e(ctx: &Ctx, n: usize, mins: &[usize]) {
    let syms = e_syms();
    let k = syms.len();
    let total = common::pow(k, n);
    const CH: u64 = 256;
    let chunks = total.div_ceil(CH);
    common::par_for(chunks, 1, |c| {
        super::block_on_paused(async {
            let mut st = Stats::default();
            let mut distinct: Vec<u64> = Vec::new();
            for x in c * CH..((c + 1) * CH).min(total) {
                let word = common::word_of(x, k, n);
                let vec: Vec<Sym> = word.iter().map(|&i| syms[i]).collect();
                let mut sorted = word.clone();
                sorted.sort_unstable();
                for &min in mins {
                    let v = reference(&vec, E_LIMIT, min);
                    for tc in 0..2 * n {
                        let (trigger, cfg) = (tc / 2, tc % 2);
                        let got = common::catch(|| e_run(&vec, cfg, min, trigger));
                        st.calls += 3 * n as u64 + 2;
                        match got {
                            Err(e) => ctx.violation(
                                "C03:controller-panic",
                                format!("controller panicked (daemon would abort): {e}"),
                                e_trace(&word, cfg, min, trigger),
                            ),
                            Ok(o) => {
                                let steer = steering_calls(&o.log);
                                let acted = steer > 0 || o.used.is_some();
                                st.note(&v, min, acted);
                                if o.log.iter().any(|c| matches!(c, Call::Step(_))) {
                                    st.step += 1;
                                } else if steer > 0 {
                                    st.slew += 1;
                                }
                                if o.used
                                    .iter()
                                    .flatten()
                                    .any(|id| vec[*id as usize].kind == Kind::Periodic)
                                {
                                    st.periodic_selected += 1;
                                }
                                for (class, what) in
                                    e_judge(&vec, min, &v, &o, &mut st.non_clique_on_tie)
                                {
                                    ctx.violation(
                                        class,
                                        format!("end-to-end n={n}: {what}"),
                                        e_trace(&word, cfg, min, trigger),
                                    );
                                }
                                if x % 20_011 == 5
                                    && min == 1
                                    && trigger == 0
                                    && cfg == (x as usize / 20_011) % 2
                                {
                                    ctx.sample(format!(
                                        "e2e {} -> used {:?}, clock calls {:?} (eligible {}, agreeing closed/open {}/{})",
                                        e_trace(&word, cfg, min, trigger), o.used, o.log, v.eligible, v.m_closed, v.m_open
                                    ));
                                }
                            }
                        }
                    }
                    if v.eligible >= 2 {
                        distinct.push(common::hash_of(&("e", &sorted, min)));
                    }
                }
            }
            distinct.sort_unstable();
            distinct.dedup();
            ctx.distinct_many(distinct);
            st.flush(ctx, "e2e");
        });
    });
}

// ---------------------------------------------------------------------------------
// replay
// ---------------------------------------------------------------------------------

fn field<'a>(parts: &'a [&'a str], key: &str) -> Option<&'a str> {
    parts
        .iter()
        .find_map(|p| p.strip_prefix(key).and_then(|r| r.strip_prefix('=')))
}

fn replay(ctx: &Ctx, trace: &str) -> String {
    let parts: Vec<&str> = trace.split(';').collect();
    let word: Vec<usize> = field(&parts, "syms")
        .unwrap_or("")
        .split(',')
        .filter_map(|s| s.parse().ok())
        .collect();
    let min: usize = field(&parts, "min")
        .and_then(|s| s.parse().ok())
        .unwrap_or(1);
    if parts[0] == "d" {
        let real: usize = field(&parts, "real")
            .and_then(|s| s.parse().ok())
            .unwrap_or(0);
        let syms = d_syms();
        if word.iter().any(|&i| i >= syms.len()) || word.len() > 16 {
            return "bad trace".to_string();
        }
        let (v, got, viol) = d_case(&word, &syms, real, min, &mut 0);
        for (class, what) in &viol {
            ctx.violation(class, what.clone(), trace);
        }
        format!(
            "selected={got:?} eligible={} closed={} open={} violations={:?}",
            v.eligible,
            v.m_closed,
            v.m_open,
            viol.iter().map(|x| x.0).collect::<Vec<_>>()
        )
    } else {
        let trigger: usize = field(&parts, "trig")
            .and_then(|s| s.parse().ok())
            .unwrap_or(0);
        let cfg: usize = field(&parts, "cfg")
            .and_then(|s| s.parse().ok())
            .unwrap_or(0);
        let syms = e_syms();
        if word.is_empty()
            || word.iter().any(|&i| i >= syms.len())
            || trigger >= word.len()
            || word.len() > 16
        {
            return "bad trace".to_string();
        }
        let vec: Vec<Sym> = word.iter().map(|&i| syms[i]).collect();
        let v = reference(&vec, E_LIMIT, min);
        let got =
            super::block_on_paused(async { common::catch(|| e_run(&vec, cfg, min, trigger)) });
        match got {
            Err(e) => {
                ctx.violation("C03:controller-panic", e.clone(), trace);
                format!("panic {e}")
            }
            Ok(o) => {
                let viol = e_judge(&vec, min, &v, &o, &mut 0);
                for (class, what) in &viol {
                    ctx.violation(class, what.clone(), trace);
                }
                // On an exact tie that decides the outcome the controller's HashMap order
                // legitimately picks open or closed counting: not part of the observation.
                let shown = if v.tie && v.cond_closed != v.cond_open {
                    "ambiguous-exact-tie".to_string()
                } else {
                    format!("used={:?} calls={:?}", o.used, o.log)
                };
                format!(
                    "{shown} eligible={} closed={} open={} violations={:?}",
                    v.eligible,
                    v.m_closed,
                    v.m_open,
                    viol.iter().map(|x| x.0).collect::<Vec<_>>()
                )
            }
        }
    }
}

#[test]
fn check() {
    let ctx = Ctx::new("C03");
    if let Some(t) = common::replay_trace() {
        let a = replay(&ctx, &t);
        let b = replay(&ctx, &t);
        common::report_replay("C03", &a, &b, ctx.violation_count() > 0);
        return;
    }
    ctx.rule(
        "(d) every vector of n source snapshots over 17 symbols {offset 0/16/32/48 x radius 8/16/24 (1/1024 s), radius == limit, \
         radius just above limit, unsynchronised, periodic x2} x minimum-agreeing 1..=4 through the real select(), radius realised \
         3 ways for n<=4 (quick) / n<=5 (thorough) and with the default weights for the largest n (quick 5, thorough 6); \
         (e) every vector of n<=4 (quick) / 5 (thorough) sources over 9 kinds x usable flag through a fresh KalmanClockController \
         (add_source/add_one_way_source, real first measurement, source_update, source_message) x minimum-agreeing 1..=3 x which \
         source's message triggers the decision x {correction is a step, correction is a slew}. Non-trivial & distinct = distinct multiset of estimates (x setting) with >= 2 eligible sources.",
    );
    ctx.assume("the confidence interval of a source is offset +- (uncertainty*statistical-weight + delay*delay-weight); 'acceptable uncertainty' is radius <= maximum-source-uncertainty (configuration semantics, not re-derived)");
    ctx.assume("on an exact tie (intervals touching in one point) both the closed and the open count are accepted");
    ctx.assume("end to end only first-sample snapshots are used (exact offset/delay); later filter states are covered by the direct driver's arbitrary snapshots");
    let mins4 = [1usize, 2, 3, 4];
    let all_real: Vec<usize> = (0..REALISATIONS).collect();
    let (d_full, d_top) = if ctx.quick() { (4, 5) } else { (5, 6) };
    for n in 1..=d_full {
        run_direct(&ctx, n, &all_real, &mins4);
    }
    ctx.set("direct_max_sources_all_realisations", d_full as u64);
    if ctx.over_budget() {
        ctx.cap_hit(&format!(
            "direct n={d_top} not started; n<={d_full} complete"
        ));
    } else {
        run_direct(&ctx, d_top, &[0], &mins4);
        ctx.set("direct_max_sources", d_top as u64);
    }
    let e_top = if ctx.quick() { 4 } else { 5 };
    let mut e_done = 0;
    for n in 1..=e_top {
        if ctx.over_budget() {
            ctx.cap_hit(&format!(
                "end-to-end n={n} not started; n<={e_done} complete"
            ));
            break;
        }
        run_e2e(&ctx, n, &[1, 2, 3]);
        e_done = n;
    }
    ctx.set("e2e_max_sources", e_done as u64);
    ctx.exhaustive(true);
    ctx.finish();
}
