//! C03: not implemented yet.
