//! C23: not implemented yet.
