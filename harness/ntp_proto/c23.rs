//! C23 — the NTP packet decoder is total (never panics, always returns) in the three key
//! contexts (no keys / client session cipher / server cookie key set).
//!
//! This file also holds the **shared byte-level datagram grammar** used by C23, C24 and C25
//! (`pub(super)` items, reached from the siblings as `super::c23::…`):
//!
//! * 48-byte v3/v4/v5 headers written field by field, with boundary values,
//! * extension fields framed by hand (`Field`): type, *declared* length and the bytes that
//!   physically follow are independent, so non-canonical / too short / not-multiple-of-4 /
//!   overlong lengths are expressible; all known field types + unknown ones,
//! * valid NTS authenticator fields, sealed at assembly time over harness-chosen plaintext
//!   and the bytes assembled so far as AAD. Deviation from DESIGN.md: not with
//!   `Cipher::encrypt` (it draws a random nonce from `thread_rng`, so byte values - and with
//!   them the enumeration counts - would differ between runs) but with the AES-SIV primitive
//!   the crate's ciphers wrap, same keys, same `[aad, nonce]` convention, harness-chosen
//!   nonces (16 and 13 bytes). `Env::new` cross-checks the convention against
//!   `Cipher::encrypt`/`decrypt` and the hand-made server cookies against
//!   `KeySet::decode_cookie`. C25 (whose counts do not depend on byte values) additionally
//!   uses authenticators sealed by `Cipher::encrypt` itself (`auth_crate`),
//! * raw MAC tails of 3/4/16/20/24/25/28 bytes,
//! * `sweep`: the base datagram, every truncation, every single-byte substitution from a
//!   small pattern set at every offset, and +-1/+-4 on every 16-bit length field,
//! * `Plan`: the staged, indexable enumeration of all field sequences up to a length over
//!   the alphabets (engine E-IN; threads only partition the index space).
//!
//! Oracle of C23 (from the statement): every call returns `Ok` or `Err`; a caught panic is a
//! violation. Termination: every planned call is counted when it returns
//! (`evaluations == planned`), a hang would stall the check itself.
use std::collections::{BTreeMap, HashSet};

use super::common::{self, Ctx};
use crate::keyset::{DecodedServerCookie, KeySet};
use crate::nts::AeadAlgorithm;
use crate::packet::v5::V5Error;
use crate::packet::{
    AesSivCmac256, AesSivCmac512, Cipher, NoCipher, NtpPacket, PacketParsingError,
};

// ---------------------------------------------------------------------------------------
// keys, ciphers, cookies
// ---------------------------------------------------------------------------------------

#[derive(Clone, Copy, PartialEq, Eq, Debug, Hash)]
pub(super) enum Alg {
    A256,
    A512,
}

#[derive(Clone, Copy, PartialEq, Eq, Debug, Hash)]
pub(super) enum Dir {
    C2S,
    S2C,
}

impl Alg {
    pub(super) fn aead(self) -> AeadAlgorithm {
        match self {
            Alg::A256 => AeadAlgorithm::AeadAesSivCmac256,
            Alg::A512 => AeadAlgorithm::AeadAesSivCmac512,
        }
    }
    pub(super) fn idx(self) -> usize {
        match self {
            Alg::A256 => 0,
            Alg::A512 => 1,
        }
    }
    pub(super) fn tag(self) -> &'static str {
        match self {
            Alg::A256 => "256",
            Alg::A512 => "512",
        }
    }
}

impl Dir {
    pub(super) fn idx(self) -> usize {
        match self {
            Dir::C2S => 0,
            Dir::S2C => 1,
        }
    }
}

/// Harness-chosen session keys (fixed, distinct per algorithm and direction).
pub(super) fn key_bytes(alg: Alg, dir: Dir) -> Vec<u8> {
    let n = match alg {
        Alg::A256 => 32,
        Alg::A512 => 64,
    };
    let base: u8 = match dir {
        Dir::S2C => 0x11,
        Dir::C2S => 0x83,
    };
    (0..n)
        .map(|i| base.wrapping_add((i as u8).wrapping_mul(3)))
        .collect()
}

pub(super) fn new_cipher(alg: Alg, dir: Dir) -> Box<dyn Cipher> {
    let k = key_bytes(alg, dir);
    match alg {
        Alg::A256 => Box::new(AesSivCmac256::try_from(&k[..]).expect("key size")),
        Alg::A512 => Box::new(AesSivCmac512::try_from(k).expect("key size")),
    }
}

/// Everything key related, built once and shared (read-only) by all worker threads.
pub(super) struct Env {
    pub keyset: KeySet,
    /// `[alg][dir]`
    pub ciphers: [[Box<dyn Cipher>; 2]; 2],
    /// server cookies (valid for the key set) carrying the session keys of `[alg]`
    pub cookies: [Vec<u8>; 2],
    /// failed start-up cross-checks of the harness's own sealing against the crate's
    /// `Cipher` / `KeySet` (empty on a sane tree)
    pub self_test: Vec<String>,
}

impl Env {
    pub(super) fn new() -> Env {
        let keyset = KeySet::new();
        let ciphers = [
            [
                new_cipher(Alg::A256, Dir::C2S),
                new_cipher(Alg::A256, Dir::S2C),
            ],
            [
                new_cipher(Alg::A512, Dir::C2S),
                new_cipher(Alg::A512, Dir::S2C),
            ],
        ];
        // Server cookies carrying our session keys. `KeySet::encode_cookie` draws a random
        // nonce, which would make the enumeration differ from run to run, so the cookie is
        // laid out by hand (key id 1 = primary 0 + id_offset 1 of `KeySet::new()`, ciphertext
        // length, 16-byte nonce, AES-SIV-CMAC-512 under the all-zero key of `KeySet::new()`
        // over `algorithm id || s2c key || c2s key`) and then CHECKED with the crate's own
        // `decode_cookie` (a mismatch lands in `self_test`, which every check reports).
        let self_test = std::cell::RefCell::new(Vec::<String>::new());
        let mk = |alg: Alg| -> Vec<u8> {
            use aes_siv::KeyInit;
            let mut pt = u16::from(alg.aead()).to_be_bytes().to_vec();
            pt.extend(key_bytes(alg, Dir::S2C));
            pt.extend(key_bytes(alg, Dir::C2S));
            let nonce = filler(16, 0xC1 + alg.idx() as u8);
            let ct = aes_siv::siv::Aes256Siv::new_from_slice(&[0u8; 64])
                .expect("key")
                .encrypt([&[][..], &nonce[..]], &pt)
                .expect("siv");
            let mut c = 1u32.to_be_bytes().to_vec();
            c.extend((ct.len() as u16).to_be_bytes());
            c.extend(&nonce);
            c.extend(&ct);
            match keyset.decode_cookie(&c) {
                Ok(back) => {
                    if back.s2c.key_bytes() != &key_bytes(alg, Dir::S2C)[..]
                        || back.c2s.key_bytes() != &key_bytes(alg, Dir::C2S)[..]
                        || back.algorithm != alg.aead()
                    {
                        self_test.borrow_mut().push(format!(
                            "hand-made cookie ({}) decodes to other keys",
                            alg.tag()
                        ));
                    }
                }
                Err(_) => self_test.borrow_mut().push(format!(
                    "hand-made cookie ({}) is rejected by KeySet::decode_cookie",
                    alg.tag()
                )),
            }
            // and the crate's own encoder produces a cookie of the same size
            let theirs = keyset.encode_cookie(&DecodedServerCookie {
                algorithm: alg.aead(),
                s2c: new_cipher(alg, Dir::S2C),
                c2s: new_cipher(alg, Dir::C2S),
            });
            if theirs.len() != c.len() {
                self_test.borrow_mut().push(format!(
                    "cookie length differs from KeySet::encode_cookie ({})",
                    alg.tag()
                ));
            }
            c
        };
        let cookies = [mk(Alg::A256), mk(Alg::A512)];
        // the crate's `Cipher::encrypt`/`decrypt` and the bare primitive follow the same convention
        for alg in [Alg::A256, Alg::A512] {
            for dir in [Dir::C2S, Dir::S2C] {
                let c = ciphers[alg.idx()][dir.idx()].as_ref();
                let (nonce, ct) = crate_encrypt(c, b"aad", b"plaintext!!!");
                if siv_encrypt(alg, dir, &nonce, b"aad", b"plaintext!!!") != ct {
                    self_test.borrow_mut().push(format!(
                        "Cipher::encrypt ({}) does not follow the AES-SIV [aad, nonce] convention",
                        alg.tag()
                    ));
                }
                let n13 = filler(13, 7);
                let sealed = siv_encrypt(alg, dir, &n13, b"aad", b"plaintext!!!");
                if c.decrypt(&n13, &sealed, b"aad").ok().as_deref() != Some(&b"plaintext!!!"[..]) {
                    self_test.borrow_mut().push(format!(
                        "Cipher::decrypt ({}) does not open an AES-SIV [aad, nonce] ciphertext",
                        alg.tag()
                    ));
                }
            }
        }
        let mut self_test = self_test.into_inner();
        self_test.sort();
        self_test.dedup();
        Env {
            keyset,
            ciphers,
            cookies,
            self_test,
        }
    }
    pub(super) fn cipher(&self, alg: Alg, dir: Dir) -> &dyn Cipher {
        self.ciphers[alg.idx()][dir.idx()].as_ref()
    }
}

/// nonce, ciphertext produced by the crate's own cipher (random 16 byte nonce)
fn crate_encrypt(c: &dyn Cipher, aad: &[u8], pt: &[u8]) -> (Vec<u8>, Vec<u8>) {
    let mut buf = vec![0u8; pt.len() + 64];
    buf[..pt.len()].copy_from_slice(pt);
    let r = c.encrypt(&mut buf, pt.len(), aad).expect("encrypt");
    (
        buf[..r.nonce_length].to_vec(),
        buf[r.nonce_length..r.nonce_length + r.ciphertext_length].to_vec(),
    )
}

/// AES-SIV with a harness-chosen nonce of any length (the crate's `encrypt` always draws a
/// random 16-byte nonce; its `decrypt` must accept any length). Same key, same
/// associated-data convention (`[aad, nonce]`) as the crate.
fn siv_encrypt(alg: Alg, dir: Dir, nonce: &[u8], aad: &[u8], pt: &[u8]) -> Vec<u8> {
    use aes_siv::KeyInit;
    use aes_siv::siv::{Aes128Siv, Aes256Siv};
    let k = key_bytes(alg, dir);
    match alg {
        Alg::A256 => Aes128Siv::new_from_slice(&k)
            .expect("key")
            .encrypt([aad, nonce], pt)
            .expect("siv"),
        Alg::A512 => Aes256Siv::new_from_slice(&k)
            .expect("key")
            .encrypt([aad, nonce], pt)
            .expect("siv"),
    }
}

// ---------------------------------------------------------------------------------------
// key contexts of the decoder
// ---------------------------------------------------------------------------------------

pub(super) enum KeyCtx<'a> {
    /// `&NoCipher`
    None,
    /// what `NtpSource::handle_incoming` passes: `&Option<&dyn Cipher>` holding the s2c key
    Client(&'a dyn Cipher),
    /// what `Server::handle` passes: the key set
    Server(&'a KeySet),
}

impl<'a> KeyCtx<'a> {
    pub(super) fn decode<'d>(
        &self,
        data: &'d [u8],
    ) -> Result<(NtpPacket<'d>, Option<DecodedServerCookie>), PacketParsingError<'d>> {
        match self {
            KeyCtx::None => NtpPacket::deserialize(data, &NoCipher),
            KeyCtx::Client(c) => {
                let provider: Option<&dyn Cipher> = Some(*c);
                NtpPacket::deserialize(data, &provider)
            }
            KeyCtx::Server(k) => NtpPacket::deserialize(data, *k),
        }
    }
}

pub(super) const OUTCOMES: [&str; 14] = [
    "ok_plain",
    "ok_authenticated",
    "ok_authenticated_with_cookie_keys",
    "err_decrypt_with_packet",
    "err_incorrect_length",
    "err_invalid_version",
    "err_malformed_nts_fields",
    "err_malformed_nonce",
    "err_malformed_cookie_placeholder",
    "err_v5_draft_id",
    "err_v5_timescale",
    "err_v5_mode",
    "err_v5_flags",
    "ok_cookie_keys_without_authenticated_fields",
];

pub(super) fn outcome_class(
    r: &Result<(NtpPacket<'_>, Option<DecodedServerCookie>), PacketParsingError<'_>>,
) -> usize {
    match r {
        Ok((p, cookie)) => {
            let (a, e, _, _) = crate::packet::verif_probe::gh::counts(p);
            match (a + e > 0, cookie.is_some()) {
                (false, false) => 0,
                (true, false) => 1,
                (true, true) => 2,
                (false, true) => 13,
            }
        }
        Err(PacketParsingError::DecryptError(_)) => 3,
        Err(PacketParsingError::IncorrectLength) => 4,
        Err(PacketParsingError::InvalidVersion(_)) => 5,
        Err(PacketParsingError::MalformedNtsExtensionFields) => 6,
        Err(PacketParsingError::MalformedNonce) => 7,
        Err(PacketParsingError::MalformedCookiePlaceholder) => 8,
        Err(PacketParsingError::V5(V5Error::InvalidDraftIdentification)) => 9,
        Err(PacketParsingError::V5(V5Error::MalformedTimescale)) => 10,
        Err(PacketParsingError::V5(V5Error::MalformedMode)) => 11,
        Err(PacketParsingError::V5(V5Error::InvalidFlags)) => 12,
    }
}

// ---------------------------------------------------------------------------------------
// headers
// ---------------------------------------------------------------------------------------

#[allow(clippy::too_many_arguments)]
pub(super) fn hdr_v34(
    vn: u8,
    li: u8,
    mode: u8,
    stratum: u8,
    poll: u8,
    precision: u8,
    root_delay: u32,
    root_disp: u32,
    refid: [u8; 4],
    ts: [u64; 4], // reference, origin, receive, transmit
) -> [u8; 48] {
    let mut h = [0u8; 48];
    h[0] = (li << 6) | ((vn & 7) << 3) | (mode & 7);
    h[1] = stratum;
    h[2] = poll;
    h[3] = precision;
    h[4..8].copy_from_slice(&root_delay.to_be_bytes());
    h[8..12].copy_from_slice(&root_disp.to_be_bytes());
    h[12..16].copy_from_slice(&refid);
    for (i, t) in ts.iter().enumerate() {
        h[16 + 8 * i..24 + 8 * i].copy_from_slice(&t.to_be_bytes());
    }
    h
}

#[allow(clippy::too_many_arguments)]
pub(super) fn hdr_v5(
    li: u8,
    mode: u8,
    stratum: u8,
    poll: u8,
    precision: u8,
    root_delay: u32,
    root_disp: u32,
    timescale: u8,
    era: u8,
    flags: [u8; 2],
    server_cookie: u64,
    client_cookie: u64,
    rx: u64,
    tx: u64,
) -> [u8; 48] {
    let mut h = [0u8; 48];
    h[0] = (li << 6) | (5 << 3) | (mode & 7);
    h[1] = stratum;
    h[2] = poll;
    h[3] = precision;
    h[4..8].copy_from_slice(&root_delay.to_be_bytes());
    h[8..12].copy_from_slice(&root_disp.to_be_bytes());
    h[12] = timescale;
    h[13] = era;
    h[14..16].copy_from_slice(&flags);
    h[16..24].copy_from_slice(&server_cookie.to_be_bytes());
    h[24..32].copy_from_slice(&client_cookie.to_be_bytes());
    h[32..40].copy_from_slice(&rx.to_be_bytes());
    h[40..48].copy_from_slice(&tx.to_be_bytes());
    h
}

const UPGRADE_TS: u64 = u64::from_be_bytes(*b"NTP5DRFT");

/// v3/v4 header table; the first two are the ones used for the deep sequences.
fn headers_v34(vn: u8) -> Vec<(String, [u8; 48])> {
    vec![
        (
            "client".into(),
            hdr_v34(
                vn,
                0,
                3,
                0,
                6,
                0xE8,
                0,
                0,
                [0; 4],
                [0, 0, 0, 0x0123_4567_89AB_CDEF],
            ),
        ),
        (
            "server-max".into(),
            hdr_v34(
                vn,
                3,
                4,
                255,
                0x80,
                0x7F,
                0xFFFF_FFFF,
                0x8000_0000,
                *b"RATE",
                [
                    UPGRADE_TS,
                    u64::MAX,
                    0x8000_0000_0000_0000,
                    0x7FFF_FFFF_FFFF_FFFF,
                ],
            ),
        ),
        (
            "mode0".into(),
            hdr_v34(
                vn,
                1,
                0,
                1,
                0x7F,
                0x80,
                1,
                0x0001_0000,
                [127, 0, 0, 1],
                [1, 2, 3, 4],
            ),
        ),
        (
            "mode7".into(),
            hdr_v34(
                vn,
                2,
                7,
                16,
                0xFF,
                0xFF,
                0x7FFF_FFFF,
                0xFFFF_0000,
                *b"DENY",
                [u64::MAX; 4],
            ),
        ),
        (
            "kiss-ntsn".into(),
            hdr_v34(
                vn,
                3,
                4,
                0,
                4,
                0,
                0,
                0,
                *b"NTSN",
                [0, 0x0123_4567_89AB_CDEF, 0, 0],
            ),
        ),
        (
            "bcast".into(),
            hdr_v34(
                vn,
                0,
                5,
                2,
                10,
                0xEC,
                0x0000_0100,
                0x0000_0200,
                *b"GPS\0",
                [5, 6, 7, 8],
            ),
        ),
    ]
}

/// v5 header table; the first `V5_VALID` ones are accepted by the header decoder.
const V5_VALID: usize = 4;
fn headers_v5() -> Vec<(String, [u8; 48])> {
    vec![
        (
            "request".into(),
            hdr_v5(
                0,
                3,
                0,
                6,
                0,
                0,
                0,
                0,
                0,
                [0, 0],
                0,
                0x0123_4567_89AB_CDEF,
                0,
                0,
            ),
        ),
        (
            "response-max".into(),
            hdr_v5(
                3,
                4,
                16,
                0x7F,
                0x80,
                0xFFFF_FFFF,
                0x8000_0000,
                3,
                255,
                [0, 7],
                u64::MAX,
                u64::MAX,
                0x8000_0000_0000_0000,
                0x7FFF_FFFF_FFFF_FFFF,
            ),
        ),
        (
            "sync-li3".into(),
            hdr_v5(
                3,
                4,
                1,
                0x80,
                0xFF,
                1,
                0x1000_0000,
                1,
                1,
                [0, 1],
                1,
                2,
                3,
                4,
            ),
        ),
        (
            "unsync-li1".into(),
            hdr_v5(
                1,
                3,
                2,
                0xFF,
                0x7F,
                0x7FFF_FFFF,
                0xFFFF_FFF0,
                2,
                128,
                [0, 6],
                9,
                8,
                7,
                6,
            ),
        ),
        (
            "bad-timescale".into(),
            hdr_v5(0, 3, 0, 6, 0, 0, 0, 4, 0, [0, 0], 0, 1, 0, 0),
        ),
        (
            "bad-flags-lo".into(),
            hdr_v5(0, 3, 0, 6, 0, 0, 0, 0, 0, [0, 8], 0, 1, 0, 0),
        ),
        (
            "bad-flags-hi".into(),
            hdr_v5(0, 3, 0, 6, 0, 0, 0, 0, 0, [1, 0], 0, 1, 0, 0),
        ),
        (
            "bad-mode0".into(),
            hdr_v5(0, 0, 0, 6, 0, 0, 0, 0, 0, [0, 0], 0, 1, 0, 0),
        ),
        (
            "bad-mode7".into(),
            hdr_v5(0, 7, 0, 6, 0, 0, 0, 0xFF, 0, [0xFF, 0xFF], 0, 1, 0, 0),
        ),
    ]
}

// ---------------------------------------------------------------------------------------
// extension fields
// ---------------------------------------------------------------------------------------

pub(super) const T_UID: u16 = 0x0104;
pub(super) const T_COOKIE: u16 = 0x0204;
pub(super) const T_PLACEHOLDER: u16 = 0x0304;
pub(super) const T_AUTH: u16 = 0x0404;
pub(super) const T_DRAFT: u16 = 0xF5FF;
pub(super) const T_PADDING: u16 = 0xF501;
pub(super) const T_REFID_REQ: u16 = 0xF503;
pub(super) const T_REFID_RESP: u16 = 0xF504;
pub(super) const DRAFT: &str = "draft-ietf-ntp-ntpv5-09";

#[derive(Clone, Debug)]
pub(super) struct AuthSpec {
    pub alg: Alg,
    pub dir: Dir,
    /// plaintext that gets encrypted (normally a sequence of framed fields)
    pub plaintext: Vec<u8>,
    /// `Some`: harness-chosen nonce (any length; padded to a word boundary inside the
    /// field), sealed with the bare AES-SIV primitive - deterministic, used by C23/C24;
    /// `None`: sealed by the crate's `Cipher::encrypt` (random 16-byte nonce) - used by C25
    pub nonce: Option<Vec<u8>>,
    /// value of the nonce / ciphertext padding bytes
    pub pad_fill: u8,
    /// extra bytes inside the field after the (padded) ciphertext
    pub tail: Vec<u8>,
}

#[derive(Clone, Debug)]
pub(super) enum FieldKind {
    /// `ty`, declared `len`, and the bytes that physically follow the 4-byte field header
    Raw { ty: u16, len: u16, body: Vec<u8> },
    /// a *valid* NTS authenticator-and-encrypted-fields field over everything before it
    Auth(AuthSpec),
}

#[derive(Clone, Debug)]
pub(super) struct Field {
    pub name: String,
    pub kind: FieldKind,
    /// long fields (> 200 bytes) are kept out of the swept multi-field sequences of the
    /// quick tier, huge ones (> 2000 bytes) also out of those of the thorough tier
    pub long: bool,
    pub huge: bool,
    /// member of the reduced alphabet used for the deepest swept sequences
    pub core: bool,
}

impl Field {
    pub(super) fn core(mut self) -> Field {
        self.core = true;
        self
    }
}

/// deterministic non-zero filler bytes
pub(super) fn filler(n: usize, seed: u8) -> Vec<u8> {
    (0..n)
        .map(|i| (seed.wrapping_add((i as u8).wrapping_mul(7))) | 1)
        .collect()
}

pub(super) fn raw(name: &str, ty: u16, len: u16, body: Vec<u8>) -> Field {
    let long = body.len() > 200;
    let huge = body.len() > 2000;
    Field {
        name: name.to_string(),
        kind: FieldKind::Raw { ty, len, body },
        long,
        huge,
        core: false,
    }
}

/// canonical framing: declared length = 4 + data.len(), data zero padded to a word
pub(super) fn ef(name: &str, ty: u16, data: &[u8]) -> Field {
    let mut body = data.to_vec();
    while body.len() % 4 != 0 {
        body.push(0);
    }
    raw(name, ty, (4 + data.len()) as u16, body)
}

/// 16-byte nonce derived from the field name (deterministic, different per field)
fn default_nonce(name: &str) -> Vec<u8> {
    let h = common::hash_of(&name);
    [h.to_be_bytes(), (!h).rotate_left(17).to_be_bytes()].concat()
}

pub(super) fn auth(name: &str, alg: Alg, dir: Dir, plaintext: Vec<u8>) -> Field {
    Field {
        name: name.to_string(),
        kind: FieldKind::Auth(AuthSpec {
            alg,
            dir,
            plaintext,
            nonce: Some(default_nonce(name)),
            pad_fill: 0,
            tail: vec![],
        }),
        long: false,
        huge: false,
        core: false,
    }
}

pub(super) fn auth_ext(
    name: &str,
    alg: Alg,
    dir: Dir,
    plaintext: Vec<u8>,
    nonce: Option<Vec<u8>>,
    pad_fill: u8,
    tail: Vec<u8>,
) -> Field {
    Field {
        name: name.to_string(),
        kind: FieldKind::Auth(AuthSpec {
            alg,
            dir,
            plaintext,
            nonce: Some(nonce.unwrap_or_else(|| default_nonce(name))),
            pad_fill,
            tail,
        }),
        long: false,
        huge: false,
        core: false,
    }
}

/// authenticator sealed by the crate's own `Cipher::encrypt` (random nonce)
pub(super) fn auth_crate(
    name: &str,
    alg: Alg,
    dir: Dir,
    plaintext: Vec<u8>,
    tail: Vec<u8>,
) -> Field {
    Field {
        name: name.to_string(),
        kind: FieldKind::Auth(AuthSpec {
            alg,
            dir,
            plaintext,
            nonce: None,
            pad_fill: 0,
            tail,
        }),
        long: false,
        huge: false,
        core: false,
    }
}

/// wire bytes of a sequence of raw fields (used for the plaintext of authenticators)
pub(super) fn encode_raw(fields: &[Field]) -> Vec<u8> {
    let mut out = Vec::new();
    for f in fields {
        match &f.kind {
            FieldKind::Raw { ty, len, body } => {
                out.extend_from_slice(&ty.to_be_bytes());
                out.extend_from_slice(&len.to_be_bytes());
                out.extend_from_slice(body);
            }
            FieldKind::Auth(_) => panic!("harness: nested valid authenticator not expressible"),
        }
    }
    out
}

#[derive(Clone, Copy, PartialEq, Eq, Debug, Hash)]
pub(super) enum Region {
    Header,
    /// a field before the first valid authenticator
    PreField,
    /// type, length, nonce length, ciphertext length of the authenticator (8 bytes)
    AuthLengths,
    Nonce,
    NoncePad,
    Ciphertext,
    /// ciphertext padding and extra bytes inside the authenticator field
    AuthTail,
    /// a field after the first valid authenticator (or any field if there is none)
    PostField,
    /// raw bytes after the last field
    Tail,
}

pub(super) struct Built {
    pub bytes: Vec<u8>,
    /// region of every byte
    pub region: Vec<Region>,
    /// offsets of 16-bit big-endian length fields (field length, nonce/ciphertext length,
    /// cookie ciphertext length)
    pub len_offsets: Vec<usize>,
}

fn pad4(n: usize) -> usize {
    (n + 3) & !3
}

pub(super) fn assemble(env: &Env, header: &[u8; 48], fields: &[&Field], tail: &[u8]) -> Built {
    let mut bytes = header.to_vec();
    let mut region = vec![Region::Header; 48];
    let mut len_offsets = Vec::new();
    let has_auth = fields.iter().any(|f| matches!(f.kind, FieldKind::Auth(_)));
    let mut auth_seen = false;
    for f in fields {
        let off = bytes.len();
        match &f.kind {
            FieldKind::Raw { ty, len, body } => {
                bytes.extend_from_slice(&ty.to_be_bytes());
                bytes.extend_from_slice(&len.to_be_bytes());
                bytes.extend_from_slice(body);
                let r = if has_auth && !auth_seen {
                    Region::PreField
                } else {
                    Region::PostField
                };
                region.resize(bytes.len(), r);
                len_offsets.push(off + 2);
                if *ty == T_AUTH && body.len() >= 4 {
                    len_offsets.push(off + 4);
                    len_offsets.push(off + 6);
                }
                if *ty == T_COOKIE && body.len() >= 6 {
                    len_offsets.push(off + 8);
                }
            }
            FieldKind::Auth(a) => {
                let (nonce, ct) = match &a.nonce {
                    None => crate_encrypt(env.cipher(a.alg, a.dir), &bytes, &a.plaintext),
                    Some(n) => (
                        n.clone(),
                        siv_encrypt(a.alg, a.dir, n, &bytes, &a.plaintext),
                    ),
                };
                let np = pad4(nonce.len());
                let cp = pad4(ct.len());
                let total = 8 + np + cp + a.tail.len();
                bytes.extend_from_slice(&T_AUTH.to_be_bytes());
                bytes.extend_from_slice(&(total as u16).to_be_bytes());
                bytes.extend_from_slice(&(nonce.len() as u16).to_be_bytes());
                bytes.extend_from_slice(&(ct.len() as u16).to_be_bytes());
                let first = !auth_seen;
                let tag = |r: Region| if first { r } else { Region::PostField };
                region.resize(bytes.len(), tag(Region::AuthLengths));
                bytes.extend_from_slice(&nonce);
                region.resize(bytes.len(), tag(Region::Nonce));
                bytes.resize(off + 8 + np, a.pad_fill);
                region.resize(bytes.len(), tag(Region::NoncePad));
                bytes.extend_from_slice(&ct);
                region.resize(bytes.len(), tag(Region::Ciphertext));
                bytes.resize(off + 8 + np + cp, a.pad_fill);
                bytes.extend_from_slice(&a.tail);
                region.resize(bytes.len(), tag(Region::AuthTail));
                len_offsets.push(off + 2);
                len_offsets.push(off + 4);
                len_offsets.push(off + 6);
                auth_seen = true;
            }
        }
    }
    bytes.extend_from_slice(tail);
    region.resize(bytes.len(), Region::Tail);
    Built {
        bytes,
        region,
        len_offsets,
    }
}

// ---------------------------------------------------------------------------------------
// mutation sweep
// ---------------------------------------------------------------------------------------

#[derive(Clone, Copy, Debug, PartialEq, Eq)]
pub(super) enum Pat {
    Set(u8),
    Xor(u8),
    Add(u8),
}

impl Pat {
    fn apply(self, b: u8) -> u8 {
        match self {
            Pat::Set(v) => v,
            Pat::Xor(v) => b ^ v,
            Pat::Add(v) => b.wrapping_add(v),
        }
    }
}

pub(super) fn patterns(quick: bool) -> Vec<Pat> {
    if quick {
        vec![
            Pat::Set(0x00),
            Pat::Set(0xFF),
            Pat::Xor(0x80),
            Pat::Xor(0x01),
        ]
    } else {
        vec![
            Pat::Set(0x00),
            Pat::Set(0xFF),
            Pat::Xor(0x80),
            Pat::Xor(0x01),
            Pat::Xor(0x04),
            Pat::Add(1),
            Pat::Set(0x04),
            Pat::Set(0x10),
        ]
    }
}

#[derive(Clone, Copy, Debug, PartialEq, Eq)]
pub(super) enum Mutation {
    None,
    /// keep the first k bytes
    Trunc(usize),
    /// byte at offset := value
    Sub(usize, u8),
    /// 16-bit length field at offset += delta (wrapping)
    Len(usize, i16),
}

/// The base, every truncation, every single-byte substitution (each pattern, each offset,
/// a pattern that leaves the byte unchanged is skipped) and +-1/+-4 on
/// every length field. `f` sees the mutated datagram; no allocation per mutant.
pub(super) fn sweep(b: &Built, pats: &[Pat], mut f: impl FnMut(&[u8], Mutation)) {
    let mut work = b.bytes.clone();
    let n = work.len();
    f(&work, Mutation::None);
    for k in 0..n {
        f(&work[..k], Mutation::Trunc(k));
    }
    for i in 0..n {
        let orig = work[i];
        for p in pats {
            let v = p.apply(orig);
            if v == orig {
                continue;
            }
            work[i] = v;
            f(&work, Mutation::Sub(i, v));
        }
        work[i] = orig;
    }
    for &o in &b.len_offsets {
        if o + 1 >= n {
            continue;
        }
        let orig = u16::from_be_bytes([work[o], work[o + 1]]);
        for d in [-4i16, -1, 1, 4] {
            let v = orig.wrapping_add(d as u16);
            work[o..o + 2].copy_from_slice(&v.to_be_bytes());
            f(&work, Mutation::Len(o, d));
        }
        work[o..o + 2].copy_from_slice(&orig.to_be_bytes());
    }
}

// ---------------------------------------------------------------------------------------
// alphabets
// ---------------------------------------------------------------------------------------

fn bad_auth_fields(v5: bool) -> Vec<Field> {
    let mut v = vec![
        // no room for the nonce / ciphertext length words
        raw("ax-len4", T_AUTH, 4, vec![]),
        // nonce length larger than the body
        raw(
            "ax-nonce-big",
            T_AUTH,
            24,
            [&[0, 64, 0, 0][..], &filler(16, 3)].concat(),
        ),
        // ciphertext length larger than the body
        raw(
            "ax-ct-big",
            T_AUTH,
            40,
            [&[0, 16, 0, 64][..], &filler(32, 5)].concat(),
        ),
        raw(
            "ax-ffff",
            T_AUTH,
            12,
            vec![0xFF, 0xFF, 0xFF, 0xFF, 1, 2, 3, 4],
        ),
        raw(
            "ax-nonce-fffd",
            T_AUTH,
            12,
            vec![0xFF, 0xFD, 0, 0, 1, 2, 3, 4],
        ),
        raw("ax-zero", T_AUTH, 8, vec![0, 0, 0, 0]),
        // well formed but not produced with any of our keys
        raw(
            "ax-garbage",
            T_AUTH,
            40,
            [&[0, 16, 0, 16][..], &filler(32, 9)].concat(),
        )
        .core(),
    ];
    if v5 {
        v.push(raw("ax-len6", T_AUTH, 6, vec![0, 16, 0, 0]));
        v.push(raw("ax-len9", T_AUTH, 9, vec![0, 1, 0, 0, 7, 0, 0, 0]));
    }
    v
}

fn valid_auth_fields(env: &Env, v5: bool) -> Vec<Field> {
    let ck = |alg: Alg| ef("ck", T_COOKIE, &env.cookies[alg.idx()]);
    let mut v = vec![
        auth("au-c2s256", Alg::A256, Dir::C2S, vec![]).core(),
        auth("au-c2s512", Alg::A512, Dir::C2S, vec![]),
        auth(
            "au-s2c256-ck",
            Alg::A256,
            Dir::S2C,
            encode_raw(&[ck(Alg::A256)]),
        )
        .core(),
        auth(
            "au-s2c512-2ck",
            Alg::A512,
            Dir::S2C,
            encode_raw(&[ck(Alg::A512), ck(Alg::A512)]),
        ),
        // decrypts, but the plaintext contains another encrypted field
        auth(
            "au-s2c256-nested",
            Alg::A256,
            Dir::S2C,
            encode_raw(&[raw("n", T_AUTH, 8, vec![0, 0, 0, 0])]),
        ),
        // decrypts, but the plaintext is badly framed / holds an invalid placeholder
        auth(
            "au-s2c256-badinner",
            Alg::A256,
            Dir::S2C,
            vec![0x01, 0x04, 0x00, 0x03],
        ),
        auth(
            "au-s2c256-inner-phnz",
            Alg::A256,
            Dir::S2C,
            encode_raw(&[raw("p", T_PLACEHOLDER, 8, vec![0, 0, 1, 0])]),
        ),
        auth("au-s2c256-stub", Alg::A256, Dir::S2C, vec![0x01, 0x04]),
        // extra bytes inside the field after the ciphertext; nonce needing padding
        auth_ext(
            "au-c2s256-tail4",
            Alg::A256,
            Dir::C2S,
            vec![],
            None,
            0,
            vec![0xAA, 0xBB, 0xCC, 0xDD],
        ),
        auth_ext(
            "au-s2c256-n13",
            Alg::A256,
            Dir::S2C,
            encode_raw(&[ef("u", T_UID, &filler(8, 1))]),
            Some(filler(13, 0x21)),
            0x5A,
            vec![],
        ),
    ];
    if v5 {
        v.push(auth(
            "au-s2c256-did",
            Alg::A256,
            Dir::S2C,
            encode_raw(&[ef("d", T_DRAFT, DRAFT.as_bytes())]),
        ));
        v.push(auth(
            "au-s2c256-rq6",
            Alg::A256,
            Dir::S2C,
            encode_raw(&[ef("r", T_REFID_REQ, &[0, 1])]),
        ));
    }
    v
}

pub(super) fn alphabet_v4(env: &Env) -> Vec<Field> {
    let mut v = vec![
        ef("uid32", T_UID, &filler(32, 0x41)).core(),
        raw("uid0", T_UID, 4, vec![]),
        ef("uid12", T_UID, &filler(12, 0x43)),
        ef("uid24", T_UID, &filler(24, 0x45)),
        ef("ck256", T_COOKIE, &env.cookies[0]).core(),
        ef("ck512", T_COOKIE, &env.cookies[1]),
        ef("ck20", T_COOKIE, &filler(20, 0x51)),
        // right key id (KeySet::new has id_offset 1), ciphertext length 2, garbage
        ef(
            "ck-id-ok",
            T_COOKIE,
            &[&[0, 0, 0, 1, 0, 2][..], &filler(18, 0x53)].concat(),
        ),
        // live key id, but shorter than id + length + nonce
        ef("ck-id-ok-short", T_COOKIE, &[0, 0, 0, 1, 0, 2, 7, 7]),
        ef(
            "ck-ctlen-big",
            T_COOKIE,
            &[&[0, 0, 0, 1, 0xFF, 0xFF][..], &filler(18, 0x55)].concat(),
        ),
        ef(
            "ck-badid",
            T_COOKIE,
            &[&[0, 0, 0, 0, 0, 2][..], &filler(18, 0x57)].concat(),
        ),
        ef("ph16", T_PLACEHOLDER, &[0; 16]).core(),
        ef("ph104", T_PLACEHOLDER, &[0; 104]),
        ef(
            "ph-nz",
            T_PLACEHOLDER,
            &[0, 0, 0, 0, 0, 0, 0, 9, 0, 0, 0, 0],
        ),
        raw("ph0", T_PLACEHOLDER, 4, vec![]),
        // NTPv5-only types: plain unknown fields in an NTPv4 packet
        ef("did", T_DRAFT, &[DRAFT.as_bytes(), &[0]].concat()),
        raw("pad4", T_PADDING, 4, vec![]),
        ef("rq8", T_REFID_REQ, &[0, 4, 0, 0]),
        ef("rs8", T_REFID_RESP, &filler(4, 0x61)),
        raw("u0000-4", 0x0000, 4, vec![]).core(),
        ef("uffff-16", 0xFFFF, &filler(12, 0x71)),
        ef("u24", 0xBEEF, &filler(20, 0x73)).core(),
        ef("u28", 0x0002, &filler(24, 0x75)),
        ef("u1000", 0x2222, &filler(996, 0x77)),
        ef("u4000", 0x3333, &filler(3996, 0x79)),
        // framing errors
        raw("l0", 0x0007, 0, vec![0, 0, 0, 0]),
        raw("l3", 0x0007, 3, vec![1, 2, 3, 4]),
        raw("l5", 0x0007, 5, vec![1, 2, 3, 4]),
        raw("l6", T_UID, 6, vec![1, 2, 3, 4]),
        raw("l7", T_COOKIE, 7, vec![1, 2, 3, 4]).core(),
        // declared length runs past the physical bytes (into whatever follows, if anything)
        raw("l-over", 0x0007, 0x0040, vec![1, 2, 3, 4]).core(),
        raw("lffff", 0x0007, 0xFFFF, vec![1, 2, 3, 4]),
        raw("lfffc", 0x0007, 0xFFFC, vec![1, 2, 3, 4]),
    ];
    v.extend(valid_auth_fields(env, false));
    v.extend(bad_auth_fields(false));
    v
}

pub(super) fn draft_field() -> Field {
    ef("did", T_DRAFT, DRAFT.as_bytes())
}

pub(super) fn alphabet_v5(env: &Env) -> Vec<Field> {
    let mut v = vec![
        draft_field().core(),
        ef("did-nul", T_DRAFT, &[DRAFT.as_bytes(), &[0]].concat()),
        ef("did-midnul", T_DRAFT, b"draft\0ietf"),
        ef("did-wrong", T_DRAFT, b"draft-ietf-ntp-ntpv5-08"),
        ef("did-hi", T_DRAFT, &[b'd', b'r', 0x80, b'f']),
        raw("did-empty", T_DRAFT, 4, vec![]),
        // correct id, but the padding byte the length calls for is not physically there
        raw("did-nopad", T_DRAFT, 27, DRAFT.as_bytes().to_vec()),
        ef("uid32", T_UID, &filler(32, 0x41)).core(),
        ef("uid1", T_UID, &[0x42]),
        raw("uid0", T_UID, 4, vec![]),
        ef("ck256", T_COOKIE, &env.cookies[0]).core(),
        ef("ck512", T_COOKIE, &env.cookies[1]),
        ef("ck21", T_COOKIE, &filler(21, 0x51)),
        ef(
            "ck-id-ok",
            T_COOKIE,
            &[&[0, 0, 0, 1, 0, 2][..], &filler(17, 0x53)].concat(),
        ),
        ef("ck-id-ok-short", T_COOKIE, &[0, 0, 0, 1, 0, 2, 7]),
        ef("ph16", T_PLACEHOLDER, &[0; 16]).core(),
        ef("ph7", T_PLACEHOLDER, &[0; 7]),
        ef("ph-nz", T_PLACEHOLDER, &[0, 0, 0, 0, 0, 0, 0, 9]),
        // zero body, non-zero padding byte (padding is not part of the value)
        raw("ph-padnz", T_PLACEHOLDER, 7, vec![0, 0, 0, 0xEE]),
        raw("pad4", T_PADDING, 4, vec![]),
        ef("pad8", T_PADDING, &[0; 4]),
        ef("pad-nz", T_PADDING, &[1, 2, 3]),
        // reference-id request: body 0 and 1 are too short; 2, 3, 5 are not word multiples
        raw("rq4", T_REFID_REQ, 4, vec![]),
        ef("rq5", T_REFID_REQ, &[7]),
        ef("rq6", T_REFID_REQ, &[0, 1]).core(),
        ef("rq7", T_REFID_REQ, &[0, 1, 0]),
        ef("rq8", T_REFID_REQ, &[0, 4, 0, 0]).core(),
        ef("rq9", T_REFID_REQ, &[0, 4, 0, 0, 0]),
        ef("rq12-nz", T_REFID_REQ, &[1, 0xFC, 9, 9, 9, 9, 9, 9]),
        ef("rq-off-ffff", T_REFID_REQ, &[0xFF, 0xFF, 0, 0]),
        ef("rq516", T_REFID_REQ, &[0; 512]),
        raw("rs4", T_REFID_RESP, 4, vec![]),
        ef("rs5", T_REFID_RESP, &[0x61]),
        ef("rs6", T_REFID_RESP, &[0x61, 0x62]),
        ef("rs7", T_REFID_RESP, &[0x61, 0x62, 0x63]).core(),
        ef("rs8", T_REFID_RESP, &filler(4, 0x61)),
        ef("rs516", T_REFID_RESP, &filler(512, 0x63)),
        raw("u0000-4", 0x0000, 4, vec![]),
        ef("uffff-7", 0xFFFF, &[1, 2, 3]).core(),
        ef("ubeef-16", 0xBEEF, &filler(12, 0x73)),
        ef("u1000", 0x2222, &filler(995, 0x77)),
        ef("u4000", 0x3333, &filler(3990, 0x79)),
        raw("l0", 0x0007, 0, vec![0, 0, 0, 0]),
        raw("l3", 0x0007, 3, vec![1, 2, 3, 4]),
        raw("l5-nopad", 0x0007, 5, vec![1]),
        raw("l-over", 0x0007, 0x0040, vec![1, 2, 3, 4]).core(),
        raw("lffff", 0x0007, 0xFFFF, vec![1, 2, 3, 4]),
    ];
    v.extend(valid_auth_fields(env, true));
    v.extend(bad_auth_fields(true));
    v
}

pub(super) fn mac_tails() -> Vec<Vec<u8>> {
    let mac = |n: usize| -> Vec<u8> {
        [&[0, 0, 0, 1][..], &filler(n.saturating_sub(4), 0xA1)].concat()[..n].to_vec()
    };
    vec![
        vec![],
        mac(4),
        mac(20),
        mac(24),
        mac(3),
        mac(16),
        mac(25),
        mac(28),
    ]
}

// ---------------------------------------------------------------------------------------
// the plan: staged, indexable enumeration of base datagrams
// ---------------------------------------------------------------------------------------

pub(super) struct Corpus {
    pub name: &'static str,
    pub headers: Vec<(String, [u8; 48])>,
    pub alphabet: Vec<Field>,
    pub tails: Vec<Vec<u8>>,
    /// mandatory first field of a block with `lead` (v5: the draft identification)
    pub lead: Option<Field>,
}

/// One cartesian block: headers x lead? x alphabet^len x tails.
pub(super) struct Block {
    pub corpus: usize,
    pub hdrs: Vec<usize>,
    pub alpha: Vec<usize>,
    pub len: usize,
    pub tails: Vec<usize>,
    pub lead: bool,
    pub swept: bool,
}

impl Block {
    fn size(&self) -> u64 {
        self.hdrs.len() as u64
            * (self.alpha.len() as u64).pow(self.len as u32)
            * self.tails.len() as u64
    }
}

pub(super) struct Stage {
    pub label: String,
    pub blocks: Vec<Block>,
}

pub(super) struct Plan {
    pub corpora: Vec<Corpus>,
    pub stages: Vec<Stage>,
}

pub(super) struct Case {
    pub built: Built,
    pub swept: bool,
    pub desc: String,
}

impl Plan {
    pub(super) fn stage_total(&self, s: usize) -> u64 {
        self.stages[s].blocks.iter().map(Block::size).sum()
    }

    /// the `i`-th base datagram of stage `s`
    pub(super) fn build(&self, env: &Env, s: usize, mut i: u64) -> Case {
        for b in &self.stages[s].blocks {
            let n = b.size();
            if i >= n {
                i -= n;
                continue;
            }
            let c = &self.corpora[b.corpus];
            let t = b.tails[(i % b.tails.len() as u64) as usize];
            i /= b.tails.len() as u64;
            let mut fields: Vec<&Field> = Vec::with_capacity(b.len + 1);
            let mut idx = vec![0usize; b.len];
            for k in (0..b.len).rev() {
                idx[k] = b.alpha[(i % b.alpha.len() as u64) as usize];
                i /= b.alpha.len() as u64;
            }
            let h = b.hdrs[i as usize];
            if b.lead {
                fields.push(c.lead.as_ref().expect("lead"));
            }
            for k in idx {
                fields.push(&c.alphabet[k]);
            }
            let built = assemble(env, &c.headers[h].1, &fields, &c.tails[t]);
            let desc = format!(
                "{}/{}/[{}]/tail{}",
                c.name,
                c.headers[h].0,
                fields
                    .iter()
                    .map(|f| f.name.as_str())
                    .collect::<Vec<_>>()
                    .join(","),
                c.tails[t].len()
            );
            return Case {
                built,
                swept: b.swept,
                desc,
            };
        }
        panic!("harness: base index out of range");
    }

    pub(super) fn new(quick: bool, env: &Env) -> Plan {
        let v4 = alphabet_v4(env);
        let v5 = alphabet_v5(env);
        let all = |a: &Vec<Field>| (0..a.len()).collect::<Vec<_>>();
        let short = |a: &Vec<Field>| (0..a.len()).filter(|&i| !a[i].long).collect::<Vec<_>>();
        let long = |a: &Vec<Field>| (0..a.len()).filter(|&i| a[i].long).collect::<Vec<_>>();
        let core = |a: &Vec<Field>| (0..a.len()).filter(|&i| a[i].core).collect::<Vec<_>>();
        let nothuge = |a: &Vec<Field>| (0..a.len()).filter(|&i| !a[i].huge).collect::<Vec<_>>();
        let (v4pair, v5pair) = if quick {
            (short(&v4), short(&v5))
        } else {
            (nothuge(&v4), nothuge(&v5))
        };
        let (v4all, v4short, v4long, v4core) = (all(&v4), short(&v4), long(&v4), core(&v4));
        let (v5all, v5short, v5long, v5core) = (all(&v5), short(&v5), long(&v5), core(&v5));
        let h34 = headers_v34(4);
        let corpora = vec![
            // 0: NTPv3 – header + MAC only
            Corpus {
                name: "v3",
                headers: headers_v34(3),
                alphabet: vec![
                    ef("x-uid32", T_UID, &filler(32, 0x41)),
                    ef("x-u1000", 0x2222, &filler(996, 0x77)),
                    ef("x-u4044", 0x3333, &filler(4040, 0x79)),
                ],
                tails: mac_tails(),
                lead: None,
            },
            // 1: NTPv4
            Corpus {
                name: "v4",
                headers: h34,
                alphabet: v4,
                tails: mac_tails(),
                lead: None,
            },
            // 2: NTPv5 (no MAC in v5: a tail is stray bytes)
            Corpus {
                name: "v5",
                headers: headers_v5(),
                alphabet: v5,
                tails: vec![vec![], vec![0, 0, 0, 1], vec![0xF5]],
                lead: Some(draft_field()),
            },
            // 3: versions 0,1,2,6,7
            Corpus {
                name: "vx",
                headers: [0u8, 1, 2, 6, 7]
                    .iter()
                    .map(|&vn| {
                        (
                            format!("vn{vn}"),
                            hdr_v34(vn, 0, 3, 1, 6, 0, 0, 0, [0; 4], [0, 0, 0, 1]),
                        )
                    })
                    .collect(),
                alphabet: vec![ef("x-uid32", T_UID, &filler(32, 0x41))],
                tails: vec![vec![], vec![0, 0, 0, 1]],
                lead: None,
            },
        ];
        let nh = |c: usize| (0..corpora[c].headers.len()).collect::<Vec<_>>();
        let nt = |c: usize| (0..corpora[c].tails.len()).collect::<Vec<_>>();
        let mut s0 = vec![
            // v3 and the unknown versions: every header x <=1 field x every tail, swept
            Block {
                corpus: 0,
                hdrs: nh(0),
                alpha: vec![],
                len: 0,
                tails: nt(0),
                lead: false,
                swept: true,
            },
            Block {
                corpus: 0,
                hdrs: vec![0],
                alpha: vec![0, 1, 2],
                len: 1,
                tails: vec![0, 1],
                lead: false,
                swept: true,
            },
            Block {
                corpus: 3,
                hdrs: nh(3),
                alpha: vec![],
                len: 0,
                tails: nt(3),
                lead: false,
                swept: true,
            },
            Block {
                corpus: 3,
                hdrs: nh(3),
                alpha: vec![0],
                len: 1,
                tails: vec![0],
                lead: false,
                swept: true,
            },
            // v4: every header x <=1 short field x every tail, swept
            Block {
                corpus: 1,
                hdrs: nh(1),
                alpha: vec![],
                len: 0,
                tails: nt(1),
                lead: false,
                swept: true,
            },
            Block {
                corpus: 1,
                hdrs: nh(1),
                alpha: v4short.clone(),
                len: 1,
                tails: nt(1),
                lead: false,
                swept: true,
            },
            // v4 long fields (up to 4096 bytes in total): 1 header x 2 tails, swept
            Block {
                corpus: 1,
                hdrs: vec![0],
                alpha: v4long.clone(),
                len: 1,
                tails: vec![0, 3],
                lead: false,
                swept: true,
            },
            // v5: every header x <=1 short field x every tail, without and with leading draft id
            Block {
                corpus: 2,
                hdrs: nh(2),
                alpha: vec![],
                len: 0,
                tails: nt(2),
                lead: false,
                swept: true,
            },
            Block {
                corpus: 2,
                hdrs: nh(2),
                alpha: v5short.clone(),
                len: 1,
                tails: nt(2),
                lead: false,
                swept: true,
            },
            Block {
                corpus: 2,
                hdrs: (0..V5_VALID).collect(),
                alpha: vec![],
                len: 0,
                tails: nt(2),
                lead: true,
                swept: true,
            },
            Block {
                corpus: 2,
                hdrs: (0..V5_VALID).collect(),
                alpha: v5short.clone(),
                len: 1,
                tails: nt(2),
                lead: true,
                swept: true,
            },
            Block {
                corpus: 2,
                hdrs: vec![0],
                alpha: v5long.clone(),
                len: 1,
                tails: vec![0],
                lead: true,
                swept: true,
            },
        ];
        // pairs, swept
        let (h4, t4, h5, t5): (Vec<usize>, Vec<usize>, Vec<usize>, Vec<usize>) = if quick {
            (vec![0, 1], vec![0, 3], vec![0, 1], vec![0])
        } else {
            (vec![0, 1, 2], vec![0, 1, 2, 3, 4], vec![0, 1], vec![0, 2])
        };
        let s1 = vec![
            Block {
                corpus: 1,
                hdrs: h4.clone(),
                alpha: v4pair.clone(),
                len: 2,
                tails: t4.clone(),
                lead: false,
                swept: true,
            },
            Block {
                corpus: 2,
                hdrs: h5.clone(),
                alpha: v5pair.clone(),
                len: 2,
                tails: t5.clone(),
                lead: false,
                swept: true,
            },
            Block {
                corpus: 2,
                hdrs: h5.clone(),
                alpha: v5pair.clone(),
                len: 2,
                tails: t5.clone(),
                lead: true,
                swept: true,
            },
        ];
        // triples over the full alphabets, base datagrams only (no mutation)
        let s2 = vec![
            Block {
                corpus: 1,
                hdrs: vec![0],
                alpha: v4all.clone(),
                len: 3,
                tails: vec![0, 2],
                lead: false,
                swept: false,
            },
            Block {
                corpus: 2,
                hdrs: vec![0],
                alpha: v5all.clone(),
                len: 3,
                tails: vec![0],
                lead: false,
                swept: false,
            },
            Block {
                corpus: 2,
                hdrs: vec![1],
                alpha: v5all.clone(),
                len: 3,
                tails: vec![0],
                lead: true,
                swept: false,
            },
        ];
        // cheap stages first: the budget test between stages can then only ever skip the
        // thorough-only last stage
        let mut stages = vec![
            Stage {
                label: "<=1 field, all headers, all tails, swept".into(),
                blocks: std::mem::take(&mut s0),
            },
            Stage {
                label: "3 fields over the full alphabets, unmutated".into(),
                blocks: s2,
            },
            Stage {
                label: "2 fields, swept".into(),
                blocks: s1,
            },
        ];
        if !quick {
            // triples over the reduced (core) alphabets, swept
            stages.push(Stage {
                label: "3 fields over the core alphabets, swept".into(),
                blocks: vec![
                    Block {
                        corpus: 1,
                        hdrs: vec![0, 1],
                        alpha: v4core.clone(),
                        len: 3,
                        tails: vec![0, 2, 3],
                        lead: false,
                        swept: true,
                    },
                    Block {
                        corpus: 2,
                        hdrs: vec![0, 1],
                        alpha: v5core.clone(),
                        len: 3,
                        tails: vec![0],
                        lead: false,
                        swept: true,
                    },
                    Block {
                        corpus: 2,
                        hdrs: vec![0, 1],
                        alpha: v5core.clone(),
                        len: 3,
                        tails: vec![0],
                        lead: true,
                        swept: true,
                    },
                ],
            });
        }
        Plan { corpora, stages }
    }

    pub(super) fn describe(&self) -> String {
        let c = &self.corpora;
        format!(
            "alphabets: v4 {} fields ({} long, {} core), v5 {} fields ({} long, {} core); headers v3/v4 {} , v5 {} ({} valid), other versions {}; tails v3/v4 {:?} bytes, v5 {:?} bytes",
            c[1].alphabet.len(),
            c[1].alphabet.iter().filter(|f| f.long).count(),
            c[1].alphabet.iter().filter(|f| f.core).count(),
            c[2].alphabet.len(),
            c[2].alphabet.iter().filter(|f| f.long).count(),
            c[2].alphabet.iter().filter(|f| f.core).count(),
            c[1].headers.len(),
            c[2].headers.len(),
            V5_VALID,
            c[3].headers.len(),
            c[1].tails.iter().map(Vec::len).collect::<Vec<_>>(),
            c[2].tails.iter().map(Vec::len).collect::<Vec<_>>(),
        )
    }
}

pub(super) const RULE_GRAMMAR: &str = "base datagram = 48-byte header (v3/v4: 6 boundary-value headers; v5: 4 valid + 5 invalid \
     headers; versions 0,1,2,6,7) + a sequence of hand-framed extension fields over the per-version alphabet (UID, cookie valid/garbage, \
     placeholder, valid authenticators (AES-SIV, harness nonces) for both AEADs and directions incl. nested/badly-framed plaintext, \
     in-field tail bytes, 13-byte nonce; malformed authenticators; v5 draft id incl. NUL/non-ASCII/missing padding; padding; \
     reference-id request/response with lengths 4..516 incl. non-multiples of 4; unknown types up to 4000 bytes; declared lengths \
     0,3,5,6,7,over-long,0xFFFF) + raw tail of 0/3/4/16/20/24/25/28 bytes (v5: 0/4/1 stray bytes). Stage 0: <=1 field x all headers x \
     all tails; stage 2: all ordered pairs (quick: fields <=200 bytes, 2 headers, tails 0/24; thorough: fields <=2000 bytes, 3 v4 / 2 v5 headers, tails 0/4/20/24/3, v5 0/1); both swept = base + every \
     truncation + every offset x byte patterns (quick: =00,=FF,^80,^01; thorough adds ^04,+1,=04,=10) + (+-1,+-4) on every 16-bit \
     length field. Stage 1: all ordered triples over the full alphabets, unmutated. Thorough stage 3: all triples over the core \
     alphabets, swept. v5 blocks are run without and with a leading valid draft-id field.";

// ---------------------------------------------------------------------------------------
// violation collector: counts every occurrence, keeps the 3 shortest traces per class
// ---------------------------------------------------------------------------------------

pub(super) struct Findings {
    inner: std::sync::Mutex<BTreeMap<String, (u64, Vec<(usize, String, String)>)>>,
}

impl Findings {
    pub(super) fn new() -> Findings {
        Findings {
            inner: std::sync::Mutex::new(BTreeMap::new()),
        }
    }

    pub(super) fn report(&self, class: &str, what: String, trace: String) {
        let mut g = self.inner.lock().unwrap();
        let e = g.entry(class.to_string()).or_insert((0, Vec::new()));
        e.0 += 1;
        let key = trace.len();
        if e.1.len() < 3 || key < e.1.last().map(|x| x.0).unwrap_or(0) {
            if !e.1.iter().any(|x| x.2 == trace) {
                let pos = e.1.iter().position(|x| x.0 > key).unwrap_or(e.1.len());
                e.1.insert(pos, (key, what, trace));
                e.1.truncate(3);
            }
        }
    }

    /// hand everything to the context: the shortest traces first (those are the ones kept)
    pub(super) fn flush(&self, ctx: &Ctx) {
        let g = self.inner.lock().unwrap();
        for (class, (count, best)) in g.iter() {
            for (_, what, trace) in best {
                ctx.violation(class, what.clone(), trace.clone());
            }
            for _ in best.len() as u64..*count {
                ctx.violation(class, "", "");
            }
        }
    }
}

// ---------------------------------------------------------------------------------------
// C23 proper
// ---------------------------------------------------------------------------------------

const CTX_NAMES: [&str; 4] = [
    "nocipher",
    "client-s2c256",
    "client-s2c512",
    "server-keyset",
];

fn key_ctx<'a>(env: &'a Env, i: usize) -> KeyCtx<'a> {
    match i {
        0 => KeyCtx::None,
        1 => KeyCtx::Client(env.cipher(Alg::A256, Dir::S2C)),
        2 => KeyCtx::Client(env.cipher(Alg::A512, Dir::S2C)),
        _ => KeyCtx::Server(&env.keyset),
    }
}

struct Local<'a> {
    ctx: &'a Ctx,
    counts: [[u64; OUTCOMES.len()]; 4],
    evals: u64,
    bases: u64,
    swept_bases: u64,
    max_len: u64,
    distinct: HashSet<u64>,
}

impl Drop for Local<'_> {
    fn drop(&mut self) {
        for (ci, row) in self.counts.iter().enumerate() {
            for (oi, n) in row.iter().enumerate() {
                if *n > 0 {
                    self.ctx
                        .add(&format!("outcome.{}.{}", CTX_NAMES[ci], OUTCOMES[oi]), *n);
                }
            }
        }
        self.ctx.add("evaluations", self.evals);
        self.ctx.add("transitions", self.evals);
        self.ctx.add("base_datagrams", self.bases);
        self.ctx.add("base_datagrams_swept", self.swept_bases);
        self.ctx.max("max_datagram_len", self.max_len);
        self.ctx.distinct_many(self.distinct.drain());
    }
}

fn panic_class(prefix: &str, msg: &str) -> String {
    // "<message> @ <file>:<line>"  ->  "<prefix>:<file stem>"
    let file = msg.rsplit(" @ ").next().unwrap_or("");
    let file = file.rsplit('/').next().unwrap_or("");
    let stem = file.split('.').next().unwrap_or("");
    if stem.is_empty() {
        prefix.to_string()
    } else {
        format!("{prefix}:{stem}")
    }
}

fn run_case(
    found: &Findings,
    env: &Env,
    st: &mut Local<'_>,
    stage: usize,
    index: u64,
    case: &Case,
    pats: &[Pat],
    contexts: &[usize],
) {
    st.bases += 1;
    st.max_len = st.max_len.max(case.built.bytes.len() as u64);
    let base_key = (stage as u64) << 48 | index;
    let mut body = |bytes: &[u8], _m: Mutation| {
        let mut vector = [0u8; 4];
        for &ci in contexts {
            let k = key_ctx(env, ci);
            match common::catch(|| outcome_class(&k.decode(bytes))) {
                Ok(o) => {
                    st.counts[ci][o] += 1;
                    vector[ci] = o as u8 + 1;
                }
                Err(e) => found.report(
                    &panic_class("C23:decode-panic", &e),
                    format!(
                        "NtpPacket::deserialize panicked ({e}) in context {} on a mutant of {}",
                        CTX_NAMES[ci], case.desc
                    ),
                    format!("{};{}", CTX_NAMES[ci], common::hex(bytes)),
                ),
            }
            st.evals += 1;
        }
        if bytes.len() >= 48 {
            st.distinct.insert(common::hash_of(&(base_key, vector)));
        }
    };
    if case.swept {
        st.swept_bases += 1;
        sweep(&case.built, pats, &mut body);
    } else {
        body(&case.built.bytes, Mutation::None);
    }
}

fn replay(ctx: &Ctx, env: &Env, trace: &str) -> String {
    // trace: "<context name>;<hex datagram>"
    let (cname, hex) = trace.split_once(';').unwrap_or(("nocipher", trace));
    let ci = CTX_NAMES.iter().position(|n| *n == cname).unwrap_or(0);
    let Some(bytes) = common::unhex(hex) else {
        return "unparsable trace".into();
    };
    match common::catch(|| outcome_class(&key_ctx(env, ci).decode(&bytes))) {
        Ok(o) => format!(
            "context={} len={} outcome={}",
            CTX_NAMES[ci],
            bytes.len(),
            OUTCOMES[o]
        ),
        Err(e) => {
            ctx.violation(
                &panic_class("C23:decode-panic", &e),
                format!("deserialize panicked: {e}"),
                trace,
            );
            format!("context={} len={} PANIC {e}", CTX_NAMES[ci], bytes.len())
        }
    }
}

#[test]
fn check() {
    let ctx = Ctx::new("C23");
    let env = Env::new();
    if let Some(t) = common::replay_trace() {
        let a = replay(&ctx, &env, &t);
        let b = replay(&ctx, &env, &t);
        common::report_replay("C23", &a, &b, ctx.violation_count() > 0);
        return;
    }
    let plan = Plan::new(ctx.quick(), &env);
    let pats = patterns(ctx.quick());
    // the three contexts of the statement; the client one with each of the two AEADs
    let contexts: Vec<usize> = vec![0, 1, 2, 3];
    ctx.rule(&format!(
        "{RULE_GRAMMAR} Every datagram is decoded in each key context (NoCipher, client Option<&dyn Cipher> with the s2c key, \
         server KeySet). distinct & non-trivial = distinct (base datagram, vector of decode outcome classes over the key contexts) pairs reached \
         by the base or one of its mutants of >= 48 bytes. [{}]",
        plan.describe()
    ));
    ctx.assume("release profile as shipped (debug assertions off): debug_assert!s in the decoder are not evaluated");
    ctx.assume("byte strings outside the grammar + its single-mutation neighbourhood are not covered (bounded exhaustive claim)");
    ctx.assume("termination is observed as: every planned decode call returned and was counted");
    ctx.set("harness_self_test_failures", env.self_test.len() as u64);
    if !env.self_test.is_empty() {
        ctx.note("harness_self_test", &env.self_test.join("; "));
    }
    ctx.note(
        "contexts",
        &contexts
            .iter()
            .map(|c| CTX_NAMES[*c])
            .collect::<Vec<_>>()
            .join(","),
    );
    let found = Findings::new();
    let mut completed = 0;
    for s in 0..plan.stages.len() {
        if s > 0 && ctx.over_budget() {
            ctx.cap_hit(&format!(
                "stage {s} ({}) not started; stages < {s} complete",
                plan.stages[s].label
            ));
            break;
        }
        let total = plan.stage_total(s);
        ctx.add(&format!("stage{s}_bases"), total);
        let chunk = if plan.stages[s].blocks.iter().any(|b| b.swept) {
            1
        } else {
            64
        };
        common::par_for_with(
            total,
            chunk,
            || Local {
                ctx: &ctx,
                counts: [[0; OUTCOMES.len()]; 4],
                evals: 0,
                bases: 0,
                swept_bases: 0,
                max_len: 0,
                distinct: HashSet::new(),
            },
            |st, i| {
                let case = plan.build(&env, s, i);
                if i % 9973 == 1 {
                    ctx.sample(format!(
                        "stage {s} base {i}: {} ({} bytes{})",
                        case.desc,
                        case.built.bytes.len(),
                        if case.swept { ", swept" } else { "" }
                    ));
                }
                run_case(&found, &env, st, s, i, &case, &pats, &contexts);
            },
        );
        completed = s + 1;
    }
    found.flush(&ctx);
    ctx.set("stages_completed", completed as u64);
    ctx.set("states", ctx.get("base_datagrams"));
    ctx.exhaustive(completed == plan.stages.len());
    ctx.finish();
}
