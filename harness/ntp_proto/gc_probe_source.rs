//! Group gc probe into `crate::source`: a canonical, complete, read-only view of an
//! `NtpSource` (every field except the two session ciphers, which `&mut self` methods have
//! no way to replace, and the controller, which the harness owns and records itself).
use super::super::{NtpSource, ProtocolVersion};
use crate::algorithm::SourceController;

#[derive(Clone, Debug, PartialEq, Eq, Hash)]
pub(crate) struct Key {
    pub version: String,
    pub last_poll: i8,
    pub remote_min_poll: i8,
    /// `None` = no request outstanding; `Some((debug of the identifier, ms until the
    /// response window closes, or -1 if already closed))`
    pub pending: Option<(String, i64)>,
    pub deny: bool,
    pub stratum: u8,
    pub refid: String,
    pub reach: u8,
    pub tries: usize,
    /// NTS cookies held, oldest first; `None` for a non-NTS source
    pub cookies: Option<Vec<Vec<u8>>>,
    pub ring: Option<(usize, usize)>,
    pub bloom_bytes: u64,
    pub bloom_last: Option<(u16, [u8; 8])>,
    pub bloom_next: u16,
    pub bloom_filled: bool,
    pub buffer: u64,
    pub snapshot: String,
    pub config: String,
    pub addr: String,
}

pub(crate) fn key<C: SourceController>(s: &NtpSource<C>) -> Key {
    let now = tokio::time::Instant::now();
    let (bb, bl, bn, bf) =
        crate::packet::v5::server_reference_id::verif_probe::gc::raw(&s.bloom_filter);
    Key {
        version: format!("{:?}", s.protocol_version),
        last_poll: s.last_poll_interval.as_log(),
        remote_min_poll: s.remote_min_poll_interval.as_log(),
        pending: s.current_request_identifier.map(|(id, deadline)| {
            let left = if deadline >= now {
                deadline.duration_since(now).as_millis() as i64
            } else {
                -1
            };
            (format!("{id:?}"), left)
        }),
        deny: s.have_deny_rstr_response,
        stratum: s.stratum,
        refid: format!("{:?}", s.reference_id),
        reach: s.reach.0,
        tries: s.tries,
        cookies: s
            .nts
            .as_ref()
            .map(|n| crate::cookiestash::verif_probe::gc::fifo(&n.cookies)),
        ring: s
            .nts
            .as_ref()
            .map(|n| crate::cookiestash::verif_probe::gc::ring(&n.cookies)),
        bloom_bytes: crate::verif::common::hash_of(&bb),
        bloom_last: bl,
        bloom_next: bn,
        bloom_filled: bf,
        buffer: crate::verif::common::hash_of(&s.buffer.to_vec()),
        snapshot: format!("{:?}", s.source_snapshots.lock().unwrap().get(&s.id)),
        config: format!("{:?}", s.source_config),
        addr: format!("{:?}/{:?}/{:?}", s.source_addr, s.source_id, s.id),
    }
}

pub(crate) fn is_v5(p: ProtocolVersion) -> bool {
    matches!(p, ProtocolVersion::V5 | ProtocolVersion::UpgradedToV5)
}
