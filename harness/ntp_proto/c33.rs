//! C33: not implemented yet.
