//! C33 — Advertised stratum and loop avoidance are consistent.
//!
//! Engine E-IN (+ end-to-end through real `NtpSource` / `Server` / `NtpManager` objects).
//!
//!  A. `NtpSourceSnapshot::accept_synchronization` over the full product
//!     stratum x local stratum x reach x source id x reference id x local address list x
//!     Bloom filter (source id and reference id varied independently);
//!  B. `NtpSnapshot::from_used_sources` over every sequence of <= 3 used sources from a
//!     39-symbol alphabet (NTP sources of several strata / ids / Bloom filters, PPS, SOCK,
//!     CSPTP) x local stratum;
//!  E. end to end: a real source created by a real `NtpManager`, polled against a real
//!     `Server` whose advertised stratum / reference id / Bloom filter is the case under
//!     test (optionally after a first phase advertising something else), with every
//!     delivered / dropped answer pattern of the schedule; after *every* step the `usable`
//!     flag handed to the source controller and the `NtpSnapshot` published by
//!     `update_used_sources` are compared with the oracle;
//!  D. two complete daemons A and B: B synchronises to A, then A polls B - the actual loop.
//!
//! Oracle (transcribed from the statement): a source must not be used if
//!   stratum >= local stratum, or it is unreachable (no valid answer to the last 8 polls),
//!   or it is this daemon itself (its address is a local address), or it reports that it
//!   synchronises to this daemon: stratum > 1 and its reference id is the id of a local
//!   address, or its (completely transferred) Bloom filter contains this daemon's server id.
//! "Own address at stratum 1" is accepted either way (could be another daemon on this host),
//! as is "stratum 0 with a local reference id" (never stored by a live source).
//! Otherwise the source is expected to be usable (completeness side; makes over-rejection
//! visible). Advertised: stratum = primary + 1 and reference id = primary's id, or the local
//! stratum without used sources.
use std::collections::HashMap;
use std::net::{IpAddr, Ipv4Addr, Ipv6Addr, SocketAddr};
use std::sync::atomic::{AtomicU64, Ordering};
use std::sync::{Arc, Mutex, RwLock};

use super::common::{self, Ctx};
use crate::algorithm::{Measurement, ObservableSourceTimedata, SourceController};
use crate::config::{SourceConfig, SynchronizationConfig};
use crate::identifiers::ReferenceId;
use crate::packet::v5::server_reference_id::verif_probe::gk as pb;
use crate::packet::v5::server_reference_id::{BloomFilter, ServerId};
use crate::server::{
    FilterAction, FilterList, IpSubnet, Server, ServerAction, ServerConfig, ServerReason,
    ServerResponse, ServerStatHandler,
};
use crate::source::verif_probe::gk as ps;
use crate::source::{
    NtpSource, NtpSourceAction, NtpSourceSnapshot, ProtocolVersion, SourceSnapshot,
};
use crate::system::{NtpManager, NtpServerInfo, NtpSnapshot, SourceType, TimeSnapshot};
use crate::time_types::{NtpDuration, NtpTimestamp, PollInterval, PollIntervalLimits};
use crate::{ClockId, KeySetProvider, NtpClock, NtpLeapIndicator, NtpVersion};

// ---------------------------------------------------------------------------------
// addresses and identifiers (reference ids computed by the harness, not by the crate)
// ---------------------------------------------------------------------------------

const OWN4: Ipv4Addr = Ipv4Addr::new(192, 0, 2, 17);
const SECOND4: Ipv4Addr = Ipv4Addr::new(10, 1, 2, 3);
const OTHER4: Ipv4Addr = Ipv4Addr::new(198, 51, 100, 9);
const UP4: Ipv4Addr = Ipv4Addr::new(203, 0, 113, 5);

fn own6() -> Ipv6Addr {
    "2001:db8::7".parse().unwrap()
}
fn other6() -> Ipv6Addr {
    "fe80::1".parse().unwrap()
}

/// RFC 5905 reference id of an address: the IPv4 address itself, or the first four octets
/// of the MD5 digest of the IPv6 address (digests computed offline with python hashlib).
fn ref_id_of(ip: IpAddr) -> [u8; 4] {
    match ip {
        IpAddr::V4(a) => a.octets(),
        IpAddr::V6(a) => {
            if a == own6() {
                [0xe1, 0xb2, 0xc2, 0x9d]
            } else if a == other6() {
                [0x89, 0xe5, 0x30, 0x1f]
            } else if a == "2001:db8:85a3::8a2e:370:7334".parse::<Ipv6Addr>().unwrap() {
                [0xd6, 0x1c, 0xe9, 0xc2]
            } else {
                panic!("harness: no reference digest for {a}")
            }
        }
    }
}

fn ip_list(kind: usize) -> Vec<IpAddr> {
    match kind {
        0 => vec![IpAddr::V4(OWN4)],
        1 => vec![IpAddr::V6(own6())],
        2 => vec![IpAddr::V4(OWN4), IpAddr::V6(own6())],
        3 => vec![IpAddr::V4(SECOND4), IpAddr::V6(own6()), IpAddr::V4(OWN4)],
        _ => vec![],
    }
}
const IPL_KINDS: usize = 5;

fn local_ids(kind: usize) -> Vec<[u8; 4]> {
    ip_list(kind).into_iter().map(ref_id_of).collect()
}

/// identifier alphabet used for source ids and reference ids
fn id_kind(kind: usize) -> [u8; 4] {
    match kind {
        0 => ref_id_of(IpAddr::V4(OWN4)),
        1 => ref_id_of(IpAddr::V6(own6())),
        2 => ref_id_of(IpAddr::V4(OTHER4)),
        3 => ref_id_of(IpAddr::V6(other6())),
        4 => *b"XNON",
        _ => ref_id_of(IpAddr::V4(SECOND4)),
    }
}
const SRC_KINDS: usize = 4;
const REF_KINDS: usize = 6;

const OWN_IDX: [u16; 10] = [5, 100, 333, 777, 1024, 2047, 2048, 3000, 4000, 4095];
const OTHER_IDX: [u16; 10] = [6, 101, 334, 778, 1025, 2046, 2049, 3001, 4001, 4094];
const THIRD_IDX: [u16; 10] = [7, 102, 335, 779, 1026, 2045, 2050, 3002, 4002, 4093];
const NEAR_IDX: [u16; 10] = [5, 100, 333, 777, 1024, 2047, 2048, 3000, 4000, 4092];

fn filter_of(ids: &[[u16; 10]]) -> BloomFilter {
    let mut f = BloomFilter::new();
    for i in ids {
        f.add_id(&pb::server_id(*i));
    }
    f
}

/// (filter, does it report the id OWN_IDX)
fn bloom_kind(kind: usize) -> (Option<BloomFilter>, bool) {
    match kind {
        0 => (None, false),
        1 => (Some(BloomFilter::new()), false),
        2 => (Some(filter_of(&[OWN_IDX])), true),
        3 => (Some(filter_of(&[OTHER_IDX])), false),
        4 => (Some(filter_of(&[OTHER_IDX, OWN_IDX])), true),
        5 => (Some(filter_of(&[NEAR_IDX, THIRD_IDX])), false),
        _ => (Some(pb::filter_from_bytes([0xFF; 512])), true),
    }
}
const BLOOM_KINDS: usize = 7;

// ---------------------------------------------------------------------------------
// oracle
// ---------------------------------------------------------------------------------

#[derive(Clone, Copy, PartialEq, Eq, Debug)]
enum Verdict {
    MustReject(&'static str),
    MustAccept,
    Either,
}

fn oracle(
    stratum: u8,
    local_stratum: u8,
    reachable: bool,
    source_is_own: bool,
    ref_is_own: bool,
    bloom_reports_us: bool,
) -> Verdict {
    if stratum >= local_stratum {
        return Verdict::MustReject("stratum");
    }
    if !reachable {
        return Verdict::MustReject("unreachable");
    }
    if bloom_reports_us {
        return Verdict::MustReject("bloom-loop");
    }
    if stratum > 1 && ref_is_own {
        return Verdict::MustReject("refid-loop");
    }
    if source_is_own {
        return if stratum == 1 {
            Verdict::Either
        } else {
            Verdict::MustReject("self")
        };
    }
    if stratum == 0 && ref_is_own {
        return Verdict::Either;
    }
    Verdict::MustAccept
}

#[derive(Default)]
struct St {
    evals: AtomicU64,
    accepted: AtomicU64,
    rejected: AtomicU64,
    must_reject_stratum: AtomicU64,
    must_reject_unreachable: AtomicU64,
    must_reject_bloom: AtomicU64,
    must_reject_refid: AtomicU64,
    must_reject_self: AtomicU64,
    must_accept: AtomicU64,
    either: AtomicU64,
    steps: AtomicU64,
    polls: AtomicU64,
    resets: AtomicU64,
    snapshots: AtomicU64,
    bloom_transfers: AtomicU64,
}

impl St {
    fn tally(&self, v: Verdict, got: bool) {
        self.evals.fetch_add(1, Ordering::Relaxed);
        let side = if got { &self.accepted } else { &self.rejected };
        side.fetch_add(1, Ordering::Relaxed);
        let bucket = match v {
            Verdict::MustReject("stratum") => &self.must_reject_stratum,
            Verdict::MustReject("unreachable") => &self.must_reject_unreachable,
            Verdict::MustReject("bloom-loop") => &self.must_reject_bloom,
            Verdict::MustReject("refid-loop") => &self.must_reject_refid,
            Verdict::MustReject(_) => &self.must_reject_self,
            Verdict::MustAccept => &self.must_accept,
            Verdict::Either => &self.either,
        };
        bucket.fetch_add(1, Ordering::Relaxed);
    }
}

/// Compare; report; returns true when consistent.
fn verdict_check(ctx: &Ctx, v: Verdict, got: bool, what: &str, trace: &str) -> bool {
    match (v, got) {
        (Verdict::MustReject(reason), true) => {
            ctx.violation(
                &format!("C33:accepted-{reason}"),
                format!("{what}: source is usable although the statement forbids it ({reason})"),
                trace,
            );
            false
        }
        (Verdict::MustAccept, false) => {
            ctx.violation(
                "C33:rejected-usable-source",
                format!(
                    "{what}: source rejected although no rejection condition of the statement holds"
                ),
                trace,
            );
            false
        }
        _ => true,
    }
}

// ---------------------------------------------------------------------------------
// A. accept_synchronization directly
// ---------------------------------------------------------------------------------

const A_STRATA: [u8; 20] = [
    0, 1, 2, 3, 4, 5, 6, 7, 8, 9, 10, 11, 12, 13, 14, 15, 16, 17, 254, 255,
];
const A_LOCAL: [u8; 8] = [0, 1, 2, 3, 15, 16, 17, 255];
const A_REACH_QUICK: [u8; 9] = [0, 1, 2, 0x40, 0x80, 0x81, 0x7F, 0xFE, 0xFF];

#[derive(Clone, Copy, Debug)]
struct ACase {
    stratum: u8,
    local: u8,
    reach: u8,
    src: usize,
    refk: usize,
    ipl: usize,
    bloom: usize,
}

impl ACase {
    fn trace(&self) -> String {
        format!(
            "A;{};{};{};{};{};{};{}",
            self.stratum, self.local, self.reach, self.src, self.refk, self.ipl, self.bloom
        )
    }
}

fn run_a(ctx: &Ctx, st: &St, c: ACase, blooms: &[(Option<BloomFilter>, bool)]) -> String {
    let ips = ip_list(c.ipl);
    let own = local_ids(c.ipl);
    let src_id = id_kind(c.src);
    let ref_id = id_kind(c.refk);
    let (bloom, reports_us) = blooms[c.bloom];
    let snap = NtpSourceSnapshot {
        source_addr: SocketAddr::new(IpAddr::V4(OTHER4), 123),
        source_id: ReferenceId::from_bytes(src_id),
        poll_interval: PollIntervalLimits::default().min,
        reach: ps::reach(c.reach),
        stratum: c.stratum,
        reference_id: ReferenceId::from_bytes(ref_id),
        protocol_version: if bloom.is_some() {
            ProtocolVersion::V5
        } else {
            ProtocolVersion::V4
        },
        bloom_filter: bloom,
    };
    let me = pb::server_id(OWN_IDX);
    let v = oracle(
        c.stratum,
        c.local,
        c.reach != 0,
        own.contains(&src_id),
        own.contains(&ref_id),
        reports_us,
    );
    match common::catch(|| snap.accept_synchronization(c.local, &ips, me)) {
        Ok(r) => {
            let got = r.is_ok();
            st.tally(v, got);
            verdict_check(
                ctx,
                v,
                got,
                &format!(
                    "accept_synchronization(stratum {}, local stratum {}, reach {:#04x}, source id {:02x?}, reference id {:02x?}, local ids {:02x?}, bloom kind {}) = {:?}",
                    c.stratum, c.local, c.reach, src_id, ref_id, own, c.bloom, r
                ),
                &c.trace(),
            );
            format!("verdict={v:?} got={r:?}")
        }
        Err(e) => {
            ctx.violation(
                "C33:accept-panic",
                format!("accept_synchronization panicked: {e}"),
                c.trace(),
            );
            format!("panic {e}")
        }
    }
}

fn part_a(ctx: &Ctx, st: &St) {
    let reach: Vec<u8> = if ctx.quick() {
        A_REACH_QUICK.to_vec()
    } else {
        (0..=255u8).collect()
    };
    let blooms: Vec<_> = (0..BLOOM_KINDS).map(bloom_kind).collect();
    let radix = [
        A_STRATA.len(),
        A_LOCAL.len(),
        reach.len(),
        SRC_KINDS,
        REF_KINDS,
        IPL_KINDS,
        BLOOM_KINDS,
    ];
    let total: u64 = radix.iter().map(|r| *r as u64).product();
    ctx.set("a_cases", total);
    common::par_for(total, 4096, |i| {
        let mut x = i;
        let mut d = [0usize; 7];
        for k in (0..7).rev() {
            d[k] = (x % radix[k] as u64) as usize;
            x /= radix[k] as u64;
        }
        let c = ACase {
            stratum: A_STRATA[d[0]],
            local: A_LOCAL[d[1]],
            reach: reach[d[2]],
            src: d[3],
            refk: d[4],
            ipl: d[5],
            bloom: d[6],
        };
        run_a(ctx, st, c, &blooms);
    });
    // every case is distinct input; the non-trivial ones are those where exactly one
    // rejection condition decides (counted per reason in the must_reject_* statistics)
}

// ---------------------------------------------------------------------------------
// B. NtpSnapshot::from_used_sources
// ---------------------------------------------------------------------------------

#[derive(Clone, Copy, Debug)]
enum Sym {
    Ntp {
        stratum: u8,
        id: usize,
        bloom: usize,
    },
    Pps,
    Sock,
    Csptp,
}

fn alphabet() -> Vec<Sym> {
    let mut v = Vec::new();
    for stratum in [0u8, 1, 2, 15, 16, 255] {
        for id in [2usize, 3] {
            for bloom in [0usize, 3, 5] {
                v.push(Sym::Ntp { stratum, id, bloom });
            }
        }
    }
    v.push(Sym::Pps);
    v.push(Sym::Sock);
    v.push(Sym::Csptp);
    v
}

fn sym_snapshot(s: Sym) -> (SourceSnapshot, u8, Option<[u8; 4]>, Vec<[u16; 10]>) {
    match s {
        Sym::Ntp { stratum, id, bloom } => {
            let (f, _) = bloom_kind(bloom);
            let ids: Vec<[u16; 10]> = match bloom {
                3 => vec![OTHER_IDX],
                5 => vec![NEAR_IDX, THIRD_IDX],
                _ => vec![],
            };
            (
                SourceSnapshot::Ntp(NtpSourceSnapshot {
                    source_addr: SocketAddr::new(IpAddr::V4(OTHER4), 123),
                    source_id: ReferenceId::from_bytes(id_kind(id)),
                    poll_interval: PollIntervalLimits::default().min,
                    reach: ps::reach(1),
                    stratum,
                    reference_id: ReferenceId::NONE,
                    protocol_version: if f.is_some() {
                        ProtocolVersion::V5
                    } else {
                        ProtocolVersion::V4
                    },
                    bloom_filter: f,
                }),
                stratum,
                Some(id_kind(id)),
                ids,
            )
        }
        // reference clocks are stratum 0; their identifier is the clock's 4-character name
        Sym::Pps => (
            SourceSnapshot::External {
                stratum: 0,
                source_id: ReferenceId::PPS,
            },
            0,
            Some(*b"PPS\0"),
            vec![],
        ),
        Sym::Sock => (
            SourceSnapshot::External {
                stratum: 0,
                source_id: ReferenceId::SOCK,
            },
            0,
            Some(*b"SOCK"),
            vec![],
        ),
        Sym::Csptp => (
            SourceSnapshot::External {
                stratum: 0,
                source_id: ReferenceId::CSPTP,
            },
            0,
            Some(*b"CPTP"),
            vec![],
        ),
    }
}

fn check_advert(
    ctx: &Ctx,
    what: &str,
    trace: &str,
    snap: &NtpSnapshot,
    local: u8,
    primary: Option<(u8, [u8; 4])>,
    me: &ServerId,
    must_contain: &[[u16; 10]],
) {
    match primary {
        None => {
            if snap.stratum != local {
                ctx.violation(
                    "C33:advertised-stratum",
                    format!(
                        "{what}: no used source, advertised stratum {} != local stratum {local}",
                        snap.stratum
                    ),
                    trace,
                );
            }
        }
        Some((ps_, pid)) => {
            let want = ps_ as u16 + 1;
            if ps_ < 255 && snap.stratum as u16 != want {
                ctx.violation(
                    "C33:advertised-stratum",
                    format!(
                        "{what}: advertised stratum {} but the primary source has stratum {ps_}",
                        snap.stratum
                    ),
                    trace,
                );
            }
            if ps_ == 255 && snap.stratum != 255 {
                ctx.violation(
                    "C33:advertised-stratum",
                    format!(
                        "{what}: advertised stratum {} for a primary at stratum 255",
                        snap.stratum
                    ),
                    trace,
                );
            }
            if snap.reference_id.to_bytes() != pid {
                ctx.violation(
                    "C33:advertised-refid",
                    format!("{what}: advertised reference id {:02x?} is not the primary source's identifier {:02x?}", snap.reference_id.to_bytes(), pid),
                    trace,
                );
            }
        }
    }
    // derived (dual of the Bloom rejection rule): what we advertise must let others detect loops through us
    if !snap.bloom_filter.contains_id(me) {
        ctx.violation(
            "C33:advertised-bloom-missing-id",
            format!("{what}: advertised Bloom filter does not contain the own server id"),
            trace,
        );
    }
    for i in must_contain {
        if !snap.bloom_filter.contains_id(&pb::server_id(*i)) {
            ctx.violation(
                "C33:advertised-bloom-missing-id",
                format!("{what}: advertised Bloom filter lost an id reported by a used source"),
                trace,
            );
        }
    }
}

fn run_b(ctx: &Ctx, st: &St, local: u8, word: &[usize], alpha: &[Sym]) -> String {
    let me = pb::server_id(OWN_IDX);
    let trace = format!(
        "B;{local};{}",
        word.iter()
            .map(|w| w.to_string())
            .collect::<Vec<_>>()
            .join(",")
    );
    let mut snaps = Vec::new();
    let mut primary = None;
    let mut must = Vec::new();
    for (k, &w) in word.iter().enumerate() {
        let (s, stratum, id, ids) = sym_snapshot(alpha[w]);
        if k == 0 {
            primary = Some((stratum, id.unwrap()));
        }
        must.extend(ids);
        snaps.push(s);
    }
    st.evals.fetch_add(1, Ordering::Relaxed);
    st.snapshots.fetch_add(1, Ordering::Relaxed);
    match common::catch(|| NtpSnapshot::from_used_sources(local, me, snaps.into_iter())) {
        Ok(snap) => {
            check_advert(
                ctx,
                &format!(
                    "from_used_sources(local {local}, {:?})",
                    word.iter().map(|w| alpha[*w]).collect::<Vec<_>>()
                ),
                &trace,
                &snap,
                local,
                primary,
                &me,
                &must,
            );
            format!(
                "stratum={} refid={:02x?} ones={}",
                snap.stratum,
                snap.reference_id.to_bytes(),
                snap.bloom_filter.count_ones()
            )
        }
        Err(e) => {
            ctx.violation(
                "C33:advert-panic",
                format!("from_used_sources panicked: {e}"),
                trace,
            );
            format!("panic {e}")
        }
    }
}

fn part_b(ctx: &Ctx, st: &St) {
    let alpha = alphabet();
    let k = alpha.len();
    ctx.set("b_alphabet", k as u64);
    let mut n = 0u64;
    for local in [1u8, 2, 16] {
        for len in 0..=3usize {
            let total = common::pow(k, len);
            common::par_for(total, 512, |i| {
                let w = common::word_of(i, k, len);
                run_b(ctx, st, local, &w, &alpha);
                if len > 0 {
                    ctx.distinct(common::hash_of(&("B", local, &w)));
                }
            });
            n += total;
        }
    }
    ctx.set("b_cases", n);
}

// ---------------------------------------------------------------------------------
// end-to-end machinery
// ---------------------------------------------------------------------------------

#[derive(Default)]
struct RecCtl {
    usable: Vec<bool>,
    measurements: usize,
}

impl SourceController for RecCtl {
    fn handle_measurement(&mut self, _m: Measurement) {
        self.measurements += 1;
    }
    fn set_usable(&mut self, usable: bool) {
        self.usable.push(usable);
    }
    fn desired_poll_interval(&self) -> PollInterval {
        PollInterval::default()
    }
    fn observe(&self) -> ObservableSourceTimedata {
        ObservableSourceTimedata::default()
    }
}

#[derive(Clone, Debug, Default)]
struct FixedClock;

impl NtpClock for FixedClock {
    type Error = std::io::Error;
    fn now(&self) -> Result<NtpTimestamp, Self::Error> {
        Ok(NtpTimestamp::from_fixed_int(0xE000_0000_0000_0300))
    }
    fn set_frequency(&self, _freq: f64) -> Result<NtpTimestamp, Self::Error> {
        unreachable!()
    }
    fn get_frequency(&self) -> Result<f64, Self::Error> {
        Ok(0.0)
    }
    fn step_clock(&self, _offset: NtpDuration) -> Result<NtpTimestamp, Self::Error> {
        unreachable!()
    }
    fn disable_ntp_algorithm(&self) -> Result<(), Self::Error> {
        Ok(())
    }
    fn error_estimate_update(&self, _e: NtpDuration, _m: NtpDuration) -> Result<(), Self::Error> {
        Ok(())
    }
    fn status_update(&self, _l: NtpLeapIndicator) -> Result<(), Self::Error> {
        Ok(())
    }
}

struct NoStats;
impl ServerStatHandler for NoStats {
    fn register(&mut self, _v: u8, _n: bool, _r: ServerReason, _s: ServerResponse) {}
}

fn open_server_config() -> ServerConfig {
    ServerConfig {
        denylist: FilterList {
            filter: vec![],
            action: FilterAction::Deny,
        },
        allowlist: FilterList {
            filter: vec![
                IpSubnet {
                    addr: IpAddr::V4(Ipv4Addr::UNSPECIFIED),
                    mask: 0,
                },
                IpSubnet {
                    addr: IpAddr::V6(Ipv6Addr::UNSPECIFIED),
                    mask: 0,
                },
            ],
            action: FilterAction::Ignore,
        },
        rate_limiting_cache_size: 0,
        rate_limiting_cutoff: std::time::Duration::from_secs(0),
        require_nts: None,
        accepted_versions: vec![NtpVersion::V3, NtpVersion::V4, NtpVersion::V5],
    }
}

/// A server whose advertised data the harness sets directly.
struct ScriptedServer {
    info: Arc<RwLock<NtpServerInfo>>,
    server: Server<FixedClock>,
}

impl ScriptedServer {
    fn new() -> Self {
        let info = Arc::new(RwLock::new(NtpServerInfo {
            time_snapshot: TimeSnapshot {
                leap_indicator: NtpLeapIndicator::NoWarning,
                ..TimeSnapshot::default()
            },
            ntp_snapshot: NtpSnapshot::default(),
        }));
        let server = Server::new_internal(
            open_server_config(),
            FixedClock,
            info.clone(),
            KeySetProvider::new(1).get(),
        );
        ScriptedServer { info, server }
    }
    fn advertise(&self, stratum: u8, refid: [u8; 4], bloom: BloomFilter) {
        let mut i = self.info.write().unwrap();
        i.ntp_snapshot = NtpSnapshot {
            stratum,
            reference_id: ReferenceId::from_bytes(refid),
            bloom_filter: bloom,
        };
    }
}

/// What the harness believes the source knows (from the statement's point of view).
#[derive(Clone, Debug)]
struct Model {
    stratum: u8,
    refid: [u8; 4],
    reach: u8,
    chunks: u32,
    bloom_full: bool,
    valid_answers: u32,
}

impl Model {
    fn new() -> Self {
        Model {
            stratum: 16,
            refid: *b"XNON",
            reach: 0,
            chunks: 0,
            bloom_full: false,
            valid_answers: 0,
        }
    }
}

struct Link {
    src: NtpSource<RecCtl>,
    id: ClockId,
    /// address under which the polled server sees this client
    client_ip: IpAddr,
    server_ip: IpAddr,
    model: Model,
}

enum Step {
    Polled { version: u8, answered: bool },
    Reset,
    Demobilize,
    Silent,
}

/// One poll: timer fires, the request goes to `server` (unless `deliver` is false, then the
/// request is lost), the answer comes back. The model is advanced with what the server
/// advertised at that moment.
fn exchange(
    st: &St,
    link: &mut Link,
    server: &mut Server<FixedClock>,
    advertised: (u8, [u8; 4]),
    deliver: bool,
) -> Step {
    st.polls.fetch_add(1, Ordering::Relaxed);
    let mut req = None;
    for a in link.src.handle_timer() {
        match a {
            NtpSourceAction::Send(b) => req = Some(b),
            NtpSourceAction::Reset => return Step::Reset,
            NtpSourceAction::Demobilize => return Step::Demobilize,
            NtpSourceAction::SetTimer(_) => {}
        }
    }
    let Some(req) = req else { return Step::Silent };
    link.model.reach <<= 1;
    let version = (req[0] >> 3) & 7;
    if !deliver {
        return Step::Polled {
            version,
            answered: false,
        };
    }
    let mut buf = [0u8; 1024];
    let resp = match server.handle(
        link.client_ip,
        NtpTimestamp::from_fixed_int(0xE000_0000_0000_0200),
        &req,
        &mut buf[..req.len().max(48)],
        &mut NoStats,
    ) {
        ServerAction::Respond { message } => message.to_vec(),
        ServerAction::Ignore => {
            return Step::Polled {
                version,
                answered: false,
            };
        }
    };
    for _ in link.src.handle_incoming(
        &resp,
        NtpTimestamp::from_fixed_int(0xE000_0000_0000_0100),
        NtpTimestamp::from_fixed_int(0xE000_0000_0000_0400),
    ) {}
    // a valid time answer carries stratum 1..=16 (0 is a kiss code, > 16 is invalid)
    let (s, refid) = advertised;
    if (1..=16).contains(&s) {
        link.model.reach |= 1;
        link.model.stratum = s;
        link.model.valid_answers += 1;
        if version == 5 {
            link.model.refid = *b"XNON"; // NTPv5 has no reference id field
            link.model.chunks += 1;
            if link.model.chunks >= 32 {
                link.model.bloom_full = true;
            }
        } else {
            link.model.refid = refid;
        }
    }
    Step::Polled {
        version,
        answered: true,
    }
}

fn last_usable(link: &Link) -> Option<bool> {
    ps::controller(&link.src).usable.last().copied()
}

// ---------------------------------------------------------------------------------
// E. one daemon against a scripted server
// ---------------------------------------------------------------------------------

#[derive(Clone, Debug)]
struct ECase {
    ver: u8,      // 4, 5, or 45 (v4 upgrading to v5)
    local: u8,    // local stratum
    addr: usize,  // which address the source polls: 0 own v4, 1 own v6, 2 other v4
    ipl: usize,   // local address list kind
    first: usize, // first phase: 0 none, 1 good (stratum 2, foreign reference id), 2 loop (stratum 3, local reference id)
    stratum: u8,  // advertised in the phase under test
    refk: usize,  // reference id kind advertised (v4 answers)
    bloom: usize, // 0 empty, 1 {us}, 2 {other}, 3 {us, other}
    pattern: String,
}

impl ECase {
    fn trace(&self) -> String {
        format!(
            "E;{};{};{};{};{};{};{};{};{}",
            self.ver,
            self.local,
            self.addr,
            self.ipl,
            self.first,
            self.stratum,
            self.refk,
            self.bloom,
            self.pattern
        )
    }
    fn parse(p: &[&str]) -> Option<ECase> {
        Some(ECase {
            ver: p.get(1)?.parse().ok()?,
            local: p.get(2)?.parse().ok()?,
            addr: p.get(3)?.parse().ok()?,
            ipl: p.get(4)?.parse().ok()?,
            first: p.get(5)?.parse().ok()?,
            stratum: p.get(6)?.parse().ok()?,
            refk: p.get(7)?.parse().ok()?,
            bloom: p.get(8)?.parse().ok()?,
            pattern: p.get(9)?.to_string(),
        })
    }
}

fn poll_addr(kind: usize) -> IpAddr {
    match kind {
        0 => IpAddr::V4(OWN4),
        1 => IpAddr::V6(own6()),
        _ => IpAddr::V4(OTHER4),
    }
}

fn new_manager(local: u8, ips: &[IpAddr]) -> (NtpManager, BloomFilter) {
    // the manager draws a random server id; make sure it is not (by a 2^-100 accident)
    // covered by the harness's foreign filter
    loop {
        let mgr = NtpManager::new(
            SynchronizationConfig {
                local_stratum: local,
                ..SynchronizationConfig::default()
            },
            ips.to_vec().into(),
        );
        let mine = mgr.update_used_sources(std::iter::empty()).bloom_filter;
        let foreign = filter_of(&[OTHER_IDX]);
        let mut both = foreign;
        both.add(&mine);
        if both != foreign {
            return (mgr, mine);
        }
    }
}

fn run_e(ctx: &Ctx, st: &St, c: &ECase) -> String {
    let trace = c.trace();
    let mut obs = String::new();
    let ips = ip_list(c.ipl);
    let own = local_ids(c.ipl);
    let (mgr, mine) = new_manager(c.local, &ips);
    let addr = poll_addr(c.addr);
    let source_is_own = own.contains(&ref_id_of(addr));
    let version = match c.ver {
        4 => ProtocolVersion::V4,
        5 => ProtocolVersion::V5,
        _ => ProtocolVersion::v4_upgrading_to_v5_with_default_tries(),
    };
    let id = ClockId::new();
    let (src, _) = mgr.new_source(
        SocketAddr::new(addr, 123),
        SourceConfig::default(),
        version,
        RecCtl::default(),
        None,
        id,
    );
    let mut link = Link {
        src,
        id,
        client_ip: ips.first().copied().unwrap_or(IpAddr::V4(OWN4)),
        server_ip: addr,
        model: Model::new(),
    };
    let mut srv = ScriptedServer::new();
    let bloom = match c.bloom {
        0 => BloomFilter::new(),
        1 => mine,
        2 => filter_of(&[OTHER_IDX]),
        _ => {
            let mut f = filter_of(&[OTHER_IDX]);
            f.add(&mine);
            f
        }
    };
    let bloom_reports_us = c.bloom == 1 || c.bloom == 3;
    // schedule: optional first phase (two answered polls), then the pattern under the case's advertisement
    let mut phases: Vec<((u8, [u8; 4]), String)> = Vec::new();
    match c.first {
        1 => phases.push(((2, id_kind(2)), "aa".to_string())),
        2 => phases.push((
            (3, own.first().copied().unwrap_or(id_kind(0))),
            "aa".to_string(),
        )),
        _ => {}
    }
    let warm = if c.ver != 4 {
        "a".repeat(33)
    } else {
        String::new()
    };
    phases.push(((c.stratum, id_kind(c.refk)), format!("{warm}{}", c.pattern)));
    let mut ended = "end";
    let mut npolls = 0usize;
    'outer: for (adv, pat) in phases {
        srv.advertise(adv.0, adv.1, bloom);
        for ch in pat.chars() {
            st.steps.fetch_add(1, Ordering::Relaxed);
            npolls += 1;
            let step = exchange(st, &mut link, &mut srv.server, adv, ch == 'a');
            match step {
                Step::Reset => {
                    st.resets.fetch_add(1, Ordering::Relaxed);
                    ended = "reset";
                    break 'outer;
                }
                Step::Demobilize => {
                    ended = "demobilize";
                    break 'outer;
                }
                _ => {}
            }
            let m = link.model.clone();
            let ref_is_own = own.contains(&m.refid);
            let full_reports = bloom_reports_us && m.bloom_full;
            let mut v = oracle(
                m.stratum,
                c.local,
                m.reach != 0,
                source_is_own,
                ref_is_own,
                full_reports,
            );
            if bloom_reports_us && !m.bloom_full && m.chunks > 0 && v == Verdict::MustAccept {
                v = Verdict::Either; // partially transferred filter
            }
            let Some(got) = last_usable(&link) else {
                continue;
            };
            st.tally(v, got);
            obs.push(if got { 'U' } else { 'u' });
            verdict_check(
                ctx,
                v,
                got,
                &format!(
                    "source {addr} (v{}) after {} polls, {} valid answers: last advertised stratum {} refid {:02x?}, reach {:#04x}, local stratum {}, local ids {:02x?}, bloom transferred {} reporting us {}",
                    c.ver,
                    npolls,
                    m.valid_answers,
                    m.stratum,
                    m.refid,
                    m.reach,
                    c.local,
                    own,
                    m.bloom_full,
                    bloom_reports_us
                ),
                &trace,
            );
            // Bloom transfer itself (C34 is checked separately; here only its effect)
            let view = ps::view(&link.src);
            if m.bloom_full {
                st.bloom_transfers.fetch_add(1, Ordering::Relaxed);
                if view.bloom_full.as_ref() != Some(bloom.as_bytes()) {
                    ctx.violation("C33:bloom-not-transferred", format!("after {} answered NTPv5 polls the source does not hold the server's Bloom filter", m.chunks), &trace);
                }
            }
            // the controller may only use usable sources; when it does, check the advertisement
            if got {
                st.snapshots.fetch_add(1, Ordering::Relaxed);
                let snap = mgr.update_used_sources(std::iter::once((id, SourceType::Ntp)));
                let me = ServerId::default();
                let _ = me;
                let want_id = ref_id_of(addr);
                if snap.stratum as u16 != m.stratum as u16 + 1 {
                    ctx.violation("C33:advertised-stratum", format!("daemon advertises stratum {} while its only (primary) source reported stratum {}", snap.stratum, m.stratum), &trace);
                }
                if snap.reference_id.to_bytes() != want_id {
                    ctx.violation("C33:advertised-refid", format!("daemon advertises reference id {:02x?}, primary source {addr} has id {:02x?}", snap.reference_id.to_bytes(), want_id), &trace);
                }
                let mut u = snap.bloom_filter;
                u.add(&mine);
                if u != snap.bloom_filter {
                    ctx.violation(
                        "C33:advertised-bloom-missing-id",
                        "advertised Bloom filter does not contain the own server id",
                        &trace,
                    );
                }
                if m.bloom_full {
                    let mut u = snap.bloom_filter;
                    u.add(&bloom);
                    if u != snap.bloom_filter {
                        ctx.violation(
                            "C33:advertised-bloom-missing-id",
                            "advertised Bloom filter does not include the used source's filter",
                            &trace,
                        );
                    }
                }
                obs.push_str(&format!(
                    "[{}:{:02x?}]",
                    snap.stratum,
                    snap.reference_id.to_bytes()
                ));
                // and with no used source the local stratum is advertised again
                let none = mgr.update_used_sources(std::iter::empty());
                if none.stratum != c.local {
                    ctx.violation(
                        "C33:advertised-stratum",
                        format!(
                            "no used source: advertised stratum {} != local stratum {}",
                            none.stratum, c.local
                        ),
                        &trace,
                    );
                }
            }
        }
    }
    format!("{obs} {ended}")
}

fn e_patterns(ctx: &Ctx) -> Vec<String> {
    let mut v = vec![
        "aasssssssss".to_string(),
        "ssss".to_string(),
        "asasaaasssssssss".to_string(),
    ];
    if !ctx.quick() {
        for bits in 0..(1u32 << 10) {
            v.push(
                (0..10)
                    .map(|i| if bits >> i & 1 == 1 { 'a' } else { 's' })
                    .collect(),
            );
        }
    }
    v
}

fn part_e(ctx: &Ctx, st: &St) {
    let pats = e_patterns(ctx);
    let mut cases: Vec<ECase> = Vec::new();
    // NTPv4: reference ids matter
    for local in [1u8, 2, 3, 16] {
        for addr in 0..3 {
            for ipl in 0..3 {
                for first in 0..3 {
                    for stratum in 0..=17u8 {
                        for refk in 0..REF_KINDS {
                            // all 2^10 answer patterns only without a first phase
                            for p in pats.iter().take(if first == 0 { pats.len() } else { 3 }) {
                                cases.push(ECase {
                                    ver: 4,
                                    local,
                                    addr,
                                    ipl,
                                    first,
                                    stratum,
                                    refk,
                                    bloom: 0,
                                    pattern: p.clone(),
                                });
                            }
                        }
                    }
                }
            }
        }
    }
    let v4 = cases.len();
    // NTPv5: Bloom filters matter (32 chunks of 16 bytes must arrive first)
    let pats5: Vec<String> = if ctx.quick() {
        pats.clone()
    } else {
        pats.iter()
            .take(3)
            .cloned()
            .chain(pats.iter().skip(3).step_by(37).cloned())
            .collect()
    };
    for local in [2u8, 16] {
        for addr in 0..3 {
            for ipl in [0usize, 2] {
                for first in 0..2 {
                    for stratum in 0..=17u8 {
                        for bloom in 0..4 {
                            for p in &pats5 {
                                cases.push(ECase {
                                    ver: 5,
                                    local,
                                    addr,
                                    ipl,
                                    first,
                                    stratum,
                                    refk: 2,
                                    bloom,
                                    pattern: p.clone(),
                                });
                            }
                        }
                    }
                }
            }
        }
    }
    // upgrade path: first answers are NTPv4 (reference id visible), later ones NTPv5
    for stratum in [1u8, 2, 3, 16] {
        for refk in [0usize, 2] {
            for bloom in 0..4 {
                for p in pats.iter().take(3) {
                    cases.push(ECase {
                        ver: 45,
                        local: 16,
                        addr: 2,
                        ipl: 0,
                        first: 0,
                        stratum,
                        refk,
                        bloom,
                        pattern: p.clone(),
                    });
                }
            }
        }
    }
    ctx.set("e_cases_v4", v4 as u64);
    ctx.set("e_cases_v5_and_upgrade", (cases.len() - v4) as u64);
    let n = cases.len() as u64;
    common::par_for_with(
        n,
        16,
        || {
            tokio::runtime::Builder::new_current_thread()
                .enable_time()
                .start_paused(true)
                .build()
                .expect("runtime")
        },
        |rt, i| {
            let c = &cases[i as usize];
            let o = rt.block_on(async { run_e(ctx, st, c) });
            ctx.distinct(common::hash_of(&("E", c.trace())));
            if i % 40_001 == 11 {
                ctx.sample(format!("{} -> {}", c.trace(), o));
            }
        },
    );
}

// ---------------------------------------------------------------------------------
// D. two daemons: B synchronises to A, A polls B
// ---------------------------------------------------------------------------------

#[derive(Clone, Debug)]
struct DCase {
    ver: u8,    // 4 or 5
    s_up: u8,   // stratum of A's upstream (0 = A has a PPS reference clock)
    fam: usize, // A's address family as seen by B: 0 v4, 1 v6
    ipl: usize, // A's local address list: 0 = [addrA], 1 = [SECOND4, addrA]
}

impl DCase {
    fn trace(&self) -> String {
        format!("D;{};{};{};{}", self.ver, self.s_up, self.fam, self.ipl)
    }
}

fn run_d(ctx: &Ctx, st: &St, c: &DCase) -> String {
    let trace = c.trace();
    let mut obs = String::new();
    let addr_a: IpAddr = if c.fam == 0 {
        IpAddr::V4(OWN4)
    } else {
        IpAddr::V6(own6())
    };
    let addr_b = IpAddr::V4(OTHER4);
    let ips_a: Vec<IpAddr> = if c.ipl == 0 {
        vec![addr_a]
    } else {
        vec![IpAddr::V4(SECOND4), addr_a]
    };
    let own_a: Vec<[u8; 4]> = ips_a.iter().map(|i| ref_id_of(*i)).collect();
    let (mgr_a, mine_a) = new_manager(16, &ips_a);
    let (mgr_b, mine_b) = new_manager(16, &[addr_b]);
    let mut server_a = mgr_a.new_server(
        open_server_config(),
        FixedClock,
        KeySetProvider::new(1).get(),
    );
    let mut server_b = mgr_b.new_server(
        open_server_config(),
        FixedClock,
        KeySetProvider::new(1).get(),
    );
    let pv = if c.ver == 5 {
        ProtocolVersion::V5
    } else {
        ProtocolVersion::V4
    };
    let n = if c.ver == 5 { 33 } else { 2 };
    // 1. A gets time from upstream
    let up_id = ClockId::new();
    let a_used: Vec<(ClockId, SourceType)>;
    let a_stratum: u8;
    if c.s_up == 0 {
        a_used = vec![(up_id, SourceType::Pps)];
        a_stratum = 1;
    } else {
        let mut up = ScriptedServer::new();
        up.advertise(c.s_up, *b"GPS\0", filter_of(&[THIRD_IDX]));
        let (src, _) = mgr_a.new_source(
            SocketAddr::new(IpAddr::V4(UP4), 123),
            SourceConfig::default(),
            pv,
            RecCtl::default(),
            None,
            up_id,
        );
        let mut l = Link {
            src,
            id: up_id,
            client_ip: addr_a,
            server_ip: IpAddr::V4(UP4),
            model: Model::new(),
        };
        for _ in 0..n {
            exchange(st, &mut l, &mut up.server, (c.s_up, *b"GPS\0"), true);
        }
        let got = last_usable(&l).unwrap_or(false);
        let v = oracle(c.s_up, 16, true, false, false, false);
        st.tally(v, got);
        verdict_check(ctx, v, got, "A's upstream source", &trace);
        a_used = vec![(up_id, SourceType::Ntp)];
        a_stratum = c.s_up + 1;
    }
    let snap_a = mgr_a.update_used_sources(a_used.iter().copied());
    obs.push_str(&format!(
        "A={}:{:02x?} ",
        snap_a.stratum,
        snap_a.reference_id.to_bytes()
    ));
    if snap_a.stratum != a_stratum {
        ctx.violation(
            "C33:advertised-stratum",
            format!(
                "daemon A advertises stratum {} with a primary source at stratum {}",
                snap_a.stratum,
                a_stratum - 1
            ),
            &trace,
        );
    }
    // 2. B polls A and uses it
    let ba_id = ClockId::new();
    let (src, _) = mgr_b.new_source(
        SocketAddr::new(addr_a, 123),
        SourceConfig::default(),
        pv,
        RecCtl::default(),
        None,
        ba_id,
    );
    let mut b_to_a = Link {
        src,
        id: ba_id,
        client_ip: addr_b,
        server_ip: addr_a,
        model: Model::new(),
    };
    for _ in 0..n {
        exchange(
            st,
            &mut b_to_a,
            &mut server_a,
            (snap_a.stratum, snap_a.reference_id.to_bytes()),
            true,
        );
    }
    let got = last_usable(&b_to_a).unwrap_or(false);
    let v = oracle(snap_a.stratum, 16, true, false, false, false);
    st.tally(v, got);
    verdict_check(
        ctx,
        v,
        got,
        "B's source A (A does not synchronise to B yet)",
        &trace,
    );
    let snap_b = mgr_b.update_used_sources(std::iter::once((ba_id, SourceType::Ntp)));
    obs.push_str(&format!(
        "B={}:{:02x?} ",
        snap_b.stratum,
        snap_b.reference_id.to_bytes()
    ));
    if snap_b.stratum as u16 != snap_a.stratum as u16 + 1 {
        ctx.violation(
            "C33:advertised-stratum",
            format!(
                "daemon B advertises stratum {} while its primary source A advertises {}",
                snap_b.stratum, snap_a.stratum
            ),
            &trace,
        );
    }
    if snap_b.reference_id.to_bytes() != ref_id_of(addr_a) {
        ctx.violation("C33:advertised-refid", format!("daemon B advertises reference id {:02x?}, its primary source A is {addr_a} = {:02x?}", snap_b.reference_id.to_bytes(), ref_id_of(addr_a)), &trace);
    }
    st.snapshots.fetch_add(2, Ordering::Relaxed);
    // 3. A polls B, which synchronises to A: must never become usable once B has reported it
    let ab_id = ClockId::new();
    let (src, _) = mgr_a.new_source(
        SocketAddr::new(addr_b, 123),
        SourceConfig::default(),
        pv,
        RecCtl::default(),
        None,
        ab_id,
    );
    let mut a_to_b = Link {
        src,
        id: ab_id,
        client_ip: addr_a,
        server_ip: addr_b,
        model: Model::new(),
    };
    for k in 0..n + 2 {
        exchange(
            st,
            &mut a_to_b,
            &mut server_b,
            (snap_b.stratum, snap_b.reference_id.to_bytes()),
            true,
        );
        let m = a_to_b.model.clone();
        let Some(got) = last_usable(&a_to_b) else {
            continue;
        };
        // B reports that it synchronises to A: by reference id (v4), by Bloom filter (v5, once complete)
        let ref_is_own = own_a.contains(&m.refid);
        let mut u = snap_b.bloom_filter;
        u.add(&mine_a);
        let b_filter_has_a = u == snap_b.bloom_filter;
        let mut v = oracle(
            m.stratum,
            16,
            m.reach != 0,
            false,
            ref_is_own,
            c.ver == 5 && m.bloom_full && b_filter_has_a,
        );
        if c.ver == 5 && !m.bloom_full && v == Verdict::MustAccept {
            v = Verdict::Either;
        }
        if c.ver == 5 && m.bloom_full && !b_filter_has_a {
            ctx.violation(
                "C33:advertised-bloom-missing-id",
                "B uses A but B's advertised Bloom filter does not contain A's server id",
                &trace,
            );
        }
        st.tally(v, got);
        obs.push(if got { 'U' } else { 'u' });
        verdict_check(
            ctx,
            v,
            got,
            &format!(
                "daemon A ({addr_a}, local ids {own_a:02x?}) polls B which synchronises to A and advertises stratum {} refid {:02x?} (poll {k}, v{})",
                m.stratum, m.refid, c.ver
            ),
            &trace,
        );
    }
    let _ = mine_b;
    obs
}

fn part_d(ctx: &Ctx, st: &St) {
    let mut cases = Vec::new();
    for ver in [4u8, 5] {
        for s_up in [0u8, 1, 2, 5, 13] {
            for fam in 0..2 {
                for ipl in 0..2 {
                    cases.push(DCase {
                        ver,
                        s_up,
                        fam,
                        ipl,
                    });
                }
            }
        }
    }
    ctx.set("d_cases", cases.len() as u64);
    let n = cases.len() as u64;
    common::par_for_with(
        n,
        1,
        || {
            tokio::runtime::Builder::new_current_thread()
                .enable_time()
                .start_paused(true)
                .build()
                .expect("runtime")
        },
        |rt, i| {
            let c = &cases[i as usize];
            let o = rt.block_on(async { run_d(ctx, st, c) });
            ctx.distinct(common::hash_of(&("D", c.trace())));
            if i % 9 == 0 {
                ctx.sample(format!("{} -> {}", c.trace(), o));
            }
        },
    );
}

// ---------------------------------------------------------------------------------

// ---------------------------------------------------------------------------------
// L. publication of the advertisement under lock contention
// ---------------------------------------------------------------------------------

/// A server task holds the READ side of the shared `server_info` while the used sources
/// change. Schedule: reader thread locks and signals; updater thread calls
/// `update_used_sources`; the reader releases once the call has finished or has been seen
/// blocked for 50 ms. The verdict is taken after both finished, so it does not depend on
/// timing: whatever the interleaving, a server must then read the new advertisement.
#[derive(Clone, Debug)]
struct LCase {
    ver: u8,     // 4 (no Bloom filter) or 5 (Bloom filter transferred)
    stratum: u8, // stratum of the NTP source
    ext: u8,     // 0 only the NTP source, 1 NTP then PPS, 2 PPS then NTP, 3 NTP then SOCK
}

impl LCase {
    fn trace(&self) -> String {
        format!("L;{};{};{}", self.ver, self.stratum, self.ext)
    }
}

/// Returns (snapshot returned by the call, was the call seen blocked) or None on dead-man.
fn contended_update(mgr: &Arc<NtpManager>, used: Vec<(ClockId, SourceType)>) -> Option<(NtpSnapshot, bool)> {
    use std::sync::atomic::AtomicBool;
    use std::sync::mpsc;
    use std::time::{Duration, Instant};
    let si = crate::system::verif_probe::gk::server_info(mgr);
    let done = Arc::new(AtomicBool::new(false));
    let (tx_ready, rx_ready) = mpsc::channel::<()>();
    let (tx_blocked, rx_blocked) = mpsc::channel::<bool>();
    let (tx_res, rx_res) = mpsc::channel::<NtpSnapshot>();
    let done_r = done.clone();
    std::thread::spawn(move || {
        let guard = si.read().unwrap();
        let _ = tx_ready.send(());
        let t0 = Instant::now();
        while !done_r.load(Ordering::SeqCst) && t0.elapsed() < Duration::from_millis(50) {
            std::thread::sleep(Duration::from_millis(1));
        }
        let blocked = !done_r.load(Ordering::SeqCst);
        drop(guard);
        let _ = tx_blocked.send(blocked);
    });
    rx_ready.recv_timeout(Duration::from_secs(10)).ok()?;
    let mgr_u = mgr.clone();
    std::thread::spawn(move || {
        let snap = mgr_u.update_used_sources(used.into_iter());
        done.store(true, Ordering::SeqCst);
        let _ = tx_res.send(snap);
    });
    let snap = rx_res.recv_timeout(Duration::from_secs(20)).ok()?;
    let blocked = rx_blocked.recv_timeout(Duration::from_secs(20)).ok()?;
    Some((snap, blocked))
}

fn run_l(ctx: &Ctx, st: &St, c: &LCase) -> String {
    let trace = c.trace();
    let ips = ip_list(0);
    let (mgr, mine) = new_manager(16, &ips);
    let mgr = Arc::new(mgr);
    let addr = IpAddr::V4(OTHER4);
    let id = ClockId::new();
    let bloom = if c.ver == 5 { filter_of(&[OTHER_IDX]) } else { BloomFilter::new() };
    // the used NTP source reports (real source polled against a real server)
    let link = super::block_on_paused(async {
        let pv = if c.ver == 5 { ProtocolVersion::V5 } else { ProtocolVersion::V4 };
        let (src, _) = mgr.new_source(SocketAddr::new(addr, 123), SourceConfig::default(), pv, RecCtl::default(), None, id);
        let mut link = Link { src, id, client_ip: IpAddr::V4(OWN4), server_ip: addr, model: Model::new() };
        let mut srv = ScriptedServer::new();
        srv.advertise(c.stratum, id_kind(3), bloom);
        for _ in 0..(if c.ver == 5 { 33 } else { 2 }) {
            exchange(st, &mut link, &mut srv.server, (c.stratum, id_kind(3)), true);
        }
        link
    });
    let ext_id = ClockId::new();
    let used: Vec<(ClockId, SourceType)> = match c.ext {
        0 => vec![(id, SourceType::Ntp)],
        1 => vec![(id, SourceType::Ntp), (ext_id, SourceType::Pps)],
        2 => vec![(ext_id, SourceType::Pps), (id, SourceType::Ntp)],
        _ => vec![(id, SourceType::Ntp), (ext_id, SourceType::Sock)],
    };
    let primary: (u8, [u8; 4]) = if c.ext == 2 { (0, *b"PPS\0") } else { (c.stratum, ref_id_of(addr)) };
    let mut want_bloom = mine;
    if c.ver == 5 {
        want_bloom.add(&bloom);
    }
    let si = crate::system::verif_probe::gk::server_info(&mgr);
    let mut obs = String::new();
    // phase 1: first publication (before: default stratum 16 / XNON / empty filter); phase 2: sources dropped again
    for (phase, set, want) in [(1, used.clone(), Some(primary)), (2, Vec::new(), None)] {
        st.evals.fetch_add(1, Ordering::Relaxed);
        st.snapshots.fetch_add(1, Ordering::Relaxed);
        let Some((returned, blocked)) = contended_update(&mgr, set) else {
            ctx.cap_hit(&format!("{trace}: dead-man timer fired in the lock schedule (phase {phase}); no verdict for this case"));
            return obs;
        };
        let served = si.read().unwrap().ntp_snapshot;
        let observed = mgr.observe();
        obs.push_str(&format!("p{phase}:{}:{:02x?}/{} ", served.stratum, served.reference_id.to_bytes(), if blocked { "blocked" } else { "free" }));
        for (who, snap) in [("returned by update_used_sources", &returned), ("read by a server from the shared server_info", &served), ("returned by observe()", &observed)] {
            let (ws, wid, wb) = match want {
                Some((ps_, pid)) => (ps_ + 1, Some(pid), want_bloom),
                None => (16, None, mine),
            };
            let ok = snap.stratum == ws && wid.map_or(true, |i| snap.reference_id.to_bytes() == i) && snap.bloom_filter == wb;
            if !ok {
                ctx.violation(
                    "C33:advertisement-not-published",
                    format!(
                        "used sources changed while a server held the read lock of server_info (phase {phase}, update call {}): the snapshot {who} is stratum {} refid {:02x?} ({} filter bits), expected stratum {ws} refid {:02x?} ({} filter bits)",
                        if blocked { "blocked until release" } else { "did not wait" },
                        snap.stratum,
                        snap.reference_id.to_bytes(),
                        snap.bloom_filter.count_ones(),
                        wid,
                        wb.count_ones()
                    ),
                    &trace,
                );
            }
        }
    }
    drop(link);
    obs
}

fn l_cases() -> Vec<LCase> {
    let mut v = Vec::new();
    for stratum in [1u8, 2, 15] {
        v.push(LCase { ver: 4, stratum, ext: 0 });
    }
    for ext in 1..=3u8 {
        v.push(LCase { ver: 4, stratum: 2, ext });
    }
    v.push(LCase { ver: 5, stratum: 2, ext: 0 });
    v.push(LCase { ver: 5, stratum: 1, ext: 3 });
    v
}

fn part_l(ctx: &Ctx, st: &St) {
    let cases = l_cases();
    ctx.set("l_cases", cases.len() as u64);
    common::par_for(cases.len() as u64, 1, |i| {
        let c = &cases[i as usize];
        let o = run_l(ctx, st, c);
        ctx.distinct(common::hash_of(&("L", c.trace())));
        if i % 3 == 0 {
            ctx.sample(format!("{} -> {}", c.trace(), o));
        }
    });
}

fn preliminary(ctx: &Ctx) {
    // the crate's reference-id derivation against the RFC 5905 definition
    for ip in [
        IpAddr::V4(OWN4),
        IpAddr::V4(OTHER4),
        IpAddr::V4(SECOND4),
        IpAddr::V6(own6()),
        IpAddr::V6(other6()),
        "2001:db8:85a3::8a2e:370:7334".parse().unwrap(),
    ] {
        ctx.inc("evaluations_refid");
        let got = ReferenceId::from_ip(ip).to_bytes();
        if got != ref_id_of(ip) {
            ctx.violation(
                "C33:refid-from-ip",
                format!(
                    "ReferenceId::from_ip({ip}) = {got:02x?}, RFC 5905 says {:02x?}",
                    ref_id_of(ip)
                ),
                format!("R;{ip}"),
            );
        }
    }
}

fn replay(ctx: &Ctx, trace: &str) -> String {
    let st = St::default();
    let p: Vec<&str> = trace.split(';').collect();
    let num = |i: usize| -> usize { p.get(i).and_then(|s| s.parse().ok()).unwrap_or(0) };
    match p[0] {
        "A" => {
            let blooms: Vec<_> = (0..BLOOM_KINDS).map(bloom_kind).collect();
            let c = ACase {
                stratum: num(1) as u8,
                local: num(2) as u8,
                reach: num(3) as u8,
                src: num(4),
                refk: num(5),
                ipl: num(6),
                bloom: num(7),
            };
            run_a(ctx, &st, c, &blooms)
        }
        "B" => {
            let alpha = alphabet();
            let w: Vec<usize> = p
                .get(2)
                .map(|s| s.split(',').filter_map(|x| x.parse().ok()).collect())
                .unwrap_or_default();
            run_b(ctx, &st, num(1) as u8, &w, &alpha)
        }
        "E" => match ECase::parse(&p) {
            Some(c) => super::block_on_paused(async { run_e(ctx, &st, &c) }),
            None => "bad trace".to_string(),
        },
        "D" => {
            let c = DCase {
                ver: num(1) as u8,
                s_up: num(2) as u8,
                fam: num(3),
                ipl: num(4),
            };
            super::block_on_paused(async { run_d(ctx, &st, &c) })
        }
        "L" => {
            let c = LCase { ver: num(1) as u8, stratum: num(2) as u8, ext: num(3) as u8 };
            run_l(ctx, &st, &c)
        }
        "R" => {
            preliminary(ctx);
            "refid".to_string()
        }
        _ => "unknown trace".to_string(),
    }
}

#[test]
fn check() {
    let ctx = Ctx::new("C33");
    if let Some(t) = common::replay_trace() {
        let a = replay(&ctx, &t);
        let b = replay(&ctx, &t);
        common::report_replay("C33", &a, &b, ctx.violation_count() > 0);
        return;
    }
    ctx.rule(
        "A: accept_synchronization over stratum {0..17,254,255} x local stratum {0,1,2,3,15,16,17,255} x reach (9 values quick / all 256) x source id {own v4, own v6 hash, foreign v4, foreign v6 hash} x \
         reference id {the same 4, XNON, second local v4} x local address list {v4, v6, v4+v6, 3 addresses, empty} x Bloom {none, empty, {us}, {other}, {us,other}, near miss, all ones}. \
         B: from_used_sources over every sequence of <=3 sources from 39 symbols x local stratum {1,2,16}. \
         E: real NtpManager + NtpSource polled against a real Server: version {v4, v5, v4->v5 upgrade} x local stratum x polled address {own v4, own v6, foreign} x address list x first phase {none, good, loop} x \
         advertised stratum 0..17 x reference id (6) / Bloom (4) x answer patterns (3 quick / all 2^10 + 3 thorough), checked after every poll. \
         L: 8 used-source sets (NTP stratum 1/2/15, NTP + PPS/SOCK in both orders, with/without Bloom filter) published by update_used_sources while a reader thread holds server_info (release after the call finished or was blocked 50 ms), first publication and withdrawal. D: two full daemons (B synchronises to A, A polls B) x version x upstream stratum {PPS,1,2,5,13} x address family x address list. \
         Distinct & non-trivial = a distinct E/D scenario or B word; A cases are counted per deciding condition.",
    );
    ctx.assume("reference ids follow RFC 5905 (IPv4 address / first 4 octets of MD5 of the IPv6 address; digests precomputed with python hashlib)");
    ctx.assume("a source is unreachable when none of its last 8 polls got a valid time answer (RFC 5905 reach register); a valid time answer has stratum 1..=16");
    ctx.assume("own address at stratum 1, stratum 0 with a local reference id, and a partially transferred Bloom filter are accepted either way");
    let st = St::default();
    preliminary(&ctx);
    // the canonical minimal case first (so it is among the kept traces): a stratum-2 source, reachable,
    // foreign address, whose reference id is this daemon's only (IPv4) address
    {
        let blooms: Vec<_> = (0..BLOOM_KINDS).map(bloom_kind).collect();
        let c = ACase {
            stratum: 2,
            local: 16,
            reach: 1,
            src: 2,
            refk: 0,
            ipl: 0,
            bloom: 0,
        };
        ctx.sample(format!("{} -> {}", c.trace(), run_a(&ctx, &st, c, &blooms)));
    }
    let t0 = ctx.elapsed_s();
    part_l(&ctx, &st);
    part_d(&ctx, &st);
    let t_d = ctx.elapsed_s();
    part_a(&ctx, &st);
    let t_a = ctx.elapsed_s();
    part_b(&ctx, &st);
    let t_b = ctx.elapsed_s();
    part_e(&ctx, &st);
    ctx.note(
        "timing",
        &format!(
            "D {:.1}s, A {:.1}s, B {:.1}s, E {:.1}s",
            t_d - t0,
            t_a - t_d,
            t_b - t_a,
            ctx.elapsed_s() - t_b
        ),
    );
    ctx.set("evaluations", st.evals.load(Ordering::Relaxed));
    ctx.set("transitions", st.polls.load(Ordering::Relaxed));
    ctx.set("states", st.steps.load(Ordering::Relaxed));
    ctx.set("outcome_usable", st.accepted.load(Ordering::Relaxed));
    ctx.set("outcome_not_usable", st.rejected.load(Ordering::Relaxed));
    ctx.set(
        "oracle_must_reject_stratum",
        st.must_reject_stratum.load(Ordering::Relaxed),
    );
    ctx.set(
        "oracle_must_reject_unreachable",
        st.must_reject_unreachable.load(Ordering::Relaxed),
    );
    ctx.set(
        "oracle_must_reject_bloom_loop",
        st.must_reject_bloom.load(Ordering::Relaxed),
    );
    ctx.set(
        "oracle_must_reject_refid_loop",
        st.must_reject_refid.load(Ordering::Relaxed),
    );
    ctx.set(
        "oracle_must_reject_self",
        st.must_reject_self.load(Ordering::Relaxed),
    );
    ctx.set("oracle_must_accept", st.must_accept.load(Ordering::Relaxed));
    ctx.set("oracle_either", st.either.load(Ordering::Relaxed));
    ctx.set("e2e_resets", st.resets.load(Ordering::Relaxed));
    ctx.set(
        "advertisements_checked",
        st.snapshots.load(Ordering::Relaxed),
    );
    ctx.set(
        "e2e_steps_with_complete_bloom_transfer",
        st.bloom_transfers.load(Ordering::Relaxed),
    );
    ctx.exhaustive(true);
    ctx.finish();
}
