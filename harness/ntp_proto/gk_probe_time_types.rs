//! gk probe for `time_types` (C32): raw constructors / readers for the private integer
//! fields. Read / construct only.
use super::super::{NtpDuration, NtpTimestamp, PollInterval};

pub(crate) fn dur(v: i64) -> NtpDuration {
    NtpDuration { duration: v }
}
pub(crate) fn dur_raw(d: NtpDuration) -> i64 {
    d.duration
}
pub(crate) fn ts(v: u64) -> NtpTimestamp {
    NtpTimestamp { timestamp: v }
}
pub(crate) fn ts_raw(t: NtpTimestamp) -> u64 {
    t.timestamp
}
pub(crate) fn poll(v: i8) -> PollInterval {
    PollInterval(v)
}
pub(crate) fn poll_raw(p: PollInterval) -> i8 {
    p.0
}
