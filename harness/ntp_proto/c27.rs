//! C27 — Server cookie keys persist safely across restarts and crashes (ntp-proto part).
//!
//! Engine E-CRASH (crash-point / fault enumeration) against the real
//! `KeySetProvider::store` / `KeySetProvider::load`.
//!
//! The daemon stores with `OpenOptions::create(true).truncate(true).write(true)` followed by
//! `provider.store(&mut file)` (ntpd/src/daemon/nts_key_provider.rs; checked on the real file
//! system by the ntpd part of this check), i.e. truncate-then-write: after a crash the file is
//! a *prefix* of the byte stream `store` emits. So for every key set S out of a family built
//! with the real provider (history h = 0..=3 (thorough 0..=5), fresh or with ids wrapping at
//! 2^32, 0..=h+2 rotations => 1..=4 (6) keys, cookies of both algorithms issued at every rotation):
//!
//!  * the byte stream of `store` is recorded by a logging `Write`; it must not depend on how
//!    the writer splits the data (1 / 3 / 64 bytes per call) and a writer failing after k
//!    bytes (every k) must leave exactly the k-byte prefix and make `store` return `Err`;
//!  * EVERY prefix (= every truncation) of the stream, through readers that hand out 1, 7 or
//!    all bytes per call, goes into the real `load`: `Err` or exactly S (judged on the probe
//!    view: keys, id offset, primary); the full stream must give exactly S;
//!  * every header field (time, id offset, primary, key count) is set to every value of
//!    {0, 1, n-1, n, n+1, 2^31, 2^32-1} (time also 2^63-1, 2^63, 2^64-1): all single-field
//!    faults, all pairs and triples (thorough: all quadruples too);
//!  * every bit of every byte of the file (20 header bytes and 64 n key bytes) is flipped.
//!
//! Every key set that `load` returns is USED the way the daemon uses it, with panics caught:
//! a cookie of each algorithm is issued and decoded, all pre-crash cookies are decoded, the
//! provider is rotated, again a cookie of each algorithm is issued and decoded.
//!
//! Oracle (statement): crash prefix => rejected or exactly the stored set; healthy file =>
//! exactly the stored set, which decodes every pre-crash cookie that was still valid to its
//! own session keys and rejects the expired ones; corrupted file => rejected, or a set that
//! issues cookies that decode back, never decodes a cookie to other keys, and never panics
//! (a panic = abort of the shipped daemon, which is built with panic=abort).
use std::io::{Read, Write};

use super::c26::{Dec, Issued, decode_vs, field, key_material, mk_cookie};
use super::common::{self, Ctx};
use crate::keyset::KeySetProvider;
use crate::keyset::verif_probe::gi as probe;
use crate::packet::{AesSivCmac512, Cipher};

// ---------------------------------------------------------------------------------
// environment: writers and readers
// ---------------------------------------------------------------------------------

/// Records the byte stream; accepts at most `per` bytes per call; fails (hard error) once
/// `fail_at` bytes were taken.
struct LogWriter {
    bytes: Vec<u8>,
    calls: u64,
    per: usize,
    fail_at: Option<usize>,
}

impl LogWriter {
    fn new(per: usize, fail_at: Option<usize>) -> Self {
        LogWriter {
            bytes: Vec::new(),
            calls: 0,
            per,
            fail_at,
        }
    }
}

impl Write for LogWriter {
    fn write(&mut self, buf: &[u8]) -> std::io::Result<usize> {
        self.calls += 1;
        let mut n = buf.len().min(self.per);
        if let Some(f) = self.fail_at {
            let room = f.saturating_sub(self.bytes.len());
            if room == 0 && !buf.is_empty() {
                return Err(std::io::Error::other(
                    "verif: injected write failure (disk full / crash)",
                ));
            }
            n = n.min(room);
        }
        self.bytes.extend_from_slice(&buf[..n]);
        Ok(n)
    }
    fn flush(&mut self) -> std::io::Result<()> {
        Ok(())
    }
}

/// Hands out at most `chunk` bytes per `read` call.
struct Chunked<'a> {
    data: &'a [u8],
    pos: usize,
    chunk: usize,
}

impl Read for Chunked<'_> {
    fn read(&mut self, buf: &mut [u8]) -> std::io::Result<usize> {
        let n = buf.len().min(self.chunk).min(self.data.len() - self.pos);
        buf[..n].copy_from_slice(&self.data[self.pos..self.pos + n]);
        self.pos += n;
        Ok(n)
    }
}

// ---------------------------------------------------------------------------------
// the family of stored key sets
// ---------------------------------------------------------------------------------

#[derive(Clone, Copy, Debug, PartialEq, Eq, Hash)]
struct SetSpec {
    h: usize,
    start: Option<u32>,
    rot: usize,
}

impl SetSpec {
    fn tag(&self) -> String {
        match self.start {
            None => format!("h={};start=new;rot={}", self.h, self.rot),
            Some(o) => format!("h={};start={};rot={}", self.h, o, self.rot),
        }
    }
    fn parse(parts: &[&str]) -> Option<SetSpec> {
        Some(SetSpec {
            h: field(parts, "h")?.parse().ok()?,
            start: match field(parts, "start")? {
                "new" => None,
                s => Some(s.parse().ok()?),
            },
            rot: field(parts, "rot")?.parse().ok()?,
        })
    }
}

struct Built {
    spec: SetSpec,
    prov: KeySetProvider,
    view: probe::View,
    /// cookies issued before the store (both algorithms at every rotation count)
    pre: Vec<Issued>,
    stream: Vec<u8>,
}

impl Built {
    fn n(&self) -> usize {
        self.view.keys.len()
    }
    fn pre_valid(&self, c: &Issued) -> bool {
        self.spec.rot as u64 - c.rot <= self.spec.h as u64
    }
}

fn build_set(spec: SetSpec) -> Built {
    let mut prov = match spec.start {
        None => KeySetProvider::new(spec.h),
        Some(o) => probe::build(
            &probe::View {
                keys: vec![AesSivCmac512::new_random().key_bytes().to_vec()],
                id_offset: o,
                primary: 0,
            },
            spec.h,
        ),
    };
    let mut pre = Vec::new();
    for r in 0..=spec.rot {
        for alg in 0..2u8 {
            let s2c = key_material(alg, 4, 1 + r as u8 * 2);
            let c2s = key_material(alg, 4, 2 + r as u8 * 2);
            let bytes = prov.get().encode_cookie(&mk_cookie(alg, &s2c, &c2s));
            pre.push(Issued {
                bytes,
                alg,
                s2c,
                c2s,
                rot: r as u64,
            });
        }
        if r < spec.rot {
            prov.rotate();
        }
    }
    let mut w = LogWriter::new(usize::MAX, None);
    prov.store(&mut w).expect("store into a Vec cannot fail");
    let view = probe::view(&prov.get());
    Built {
        spec,
        prov,
        view,
        pre,
        stream: w.bytes,
    }
}

// ---------------------------------------------------------------------------------
// load + use
// ---------------------------------------------------------------------------------

enum Loaded {
    Panic(String),
    Rejected,
    Ok(KeySetProvider),
}

fn load_bytes(bytes: &[u8], chunk: usize, h: usize) -> Loaded {
    let mut rd = Chunked {
        data: bytes,
        pos: 0,
        chunk,
    };
    match common::catch(|| KeySetProvider::load(&mut rd, h)) {
        Err(p) => Loaded::Panic(p),
        Ok(Err(_)) => Loaded::Rejected,
        Ok(Ok((p, _time))) => Loaded::Ok(p),
    }
}

struct UseObs {
    fresh: [Dec; 2],
    pre: Vec<Dec>,
    fresh_after_rotate: [Dec; 2],
}

impl UseObs {
    fn text(&self) -> String {
        format!(
            "fresh={:?} pre={:?} after_rotate={:?}",
            self.fresh, self.pre, self.fresh_after_rotate
        )
    }
}

/// Use a provider the way the daemon does. `Err` = a panic (stage: message).
fn use_set(mut p: KeySetProvider, pre: &[Issued]) -> Result<UseObs, String> {
    fn issue_and_decode(p: &KeySetProvider, stage: &str) -> Result<[Dec; 2], String> {
        let mut out = [Dec::Rejected; 2];
        for alg in 0..2u8 {
            let s2c = key_material(alg, 3, 1);
            let c2s = key_material(alg, 3, 2);
            let ks = p.get();
            let bytes = common::catch(|| ks.encode_cookie(&mk_cookie(alg, &s2c, &c2s)))
                .map_err(|e| format!("{stage}: encode_cookie panicked: {e}"))?;
            let (d, why) = decode_vs(p, &bytes, alg, &s2c, &c2s);
            if d == Dec::Panic {
                return Err(format!("{stage}: decode_cookie panicked: {why}"));
            }
            out[alg as usize] = d;
        }
        Ok(out)
    }
    let fresh = issue_and_decode(&p, "use")?;
    let mut pre_obs = Vec::with_capacity(pre.len());
    for c in pre {
        let (d, why) = decode_vs(&p, &c.bytes, c.alg, &c.s2c, &c.c2s);
        if d == Dec::Panic {
            return Err(format!("use: decode of pre-crash cookie panicked: {why}"));
        }
        pre_obs.push(d);
    }
    common::catch(|| p.rotate()).map_err(|e| format!("use: rotate panicked: {e}"))?;
    let fresh_after_rotate = issue_and_decode(&p, "use after rotate")?;
    Ok(UseObs {
        fresh,
        pre: pre_obs,
        fresh_after_rotate,
    })
}

/// What the harness wrote into the header of the file under test (NOT read back from the
/// implementation): used only to give violations a stable class name.
fn header_of(file: &[u8]) -> Option<(u64, u32, u32, u32)> {
    if file.len() < 20 {
        return None;
    }
    Some((
        u64::from_be_bytes(file[0..8].try_into().unwrap()),
        u32::from_be_bytes(file[8..12].try_into().unwrap()),
        u32::from_be_bytes(file[12..16].try_into().unwrap()),
        u32::from_be_bytes(file[16..20].try_into().unwrap()),
    ))
}

/// Load `file`, use what comes out, judge it as a *corrupted* file. Returns the observation.
fn run_corrupt(ctx: &Ctx, b: &Built, file: &[u8], chunk: usize, kind: &str, trace: &str) -> String {
    ctx.inc("evaluations");
    ctx.inc(&format!("{kind}_cases"));
    let hdr = header_of(file);
    match load_bytes(file, chunk, b.spec.h) {
        Loaded::Panic(p) => {
            let class = match hdr {
                Some((t, ..)) if t > i64::MAX as u64 => "C27:load-time-overflow",
                _ => "C27:load-panic",
            };
            ctx.violation(
                class,
                format!("KeySetProvider::load panicked (daemon would abort at start-up): {p}"),
                trace,
            );
            ctx.inc(&format!("{kind}_load_panicked"));
            format!("load=panic({p})")
        }
        Loaded::Rejected => {
            ctx.inc(&format!("{kind}_rejected"));
            "load=Err".into()
        }
        Loaded::Ok(p) => {
            ctx.inc(&format!("{kind}_loaded"));
            let same = probe::view(&p.get()) == b.view;
            if same {
                ctx.inc(&format!("{kind}_loaded_equal_to_stored"));
            }
            match use_set(p, &b.pre) {
                Err(panic) => {
                    let class = match hdr {
                        Some((_, _, primary, len)) if primary >= len => {
                            "C27:load-primary-out-of-range"
                        }
                        _ => "C27:loaded-set-unusable",
                    };
                    ctx.violation(
                        class,
                        format!("load accepted the file (header {hdr:?}) but the key set panics when used: {panic}"),
                        trace,
                    );
                    ctx.inc(&format!("{kind}_use_panicked"));
                    format!("load=Ok use=panic({panic})")
                }
                Ok(o) => {
                    ctx.inc("sets_used_ok");
                    if o.fresh != [Dec::Same; 2] || o.fresh_after_rotate != [Dec::Same; 2] {
                        ctx.violation(
                            "C27:loaded-set-unusable",
                            format!(
                                "loaded key set cannot decode its own new cookies: {}",
                                o.text()
                            ),
                            trace,
                        );
                    }
                    for (c, d) in b.pre.iter().zip(&o.pre) {
                        match d {
                            Dec::Same => ctx.inc("pre_cookie_decoded"),
                            Dec::Rejected => ctx.inc("pre_cookie_rejected"),
                            _ => ctx.violation(
                                "C27:loaded-set-decodes-wrong-keys",
                                format!(
                                    "pre-crash cookie (rotation {}) decodes to other session keys",
                                    c.rot
                                ),
                                trace,
                            ),
                        }
                        if same && (*d == Dec::Same) != b.pre_valid(c) {
                            ctx.violation(
                                "C27:restored-set-cookie-validity",
                                format!("restored set: cookie of rotation {} (stored at {}, history {}) -> {d:?}", c.rot, b.spec.rot, b.spec.h),
                                trace,
                            );
                        }
                    }
                    format!("load=Ok equal={same} {}", o.text())
                }
            }
        }
    }
}

// ---------------------------------------------------------------------------------
// the four enumerations per stored set
// ---------------------------------------------------------------------------------

const CHUNKS: [usize; 3] = [usize::MAX, 1, 7];

fn store_faults(ctx: &Ctx, b: &Built) {
    let tag = b.spec.tag();
    let len = b.stream.len();
    // layout assumptions of the fault grammar (not an oracle): checked, not trusted
    let hdr = header_of(&b.stream);
    if len != 20 + 64 * b.n()
        || hdr.map(|h| (h.1, h.2, h.3)) != Some((b.view.id_offset, b.view.primary, b.n() as u32))
    {
        ctx.violation(
            "C27:format-assumption",
            format!(
                "harness layout assumption broken: len {len}, header {hdr:?}, view {:?}/{:?}/{}",
                b.view.id_offset,
                b.view.primary,
                b.n()
            ),
            format!("prefix;{tag};k={len};chunk=0"),
        );
    }
    // short writes: the stream must not depend on the writer
    for per in [1usize, 3, 64] {
        let mut w = LogWriter::new(per, None);
        let r = common::catch(|| b.prov.store(&mut w));
        ctx.inc("evaluations");
        ctx.inc("store_runs");
        match r {
            Ok(Ok(())) if w.bytes.len() == len && w.bytes[8..] == b.stream[8..] => ctx.inc("store_short_write_same_stream"),
            Ok(r) => ctx.violation(
                "C27:store-stream-depends-on-writer",
                format!("writer taking {per} byte(s) per call: store -> {r:?}, {} bytes written, expected the same {len}-byte stream", w.bytes.len()),
                format!("wfail;{tag};k=none;per={per}"),
            ),
            Err(p) => ctx.violation("C27:store-panic", format!("store panicked: {p}"), format!("wfail;{tag};k=none;per={per}")),
        }
    }
    // write error after k bytes, every k
    for k in 0..len {
        for per in [usize::MAX, 5] {
            let mut w = LogWriter::new(per, Some(k));
            let r = common::catch(|| b.prov.store(&mut w));
            ctx.inc("evaluations");
            ctx.inc("store_runs");
            let trace = format!(
                "wfail;{tag};k={k};per={}",
                if per == usize::MAX { 0 } else { per }
            );
            match r {
                Err(p) => ctx.violation(
                    "C27:store-panic",
                    format!("store panicked on a write error: {p}"),
                    trace,
                ),
                Ok(Ok(())) => ctx.violation(
                    "C27:store-error-not-reported",
                    format!(
                        "store returned Ok although the writer failed after {k} of {len} bytes"
                    ),
                    trace,
                ),
                Ok(Err(_)) => {
                    ctx.inc("store_write_error_reported");
                    let same_prefix =
                        w.bytes.len() == k && (k <= 8 || w.bytes[8..] == b.stream[8..k]);
                    if !same_prefix {
                        ctx.violation("C27:store-stream-depends-on-writer", format!("after a write error at {k} the file holds {} bytes that are not the {k}-byte prefix of the stream", w.bytes.len()), trace);
                    }
                }
            }
        }
    }
}

fn prefix_case(ctx: &Ctx, b: &Built, k: usize, chunk: usize) -> String {
    let trace = format!(
        "prefix;{};k={k};chunk={}",
        b.spec.tag(),
        if chunk == usize::MAX { 0 } else { chunk }
    );
    let full = k == b.stream.len();
    ctx.inc("evaluations");
    ctx.inc("crash_prefix_cases");
    match load_bytes(&b.stream[..k], chunk, b.spec.h) {
        Loaded::Panic(p) => {
            ctx.violation(
                "C27:load-panic",
                format!("load of the {k}-byte prefix panicked: {p}"),
                trace,
            );
            format!("load=panic({p})")
        }
        Loaded::Rejected => {
            if full {
                ctx.violation(
                    "C27:restore-fails",
                    "load rejects the complete, healthy file".to_string(),
                    trace,
                );
            } else {
                ctx.inc("crash_prefix_rejected");
            }
            "load=Err".into()
        }
        Loaded::Ok(p) => {
            let same = probe::view(&p.get()) == b.view && probe::history(&p) == b.spec.h;
            if !same {
                ctx.violation(
                    if full { "C27:restore-differs" } else { "C27:crash-prefix-loads-other-set" },
                    format!("load of the first {k} of {} stored bytes returns a key set different from the stored one: {:?}", b.stream.len(), p.get()),
                    trace.clone(),
                );
            }
            if full {
                ctx.inc("full_file_restored");
            } else {
                ctx.inc("crash_prefix_loaded");
            }
            // the restored set is used: every valid pre-crash cookie must decode to its keys
            match use_set(p, &b.pre) {
                Err(panic) => {
                    ctx.violation(
                        "C27:loaded-set-unusable",
                        format!("set loaded from a {k}-byte prefix panics when used: {panic}"),
                        trace,
                    );
                    format!("load=Ok equal={same} use=panic({panic})")
                }
                Ok(o) => {
                    ctx.inc("sets_used_ok");
                    if o.fresh != [Dec::Same; 2] || o.fresh_after_rotate != [Dec::Same; 2] {
                        ctx.violation(
                            "C27:loaded-set-unusable",
                            format!(
                                "restored key set cannot decode its own new cookies: {}",
                                o.text()
                            ),
                            trace.clone(),
                        );
                    }
                    for (c, d) in b.pre.iter().zip(&o.pre) {
                        let want = if b.pre_valid(c) {
                            Dec::Same
                        } else {
                            Dec::Rejected
                        };
                        if *d == want {
                            ctx.inc(if want == Dec::Same {
                                "pre_cookie_decoded"
                            } else {
                                "pre_cookie_rejected"
                            });
                        } else {
                            ctx.violation(
                                "C27:restored-set-cookie-validity",
                                format!("after restart the cookie issued at rotation {} (stored at rotation {}, history {}) gives {d:?}, expected {want:?}", c.rot, b.spec.rot, b.spec.h),
                                trace.clone(),
                            );
                        }
                    }
                    format!("load=Ok equal={same} {}", o.text())
                }
            }
        }
    }
}

#[derive(Clone, Copy, PartialEq, Eq, Debug)]
struct HdrFault {
    time: Option<u64>,
    off: Option<u32>,
    primary: Option<u32>,
    len: Option<u32>,
}

impl HdrFault {
    fn degree(&self) -> usize {
        self.time.is_some() as usize
            + self.off.is_some() as usize
            + self.primary.is_some() as usize
            + self.len.is_some() as usize
    }
    fn apply(&self, stream: &[u8]) -> Vec<u8> {
        let mut f = stream.to_vec();
        if let Some(t) = self.time {
            f[0..8].copy_from_slice(&t.to_be_bytes());
        }
        if let Some(o) = self.off {
            f[8..12].copy_from_slice(&o.to_be_bytes());
        }
        if let Some(p) = self.primary {
            f[12..16].copy_from_slice(&p.to_be_bytes());
        }
        if let Some(l) = self.len {
            f[16..20].copy_from_slice(&l.to_be_bytes());
        }
        f
    }
    fn text(&self) -> String {
        fn s<T: std::fmt::Display>(o: Option<T>) -> String {
            o.map_or("keep".to_string(), |v| v.to_string())
        }
        format!(
            "time={};off={};primary={};len={}",
            s(self.time),
            s(self.off),
            s(self.primary),
            s(self.len)
        )
    }
    fn parse(parts: &[&str]) -> HdrFault {
        fn g<T: std::str::FromStr>(parts: &[&str], n: &str) -> Option<T> {
            field(parts, n).and_then(|v| v.parse().ok())
        }
        HdrFault {
            time: g(parts, "time"),
            off: g(parts, "off"),
            primary: g(parts, "primary"),
            len: g(parts, "len"),
        }
    }
}

fn field_values(n: u32) -> Vec<u32> {
    let mut v = vec![0, 1, n.wrapping_sub(1), n, n + 1, 1 << 31, u32::MAX];
    v.sort();
    v.dedup();
    v
}

fn header_faults(ctx: &Ctx, b: &Built, max_degree: usize) {
    let n = b.n() as u32;
    let (t0, o0, p0, l0) = header_of(&b.stream).expect("header");
    let v32 = field_values(n);
    let mut times: Vec<u64> = v32.iter().map(|v| *v as u64).collect();
    times.extend([i64::MAX as u64, 1 << 63, u64::MAX]);
    let opt = |vals: &[u32], cur: u32| -> Vec<Option<u32>> {
        std::iter::once(None)
            .chain(vals.iter().filter(|v| **v != cur).map(|v| Some(*v)))
            .collect()
    };
    let topt: Vec<Option<u64>> = std::iter::once(None)
        .chain(times.iter().filter(|v| **v != t0).map(|v| Some(*v)))
        .collect();
    let (oo, po, lo) = (opt(&v32, o0), opt(&v32, p0), opt(&v32, l0));
    for degree in 1..=max_degree {
        for &time in &topt {
            for &off in &oo {
                for &primary in &po {
                    for &len in &lo {
                        let f = HdrFault {
                            time,
                            off,
                            primary,
                            len,
                        };
                        if f.degree() != degree {
                            continue;
                        }
                        let file = f.apply(&b.stream);
                        let trace = format!("hdr;{};{}", b.spec.tag(), f.text());
                        run_corrupt(ctx, b, &file, usize::MAX, "header_field", &trace);
                        ctx.distinct(common::hash_of(&("hdr", b.spec, f.text())));
                    }
                }
            }
        }
    }
}

fn bit_flips(ctx: &Ctx, b: &Built) {
    let mut file = b.stream.clone();
    for i in 0..file.len() {
        for bit in 0..8 {
            let m = 1u8 << bit;
            file[i] ^= m;
            let trace = format!("bit;{};byte={i};mask={m}", b.spec.tag());
            run_corrupt(
                ctx,
                b,
                &file,
                usize::MAX,
                if i < 20 { "header_bit" } else { "key_bit" },
                &trace,
            );
            file[i] ^= m;
        }
    }
    ctx.distinct(common::hash_of(&("bits", b.spec)));
}

fn run_set(ctx: &Ctx, spec: SetSpec, max_degree: usize) {
    let b = build_set(spec);
    ctx.inc("stored_sets");
    ctx.inc(&format!("stored_sets_with_{}_keys", b.n()));
    store_faults(ctx, &b);
    for k in 0..=b.stream.len() {
        for chunk in CHUNKS {
            prefix_case(ctx, &b, k, chunk);
        }
        ctx.distinct(common::hash_of(&("prefix", spec, k)));
    }
    header_faults(ctx, &b, max_degree);
    bit_flips(ctx, &b);
    if spec.start.is_none() && spec.rot == spec.h {
        ctx.sample(format!(
            "{}: {} keys, stream {} bytes, {} pre-crash cookies ({} still valid at store time)",
            spec.tag(),
            b.n(),
            b.stream.len(),
            b.pre.len(),
            b.pre.iter().filter(|c| b.pre_valid(c)).count()
        ));
    }
}

// ---------------------------------------------------------------------------------
// replay
// ---------------------------------------------------------------------------------

fn replay(ctx: &Ctx, trace: &str) -> String {
    let parts: Vec<&str> = trace.split(';').collect();
    let Some(spec) = SetSpec::parse(&parts) else {
        return "bad trace".into();
    };
    let b = build_set(spec);
    let num = |n: &str| field(&parts, n).and_then(|v| v.parse::<usize>().ok());
    match parts[0] {
        "prefix" => {
            let k = num("k").unwrap_or(0).min(b.stream.len());
            let chunk = match num("chunk") {
                Some(0) | None => usize::MAX,
                Some(c) => c,
            };
            prefix_case(ctx, &b, k, chunk)
        }
        "hdr" => {
            let f = HdrFault::parse(&parts);
            run_corrupt(
                ctx,
                &b,
                &f.apply(&b.stream),
                usize::MAX,
                "header_field",
                trace,
            )
        }
        "bit" => {
            let mut file = b.stream.clone();
            let i = num("byte").unwrap_or(0).min(file.len() - 1);
            file[i] ^= num("mask").unwrap_or(1) as u8;
            run_corrupt(ctx, &b, &file, usize::MAX, "bit", trace)
        }
        "wfail" => {
            let per = match num("per") {
                Some(0) | None => usize::MAX,
                Some(c) => c,
            };
            let mut w = LogWriter::new(per, num("k"));
            let r = common::catch(|| b.prov.store(&mut w));
            let ok = matches!(r, Ok(Err(_))) == num("k").is_some()
                && w.bytes.len() == num("k").unwrap_or(b.stream.len());
            if !ok {
                ctx.violation(
                    "C27:store-stream-depends-on-writer",
                    format!("{r:?} / {} bytes", w.bytes.len()),
                    trace,
                );
            }
            format!("store={:?} written={}", r.map(|x| x.is_ok()), w.bytes.len())
        }
        _ => "unknown trace kind".into(),
    }
}

#[test]
fn check() {
    let ctx = Ctx::new("C27");
    if let Some(t) = common::replay_trace() {
        let a = replay(&ctx, &t);
        let b = replay(&ctx, &t);
        common::report_replay("C27", &a, &b, ctx.violation_count() > 0);
        return;
    }
    let max_degree = if ctx.quick() { 3 } else { 4 };
    let hmax = if ctx.quick() { 3usize } else { 5 };
    ctx.rule(&format!(
        "stored sets: history h in 0..={hmax} x start in {{KeySetProvider::new(h), one key at id offset 2^32-2}} x rotations 0..=h+2 (1..=h+1 keys, \
         2 cookies issued per rotation). Per set: store through writers taking 1/3/64/all bytes per call and through writers failing \
         after k bytes for every k; load of EVERY prefix 0..=len through readers handing out all/1/7 bytes per call; header fields \
         (time, id offset, primary, count) set to {{0,1,n-1,n,n+1,2^31,2^32-1}} (time also 2^63-1, 2^63, 2^64-1): all combinations \
         touching <= {max_degree} fields; every single bit of every file byte flipped. Every loaded set is used (issue+decode both \
         algorithms, decode all pre-crash cookies, rotate, issue+decode again). Distinct & non-trivial = a (set, prefix length), \
         (set, header fault), or set-wide bit sweep; every one is a different file."
    ));
    ctx.assume("the daemon's store is truncate-then-write of exactly KeySetProvider::store's stream (verified on the real file system by the ntpd part), so crash states are the prefixes of that stream");
    ctx.assume("file layout used to aim the faults (8 byte time, 3 x u32 big endian, 64 byte keys) is checked against the recorded stream of every set (class C27:format-assumption), not trusted");
    ctx.assume("a panic caught by the harness stands for an abort of the daemon (shipped profile: panic = \"abort\")");
    ctx.assume("multi-byte corruptions other than whole header fields, and key sets with more keys than the enumerated maximum, are not enumerated");

    let mut specs = Vec::new();
    for h in 0..=hmax {
        for start in [None, Some(u32::MAX - 1)] {
            for rot in 0..=h + 2 {
                specs.push(SetSpec { h, start, rot });
            }
        }
    }
    // smallest sets first so that the first trace kept per class is a minimal one
    specs.sort_by_key(|s| (s.h.min(s.rot), s.start.is_some(), s.rot, s.h));
    let first = specs.remove(0);
    run_set(&ctx, first, max_degree);
    common::par_for(specs.len() as u64, 1, |i| {
        run_set(&ctx, specs[i as usize], max_degree)
    });
    ctx.exhaustive(true);
    ctx.finish();
}
