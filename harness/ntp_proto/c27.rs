//! C27: not implemented yet.
