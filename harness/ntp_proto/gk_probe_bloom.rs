//! gk probe for `packet::v5::server_reference_id` (C33, C34): build filters / ids from
//! explicit values, clone and inspect a `RemoteBloomFilter`. Read / construct only.
use super::super::{BloomFilter, RemoteBloomFilter, ServerId, U12};
use crate::packet::v5::NtpClientCookie;

pub(crate) fn filter_from_bytes(b: [u8; 512]) -> BloomFilter {
    BloomFilter(b)
}

/// A `ServerId` with exactly these ten 12-bit indices (values are masked to 12 bits).
pub(crate) fn server_id(idx: [u16; 10]) -> ServerId {
    ServerId(idx.map(|v| U12(v & 0x0FFF)))
}

pub(crate) fn server_id_indices(id: &ServerId) -> [u16; 10] {
    id.0.map(|v| v.0)
}

#[derive(Debug, Clone, PartialEq, Eq, Hash)]
pub(crate) struct RbfView {
    pub filter: Vec<u8>,
    pub chunk_size: u16,
    pub last_requested: Option<(u16, [u8; 8])>,
    pub next_to_request: u16,
    pub is_filled: bool,
}

pub(crate) fn rbf_view(r: &RemoteBloomFilter) -> RbfView {
    RbfView {
        filter: r.filter.0.to_vec(),
        chunk_size: r.chunk_size,
        last_requested: r.last_requested.map(|(o, c)| (o, c.0)),
        next_to_request: r.next_to_request,
        is_filled: r.is_filled,
    }
}

pub(crate) fn rbf_clone(r: &RemoteBloomFilter) -> RemoteBloomFilter {
    RemoteBloomFilter {
        filter: r.filter,
        chunk_size: r.chunk_size,
        last_requested: r.last_requested,
        next_to_request: r.next_to_request,
        is_filled: r.is_filled,
    }
}

pub(crate) fn cookie(v: u64) -> NtpClientCookie {
    NtpClientCookie(v.to_be_bytes())
}
