//! C32: not implemented yet.
