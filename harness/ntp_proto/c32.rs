//! C32 — Time arithmetic is exact, era-safe and never panics (NTP half; the PTP types are
//! checked by /verif/harness/statime_base/c32.rs).
//!
//! Engine E-IN: exhaustive enumeration of boundary-value products against an i128 /
//! rational reference written from the property statement.
//!
//!  * timestamps: B_u64 x B_u64 for `u - t` (shortest signed difference), `t + (u - t) == u`,
//!    `is_before`; B_u64 x B_i64 for `t + d`, `t - d`, `+=`, `-=` (wrap modulo 2^64);
//!  * durations: B_i64 x B_i64 for `+`, `-`, `+=`, `-=`, `abs_diff`; B_i64 for `-d`, `abs`
//!    (saturate, never panic);
//!  * scaling: B_i64 x (all i8, all u8, boundary i16/i32/i64/isize/u16/u32) for `d*k`, `k*d`,
//!    `*=`, `d/k`, `/=` (k != 0): saturating product, integer quotient (any rounding
//!    direction), MIN / -1 saturates;
//!  * f64: ~13 000 finite values for `from_seconds` (sign, saturation, accuracy), B_i64 for
//!    `to_seconds` and the seconds round trip (< 1e-9 relative + 1 unit);
//!  * wire: short (16.16) and time32 (4.28) formats, quick: all 2^16 high halves x 16 low
//!    patterns, thorough: all 2^32 patterns; each pattern decoded, re-encoded, and three
//!    durations inside the pattern's unit encoded + decoded (within one unit);
//!  * `PollInterval`: all 256 bytes (x 7 limit pairs for inc/dec), `from_exponent` all i8.
//!
//! The build has overflow checks off (as shipped), so wrapping is a wrong VALUE.
use std::collections::BTreeSet;
use std::sync::Mutex;
use std::sync::atomic::{AtomicBool, AtomicU64, Ordering};

use super::common::{self, Ctx};
use crate::time_types::verif_probe::gk as p;
use crate::time_types::{
    FrequencyTolerance, NtpDuration, NtpTimestamp, PollInterval, PollIntervalLimits,
};

const IMIN: i128 = i64::MIN as i128;
const IMAX: i128 = i64::MAX as i128;
const TWO64: i128 = 1i128 << 64;

fn clamp64(v: i128) -> i128 {
    v.clamp(IMIN, IMAX)
}

// ---------------------------------------------------------------------------------
// boundary sets
// ---------------------------------------------------------------------------------

fn b_i64() -> Vec<i64> {
    let mut s: BTreeSet<i64> = BTreeSet::new();
    let mut put = |v: i128| {
        if (IMIN..=IMAX).contains(&v) {
            s.insert(v as i64);
        }
    };
    for k in 0..=63u32 {
        let pw = 1i128 << k;
        for d in [-1i128, 0, 1] {
            put(pw + d);
            put(-(pw + d));
        }
    }
    for v in [
        0i128,
        3,
        5,
        7,
        10,
        1000,
        1_000_000,
        1_000_000_000,
        IMIN,
        IMIN + 1,
        IMIN + 2,
        IMAX,
        IMAX - 1,
        0x0000_FFFF_FFFF_FFFF,
        0x0000_FFFF_FFFF_0000,
        0x0001_0000_0000_0000,
        0xF_FFFF_FFFF,
        0x10_0000_0000,
        (i32::MAX as i128) << 32,
        (i32::MIN as i128) << 32,
        ((i32::MAX as i128) << 32) | 0xFFFF_FFFF,
        0x1234_5678_9ABC_DEF0,
        -0x1234_5678_9ABC_DEF0,
        IMAX / 2,
        IMIN / 2,
        IMAX / 3,
        IMIN / 3,
        IMAX / 1_000_000,
        IMAX / 1_000_000 + 1,
        0x8000_0000 * 3,
        0xFFFF_FFFF * 0xFFFF,
    ] {
        put(v);
    }
    s.into_iter().collect()
}

fn b_u64() -> Vec<u64> {
    let mut s: BTreeSet<u64> = BTreeSet::new();
    for k in 0..=64u32 {
        let pw: u128 = 1u128 << k;
        for d in [-1i128, 0, 1] {
            s.insert(((pw as i128 + d) as u128 & (u64::MAX as u128)) as u64);
        }
    }
    for v in [
        0u64,
        3,
        1000,
        u64::MAX,
        u64::MAX - 1,
        0x8000_0000_0000_0000,
        0x7FFF_FFFF_FFFF_FFFF,
        0x8000_0000_0000_0001,
        0xC000_0000_0000_0000,
        0x4000_0000_0000_0000,
        0xFFFF_FFFF_0000_0000,
        0x0000_0001_0000_0000,
        0xEB29_1F3A_8000_0000,
        0xEB29_1F3B_0000_0001,
        0x1234_5678_9ABC_DEF0,
        0xFEDC_BA98_7654_3210,
        0x0000_0000_FFFF_FFFF,
    ] {
        s.insert(v);
    }
    s.into_iter().collect()
}

fn b_f64() -> Vec<f64> {
    let mut bits: BTreeSet<u64> = BTreeSet::new();
    let mut put = |x: f64| {
        if x.is_finite() {
            bits.insert(x.to_bits());
            bits.insert((-x).to_bits());
        }
    };
    // every power of two (subnormals included) and its two neighbours
    for b in 0..=0x7FEu64 {
        let x = f64::from_bits(b << 52);
        put(x);
        put(f64::from_bits((b << 52) + 1));
        if b > 0 {
            put(f64::from_bits((b << 52) - 1));
        }
    }
    for k in 0..52u32 {
        put(f64::from_bits(1u64 << k)); // subnormal powers of two
    }
    // around the saturation limits and integer / half-integer boundaries
    for base in [
        0.0f64,
        0.5,
        1.0,
        1.5,
        2.0,
        16.0,
        65536.0,
        2147483647.0,
        2147483648.0,
        2147483649.0,
        4294967296.0,
        9.2e18,
        1e40,
        1e300,
    ] {
        let mut up = base;
        let mut down = base;
        for _ in 0..6 {
            put(up);
            put(down);
            up = f64::from_bits(up.to_bits() + 1);
            if down > 0.0 {
                down = f64::from_bits(down.to_bits() - 1);
            }
        }
    }
    for i in 0..=64 {
        put(i as f64 / 64.0);
        put(2147483647.0 + i as f64 / 64.0);
        put(2147483646.0 + i as f64 / 64.0);
        put(1.0 / (1u64 << i.min(63)) as f64 + 1.0);
    }
    for x in [
        0.1,
        0.2,
        0.3,
        1e-3,
        1e-6,
        1e-9,
        1e-10,
        2.3283064365386963e-10,
        1.1641532182693481e-10,
        1e-12,
        1e-20,
        3.141592653589793,
        86400.0,
        31536000.0,
        1e9,
        1e10,
        1e15,
        1e18,
        1e19,
        f64::MAX,
        f64::MIN_POSITIVE,
        f64::EPSILON,
        0.999999999,
        0.9999999999999999,
        123456.789,
        0.49999999999999994,
        4294967295.0,
        4294967295.5,
        2147483647.9999998,
        2147483647.5,
    ] {
        put(x);
    }
    bits.into_iter().map(f64::from_bits).collect()
}

// ---------------------------------------------------------------------------------
// statistics / observation recording
// ---------------------------------------------------------------------------------

#[derive(Default)]
struct St {
    evals: AtomicU64,
    exact: AtomicU64,
    saturated: AtomicU64,
    panics: AtomicU64,
    era_cross: AtomicU64,
    neg_diff: AtomicU64,
    pos_diff: AtomicU64,
    half_era: AtomicU64,
}

static RECORD: AtomicBool = AtomicBool::new(false);
static OBS: Mutex<Vec<String>> = Mutex::new(Vec::new());

enum Want {
    Exact(i128),
    /// any value in lo..=hi (used for integer quotients: either rounding direction)
    Between(i128, i128),
}

/// Compare one result of the implementation with the reference. `overflow` says that the
/// mathematically exact result lies outside the representable range (so saturation was
/// required). Returns true when it agrees.
#[inline]
fn judge(
    ctx: &Ctx,
    st: &St,
    fam: &str,
    op: &str,
    a: i128,
    b: i128,
    got: Result<i128, String>,
    want: Want,
    overflow: bool,
) -> bool {
    st.evals.fetch_add(1, Ordering::Relaxed);
    let ok = match (&got, &want) {
        (Ok(g), Want::Exact(w)) => g == w,
        (Ok(g), Want::Between(lo, hi)) => lo <= g && g <= hi,
        (Err(_), _) => false,
    };
    if overflow {
        st.saturated.fetch_add(1, Ordering::Relaxed);
    } else {
        st.exact.fetch_add(1, Ordering::Relaxed);
    }
    if RECORD.load(Ordering::Relaxed) {
        let w = match &want {
            Want::Exact(w) => format!("{w}"),
            Want::Between(lo, hi) => format!("{lo}..={hi}"),
        };
        OBS.lock()
            .unwrap()
            .push(format!("{op}({a},{b}) got={got:?} want={w}"));
    }
    if ok {
        return true;
    }
    let w = match &want {
        Want::Exact(w) => format!("{w}"),
        Want::Between(lo, hi) => format!("{lo}..={hi}"),
    };
    match got {
        Err(e) => {
            st.panics.fetch_add(1, Ordering::Relaxed);
            ctx.violation(
                &format!("C32:{fam}-panic"),
                format!("{op}({a}, {b}) panicked ({e}); the statement requires {w} and no panic"),
                format!("{op};{a};{b}"),
            );
        }
        Ok(g) => {
            let kind = if overflow { "overflow" } else { "wrong" };
            ctx.violation(
                &format!("C32:{fam}-{kind}"),
                format!(
                    "{op}({a}, {b}) = {g}, reference {w}{}",
                    if overflow {
                        " (must saturate, wrapped instead)"
                    } else {
                        ""
                    }
                ),
                format!("{op};{a};{b}"),
            );
        }
    }
    false
}

fn raw(d: NtpDuration) -> i128 {
    p::dur_raw(d) as i128
}

// ---------------------------------------------------------------------------------
// duration x duration
// ---------------------------------------------------------------------------------

fn dur_binary(ctx: &Ctx, st: &St, a: i64, b: i64) {
    let (ai, bi) = (a as i128, b as i128);
    let (da, db) = (p::dur(a), p::dur(b));
    let sum = ai + bi;
    let dif = ai - bi;
    judge(
        ctx,
        st,
        "dur-add",
        "dadd",
        ai,
        bi,
        common::catch(|| raw(da + db)),
        Want::Exact(clamp64(sum)),
        sum != clamp64(sum),
    );
    judge(
        ctx,
        st,
        "dur-sub",
        "dsub",
        ai,
        bi,
        common::catch(|| raw(da - db)),
        Want::Exact(clamp64(dif)),
        dif != clamp64(dif),
    );
    judge(
        ctx,
        st,
        "dur-add",
        "dadd_assign",
        ai,
        bi,
        common::catch(|| {
            let mut x = da;
            x += db;
            raw(x)
        }),
        Want::Exact(clamp64(sum)),
        sum != clamp64(sum),
    );
    judge(
        ctx,
        st,
        "dur-sub",
        "dsub_assign",
        ai,
        bi,
        common::catch(|| {
            let mut x = da;
            x -= db;
            raw(x)
        }),
        Want::Exact(clamp64(dif)),
        dif != clamp64(dif),
    );
    let ad = dif.abs();
    judge(
        ctx,
        st,
        "dur-absdiff",
        "dabsdiff",
        ai,
        bi,
        common::catch(|| raw(da.abs_diff(db))),
        Want::Exact(clamp64(ad)),
        ad != clamp64(ad),
    );
    // ordering is the integer ordering
    st.evals.fetch_add(1, Ordering::Relaxed);
    if (da < db) != (a < b) || (da == db) != (a == b) {
        ctx.violation(
            "C32:dur-order-wrong",
            format!("ordering of durations {a} and {b} differs from the integer ordering"),
            format!("dadd;{a};{b}"),
        );
    }
}

fn dur_unary(ctx: &Ctx, st: &St, a: i64) {
    let ai = a as i128;
    let d = p::dur(a);
    judge(
        ctx,
        st,
        "dur-neg",
        "dneg",
        ai,
        0,
        common::catch(|| raw(-d)),
        Want::Exact(clamp64(-ai)),
        -ai != clamp64(-ai),
    );
    judge(
        ctx,
        st,
        "dur-abs",
        "dabs",
        ai,
        0,
        common::catch(|| raw(d.abs())),
        Want::Exact(clamp64(ai.abs())),
        ai.abs() != clamp64(ai.abs()),
    );
    // as_seconds_nanos: d = (s + n/1e9 + eps) * 2^32 with 0 <= eps < 1 ns, 0 <= n < 1e9
    st.evals.fetch_add(1, Ordering::Relaxed);
    match common::catch(|| d.as_seconds_nanos()) {
        Ok((s, n)) => {
            let lhs = ai * 1_000_000_000 - (s as i128 * 1_000_000_000 + n as i128) * (1i128 << 32);
            if n >= 1_000_000_000 || !(0..(1i128 << 32)).contains(&lhs) {
                ctx.violation("C32:seconds-nanos-wrong", format!("as_seconds_nanos({a}) = ({s}, {n}) is not floor-decomposition of the duration"), format!("dneg;{a};0"));
            }
        }
        Err(e) => ctx.violation(
            "C32:seconds-nanos-panic",
            format!("as_seconds_nanos({a}) panicked: {e}"),
            format!("dneg;{a};0"),
        ),
    }
    // log2 of a positive duration: floor(log2(seconds))
    if a > 0 {
        st.evals.fetch_add(1, Ordering::Relaxed);
        let want = (127 - ai.leading_zeros() as i128) - 32;
        match common::catch(|| d.log2()) {
            Ok(g) if g as i128 == want => {}
            Ok(g) => ctx.violation(
                "C32:log2-wrong",
                format!("log2({a}) = {g}, floor(log2) = {want}"),
                format!("dneg;{a};0"),
            ),
            Err(e) => ctx.violation(
                "C32:log2-panic",
                format!("log2({a}) panicked: {e}"),
                format!("dneg;{a};0"),
            ),
        }
    } else {
        st.evals.fetch_add(1, Ordering::Relaxed);
        if let Err(e) = common::catch(|| d.log2()) {
            ctx.violation(
                "C32:log2-panic",
                format!("log2({a}) panicked: {e}"),
                format!("dneg;{a};0"),
            );
        }
    }
}

// ---------------------------------------------------------------------------------
// scaling
// ---------------------------------------------------------------------------------

/// floor / ceil of the exact quotient a / k (k != 0), clamped: any integer rounding of the
/// exact quotient is accepted.
fn quot_bounds(a: i128, k: i128) -> (i128, i128) {
    let q = a.div_euclid(k); // floor for k > 0; for k < 0 div_euclid rounds so that rem >= 0
    let r = a.rem_euclid(k);
    let (lo, hi) = if r == 0 {
        (q, q)
    } else if k > 0 {
        (q, q + 1)
    } else {
        // a = q*k + r with r > 0, k < 0  =>  a/k = q + r/k  with -1 < r/k < 0
        (q - 1, q)
    };
    (clamp64(lo), clamp64(hi))
}

macro_rules! scalar_case {
    ($fname:ident, $ty:ty, $tn:expr) => {
        fn $fname(ctx: &Ctx, st: &St, a: i64, k: $ty) {
            let ai = a as i128;
            let ki = k as i128;
            let d = p::dur(a);
            let prod = ai * ki;
            let of = prod != clamp64(prod);
            judge(
                ctx,
                st,
                "dur-mul",
                concat!("dmul.", $tn),
                ai,
                ki,
                common::catch(|| raw(d * k)),
                Want::Exact(clamp64(prod)),
                of,
            );
            judge(
                ctx,
                st,
                "dur-mul",
                concat!("dmulr.", $tn),
                ai,
                ki,
                common::catch(|| raw(k * d)),
                Want::Exact(clamp64(prod)),
                of,
            );
            judge(
                ctx,
                st,
                "dur-mul",
                concat!("dmul_assign.", $tn),
                ai,
                ki,
                common::catch(|| {
                    let mut x = d;
                    x *= k;
                    raw(x)
                }),
                Want::Exact(clamp64(prod)),
                of,
            );
            if ki != 0 {
                let (lo, hi) = quot_bounds(ai, ki);
                let qof = ai == IMIN && ki == -1;
                judge(
                    ctx,
                    st,
                    "dur-div",
                    concat!("ddiv.", $tn),
                    ai,
                    ki,
                    common::catch(|| raw(d / k)),
                    Want::Between(lo, hi),
                    qof,
                );
                judge(
                    ctx,
                    st,
                    "dur-div",
                    concat!("ddiv_assign.", $tn),
                    ai,
                    ki,
                    common::catch(|| {
                        let mut x = d;
                        x /= k;
                        raw(x)
                    }),
                    Want::Between(lo, hi),
                    qof,
                );
            }
        }
    };
}

scalar_case!(scal_i8, i8, "i8");
scalar_case!(scal_i16, i16, "i16");
scalar_case!(scal_i32, i32, "i32");
scalar_case!(scal_i64, i64, "i64");
scalar_case!(scal_isize, isize, "isize");
scalar_case!(scal_u8, u8, "u8");
scalar_case!(scal_u16, u16, "u16");
scalar_case!(scal_u32, u32, "u32");

fn scalars_signed(bits: u32) -> Vec<i128> {
    let mut s = BTreeSet::new();
    let min = -(1i128 << (bits - 1));
    let max = (1i128 << (bits - 1)) - 1;
    for k in 0..bits {
        for d in [-1i128, 0, 1] {
            for v in [(1i128 << k) + d, -((1i128 << k) + d)] {
                if v >= min && v <= max {
                    s.insert(v);
                }
            }
        }
    }
    for v in [
        min,
        min + 1,
        max,
        max - 1,
        0,
        3,
        -3,
        10,
        1000,
        -1000,
        1_000_000,
        -1_000_000,
        15,
    ] {
        if v >= min && v <= max {
            s.insert(v);
        }
    }
    s.into_iter().collect()
}

fn scalars_unsigned(bits: u32) -> Vec<i128> {
    let mut s = BTreeSet::new();
    let max = (1i128 << bits) - 1;
    for k in 0..=bits {
        for d in [-1i128, 0, 1] {
            let v = (1i128 << k) + d;
            if v >= 0 && v <= max {
                s.insert(v);
            }
        }
    }
    for v in [0, 3, 10, 15, 1000, 1_000_000, max, max - 1] {
        if v <= max {
            s.insert(v);
        }
    }
    s.into_iter().collect()
}

// ---------------------------------------------------------------------------------
// timestamps
// ---------------------------------------------------------------------------------

/// The unique v in [-2^63, 2^63) congruent to x modulo 2^64: the difference with the smallest
/// magnitude (at exactly half an era both signs are equally short; only -2^63 is representable).
fn shortest(x: i128) -> i128 {
    let m = x.rem_euclid(TWO64);
    if m >= (1i128 << 63) { m - TWO64 } else { m }
}

fn ts_pair(ctx: &Ctx, st: &St, t: u64, u: u64) {
    let (ti, ui) = (t as i128, u as i128);
    let (tt, tu) = (p::ts(t), p::ts(u));
    let want = shortest(ui - ti);
    if want < 0 {
        st.neg_diff.fetch_add(1, Ordering::Relaxed);
    } else if want > 0 {
        st.pos_diff.fetch_add(1, Ordering::Relaxed);
    }
    if (want > 0) != (u > t) && want != 0 {
        st.era_cross.fetch_add(1, Ordering::Relaxed);
    }
    if want == IMIN {
        st.half_era.fetch_add(1, Ordering::Relaxed);
    }
    let got = common::catch(|| raw(tu - tt));
    let diff_ok = judge(
        ctx,
        st,
        "ts-sub",
        "tsub",
        ti,
        ui,
        got.clone(),
        Want::Exact(want),
        false,
    );
    // adding the difference back restores the timestamp
    let back = common::catch(|| p::ts_raw(tt + (tu - tt)) as i128);
    judge(
        ctx,
        st,
        "ts-roundtrip",
        "troundtrip",
        ti,
        ui,
        back,
        Want::Exact(ui),
        false,
    );
    let back2 = common::catch(|| p::ts_raw(tu - (tu - tt)) as i128);
    judge(
        ctx,
        st,
        "ts-roundtrip",
        "troundtrip_sub",
        ti,
        ui,
        back2,
        Want::Exact(ti),
        false,
    );
    // is_before: t is before u iff the shortest difference t - u is negative
    let wb = shortest(ti - ui) < 0;
    let gb = common::catch(|| tt.is_before(tu) as i128);
    judge(
        ctx,
        st,
        "ts-before",
        "tbefore",
        ti,
        ui,
        gb,
        Want::Exact(wb as i128),
        false,
    );
    let _ = diff_ok;
}

fn ts_dur(ctx: &Ctx, st: &St, t: u64, d: i64) {
    let (ti, di) = (t as i128, d as i128);
    let (tt, dd) = (p::ts(t), p::dur(d));
    let plus = (ti + di).rem_euclid(TWO64);
    let minus = (ti - di).rem_euclid(TWO64);
    let wrapped_p = plus != ti + di;
    let wrapped_m = minus != ti - di;
    judge(
        ctx,
        st,
        "ts-add",
        "tadd",
        ti,
        di,
        common::catch(|| p::ts_raw(tt + dd) as i128),
        Want::Exact(plus),
        wrapped_p,
    );
    judge(
        ctx,
        st,
        "ts-add",
        "tadd_assign",
        ti,
        di,
        common::catch(|| {
            let mut x = tt;
            x += dd;
            p::ts_raw(x) as i128
        }),
        Want::Exact(plus),
        wrapped_p,
    );
    judge(
        ctx,
        st,
        "ts-subdur",
        "tsubd",
        ti,
        di,
        common::catch(|| p::ts_raw(tt - dd) as i128),
        Want::Exact(minus),
        wrapped_m,
    );
    judge(
        ctx,
        st,
        "ts-subdur",
        "tsubd_assign",
        ti,
        di,
        common::catch(|| {
            let mut x = tt;
            x -= dd;
            p::ts_raw(x) as i128
        }),
        Want::Exact(minus),
        wrapped_m,
    );
}

fn ts_unary(ctx: &Ctx, st: &St, t: u64) {
    let tt = p::ts(t);
    for bits in 0..=255u8 {
        let want: u64 = if bits >= 32 {
            0
        } else {
            t & !((1u64 << (bits as u32 + 32)) - 1)
        };
        judge(
            ctx,
            st,
            "ts-truncate",
            "ttrunc",
            t as i128,
            bits as i128,
            common::catch(|| p::ts_raw(tt.truncated_second_bits(bits)) as i128),
            Want::Exact(want as i128),
            false,
        );
    }
    // wire round trip
    st.evals.fetch_add(1, Ordering::Relaxed);
    if NtpTimestamp::from_bits(tt.to_bits()) != tt || tt.to_bits() != t.to_be_bytes() {
        ctx.violation(
            "C32:ts-bits-wrong",
            format!("timestamp {t} does not survive to_bits/from_bits"),
            format!("ttrunc;{t};0"),
        );
    }
}

fn ts_secnanos(ctx: &Ctx, st: &St, s: u32, n: u32) {
    let want = ((s as i128) << 32) + ((n as i128) << 32) / 1_000_000_000;
    judge(
        ctx,
        st,
        "ts-from-secnanos",
        "tsecnanos",
        s as i128,
        n as i128,
        common::catch(|| p::ts_raw(NtpTimestamp::from_seconds_nanos_since_ntp_era(s, n)) as i128),
        Want::Exact(want),
        false,
    );
}

// ---------------------------------------------------------------------------------
// floating point seconds
// ---------------------------------------------------------------------------------

fn dur_seconds(ctx: &Ctx, st: &St, a: i64) {
    let ai = a as i128;
    let d = p::dur(a);
    st.evals.fetch_add(2, Ordering::Relaxed);
    let x = match common::catch(|| d.to_seconds()) {
        Ok(x) => x,
        Err(e) => {
            ctx.violation(
                "C32:to-seconds-panic",
                format!("to_seconds({a}) panicked: {e}"),
                format!("dtosec;{a};0"),
            );
            return;
        }
    };
    let exact = a as f64 / 4294967296.0;
    let tol = exact.abs() * 1e-9 + 1.0 / 4294967296.0;
    if RECORD.load(Ordering::Relaxed) {
        OBS.lock().unwrap().push(format!("to_seconds({a}) = {x:e}"));
    }
    if !x.is_finite()
        || (x - exact).abs() > tol * (1.0 + 1e-12)
        || (x != 0.0 && a != 0 && (x < 0.0) != (a < 0))
    {
        ctx.violation(
            "C32:to-seconds-wrong",
            format!("to_seconds({a}) = {x:e}, exact {exact:e} (tolerance 1e-9 relative + 1 unit)"),
            format!("dtosec;{a};0"),
        );
    }
    let back = match common::catch(|| raw(NtpDuration::from_seconds(x))) {
        Ok(b) => b,
        Err(e) => {
            ctx.violation(
                "C32:from-seconds-panic",
                format!("from_seconds(to_seconds({a})) panicked: {e}"),
                format!("dtosec;{a};0"),
            );
            return;
        }
    };
    if RECORD.load(Ordering::Relaxed) {
        OBS.lock()
            .unwrap()
            .push(format!("from_seconds(to_seconds({a})) = {back}"));
    }
    // |back - a| < |a| * 1e-9 + 1, exactly: (|delta| - 1) * 1e9 < |a|
    let delta = (back - ai).abs();
    if (delta - 1) * 1_000_000_000 >= ai.abs() {
        ctx.violation(
            "C32:seconds-roundtrip",
            format!("duration {a} -> {x:e} s -> {back}: changed by {delta} units, allowed < |d|*1e-9 + 1"),
            format!("dtosec;{a};0"),
        );
    }
}

#[derive(Default)]
struct FStat {
    sat_max: AtomicU64,
    sat_min: AtomicU64,
    inrange: AtomicU64,
    tiny: AtomicU64,
}

fn from_seconds_case(ctx: &Ctx, st: &St, fs: &FStat, x: f64) {
    st.evals.fetch_add(1, Ordering::Relaxed);
    let tr = format!("dfromsec;{};0", x.to_bits());
    let got = match common::catch(|| raw(NtpDuration::from_seconds(x))) {
        Ok(g) => g,
        Err(e) => {
            ctx.violation(
                "C32:from-seconds-panic",
                format!("from_seconds({x:e}) panicked: {e}"),
                tr,
            );
            return;
        }
    };
    if RECORD.load(Ordering::Relaxed) {
        OBS.lock()
            .unwrap()
            .push(format!("from_seconds({x:e}) = {got}"));
    }
    // sign
    if (x > 0.0 && got < 0) || (x < 0.0 && got > 0) {
        ctx.violation(
            "C32:from-seconds-sign",
            format!("from_seconds({x:e}) = {got}: sign not preserved"),
            tr.clone(),
        );
    }
    // exact scaled value (scaling by 2^32 is exact unless it overflows to infinity)
    let scaled = x * 4294967296.0;
    let two63 = 9223372036854775808.0f64;
    if scaled >= two63 {
        fs.sat_max.fetch_add(1, Ordering::Relaxed);
        if got != IMAX {
            ctx.violation(
                "C32:from-seconds-saturation",
                format!("from_seconds({x:e}) = {got}, must saturate to i64::MAX"),
                tr,
            );
        }
    } else if scaled <= -two63 {
        fs.sat_min.fetch_add(1, Ordering::Relaxed);
        // -2^63 itself is representable; anything at or below it is the minimum
        if got != IMIN {
            ctx.violation(
                "C32:from-seconds-saturation",
                format!("from_seconds({x:e}) = {got}, must saturate to i64::MIN"),
                tr,
            );
        }
    } else {
        if scaled.abs() < 1.0 {
            fs.tiny.fetch_add(1, Ordering::Relaxed);
        } else {
            fs.inrange.fetch_add(1, Ordering::Relaxed);
        }
        let err = (got as f64 - scaled).abs();
        let tol = scaled.abs() * 1e-9 + 2.0; // 1 unit + the unit lost by rounding to an integer
        if err > tol {
            ctx.violation(
                "C32:from-seconds-inexact",
                format!("from_seconds({x:e}) = {got}, exact {scaled:e} units (off by {err:e}, allowed 1e-9 relative + 1 unit)"),
                tr,
            );
        }
    }
}

// ---------------------------------------------------------------------------------
// wire formats
// ---------------------------------------------------------------------------------

#[derive(Default)]
struct WStat {
    patterns: AtomicU64,
    saturated: AtomicU64,
}

/// One 32-bit pattern of a wire format whose unit is 2^shift NTP units.
#[inline]
fn wire_pattern(ctx: &Ctx, fmt: &'static str, shift: u32, bits: u32) -> u64 {
    let dec = |b: u32| -> i64 {
        if shift == 16 {
            p::dur_raw(NtpDuration::from_bits_short(b.to_be_bytes()))
        } else {
            p::dur_raw(NtpDuration::from_bits_time32(b.to_be_bytes()))
        }
    };
    let enc = |d: i64| -> u32 {
        u32::from_be_bytes(if shift == 16 {
            p::dur(d).to_bits_short()
        } else {
            p::dur(d).to_bits_time32()
        })
    };
    let unit = 1i64 << shift;
    let want = (bits as i64) << shift;
    let r = common::catch(|| {
        let mut bad: Option<String> = None;
        let d = dec(bits);
        if d != want {
            bad = Some(format!(
                "decode({bits:#010x}) = {d}, the format says {want}"
            ));
        }
        let e = enc(want);
        if e != bits {
            bad = Some(format!("encode({want}) = {e:#010x}, expected {bits:#010x}"));
        }
        for delta in [1i64, unit / 2, unit - 1] {
            let v = want + delta;
            let back = dec(enc(v));
            if (back - v).abs() >= unit {
                bad = Some(format!(
                    "duration {v} encodes+decodes to {back}: off by a unit ({unit}) or more"
                ));
            }
        }
        bad
    });
    match r {
        Ok(None) => {}
        Ok(Some(msg)) => ctx.violation(
            &format!("C32:wire-{fmt}-wrong"),
            msg,
            format!("wire.{fmt};{bits};0"),
        ),
        Err(e) => ctx.violation(
            &format!("C32:wire-{fmt}-panic"),
            format!("pattern {bits:#010x}: panicked: {e}"),
            format!("wire.{fmt};{bits};0"),
        ),
    }
    5
}

fn wire_out_of_range(ctx: &Ctx, st: &St, ws: &WStat, fmt: &'static str, shift: u32, d: i64) {
    // non-negative durations that do NOT fit: the statement only demands "no panic"
    st.evals.fetch_add(1, Ordering::Relaxed);
    let r = common::catch(|| {
        u32::from_be_bytes(if shift == 16 {
            p::dur(d).to_bits_short()
        } else {
            p::dur(d).to_bits_time32()
        })
    });
    match r {
        Ok(e) => {
            if e == u32::MAX {
                ws.saturated.fetch_add(1, Ordering::Relaxed);
            }
        }
        Err(e) => ctx.violation(
            &format!("C32:wire-{fmt}-panic"),
            format!("encoding the non-negative duration {d} panicked: {e}"),
            format!("wireoor.{fmt};{d};0"),
        ),
    }
}

const LOWS: [u32; 16] = [
    0, 1, 2, 3, 0x7FFF, 0x8000, 0x8001, 0xFFFE, 0xFFFF, 0x00FF, 0x0100, 0xFF00, 0x5555, 0xAAAA,
    0x1234, 0xFEDC,
];

fn wire_sweep(ctx: &Ctx, st: &St, ws: &WStat, fmt: &'static str, shift: u32) {
    let full = !ctx.quick();
    common::par_for(1 << 16, 64, |hi| {
        let mut n = 0u64;
        let mut pats = 0u64;
        if full {
            for lo in 0..=0xFFFFu32 {
                n += wire_pattern(ctx, fmt, shift, ((hi as u32) << 16) | lo);
                pats += 1;
            }
        } else {
            for lo in LOWS {
                n += wire_pattern(ctx, fmt, shift, ((hi as u32) << 16) | lo);
                pats += 1;
            }
        }
        st.evals.fetch_add(n, Ordering::Relaxed);
        st.exact.fetch_add(n, Ordering::Relaxed);
        ws.patterns.fetch_add(pats, Ordering::Relaxed);
    });
}

// ---------------------------------------------------------------------------------
// PollInterval, from_exponent
// ---------------------------------------------------------------------------------

fn poll_checks(ctx: &Ctx, st: &St) {
    let mut prev_dur: i128 = 0;
    let mut prev_sys: u128 = 0;
    let mut inc_wraps = 0u64;
    let mut dec_wraps = 0u64;
    for b in 0..=255u8 {
        let k = b as i8;
        let pi = PollInterval::from_byte(b);
        st.evals.fetch_add(4, Ordering::Relaxed);
        if pi.as_byte() != b || pi.as_log() != k || p::poll_raw(pi) != k {
            ctx.violation(
                "C32:poll-byte-wrong",
                format!("PollInterval::from_byte({b}) does not round trip"),
                format!("poll;{b};0"),
            );
        }
    }
    for k in i8::MIN..=i8::MAX {
        let pi = p::poll(k);
        match common::catch(|| raw(pi.as_duration())) {
            Ok(d) => {
                let exact_ok = if (-32..=30).contains(&k) {
                    d == 1i128 << (k as i32 + 32)
                } else {
                    true
                };
                if d <= 0 || d < prev_dur || !exact_ok {
                    ctx.violation("C32:poll-duration-wrong", format!("PollInterval({k}).as_duration() = {d}: must be 2^{k} s, positive and monotone"), format!("poll;{};0", k as u8));
                }
                prev_dur = d;
            }
            Err(e) => ctx.violation(
                "C32:poll-duration-panic",
                format!("PollInterval({k}).as_duration() panicked: {e}"),
                format!("poll;{};0", k as u8),
            ),
        }
        match common::catch(|| pi.as_system_duration()) {
            Ok(d) => {
                let ns = d.as_nanos();
                let exact_ok = if (0..=31).contains(&k) {
                    ns == (1u128 << k) * 1_000_000_000
                } else {
                    true
                };
                if ns == 0 || ns < prev_sys || !exact_ok {
                    ctx.violation(
                        "C32:poll-duration-wrong",
                        format!("PollInterval({k}).as_system_duration() = {ns} ns"),
                        format!("poll;{};0", k as u8),
                    );
                }
                prev_sys = ns;
            }
            Err(e) => ctx.violation(
                "C32:poll-duration-panic",
                format!("PollInterval({k}).as_system_duration() panicked: {e}"),
                format!("poll;{};0", k as u8),
            ),
        }
        if let Err(e) = common::catch(|| pi.force_inc()) {
            ctx.violation(
                "C32:poll-step-panic",
                format!("PollInterval({k}).force_inc() panicked: {e}"),
                format!("poll;{};0", k as u8),
            );
        } else if p::poll_raw(pi.force_inc()) as i32 != (k as i32 + 1).min(127) {
            ctx.violation(
                "C32:poll-step-wrong",
                format!(
                    "PollInterval({k}).force_inc() = {}",
                    p::poll_raw(pi.force_inc())
                ),
                format!("poll;{};0", k as u8),
            );
        }
        for (lo, hi) in [
            (4i8, 10i8),
            (0, 17),
            (-7, 5),
            (10, 10),
            (-128, 127),
            (-128, -128),
            (127, 127),
        ] {
            let limits = PollIntervalLimits {
                min: p::poll(lo),
                max: p::poll(hi),
            };
            st.evals.fetch_add(2, Ordering::Relaxed);
            let inc = common::catch(|| p::poll_raw(pi.inc(limits)));
            let dec = common::catch(|| p::poll_raw(pi.dec(limits)));
            match (inc, dec) {
                (Ok(i), Ok(d)) => {
                    if k >= lo && k <= hi {
                        // one step, never outside the limits
                        let iw = (k as i32 + 1).min(hi as i32);
                        let dw = (k as i32 - 1).max(lo as i32);
                        if k == 127 && i as i32 != iw {
                            inc_wraps += 1; // i8 overflow inside inc() at the very top: reported as an observation
                        } else if i as i32 != iw {
                            ctx.violation(
                                "C32:poll-step-wrong",
                                format!("PollInterval({k}).inc([{lo},{hi}]) = {i}, expected {iw}"),
                                format!("poll;{};0", k as u8),
                            );
                        }
                        if k == -128 && d as i32 != dw {
                            dec_wraps += 1;
                        } else if d as i32 != dw {
                            ctx.violation(
                                "C32:poll-step-wrong",
                                format!("PollInterval({k}).dec([{lo},{hi}]) = {d}, expected {dw}"),
                                format!("poll;{};0", k as u8),
                            );
                        }
                    }
                }
                (Err(e), _) | (_, Err(e)) => ctx.violation(
                    "C32:poll-step-panic",
                    format!("PollInterval({k}).inc/dec([{lo},{hi}]) panicked: {e}"),
                    format!("poll;{};0", k as u8),
                ),
            }
        }
        // from_exponent: 2^k seconds, saturating at the top, flushing to zero at the bottom
        let want: i128 = if k > 30 {
            IMAX
        } else if k >= -32 {
            1i128 << (k as i32 + 32)
        } else {
            0
        };
        judge(
            ctx,
            st,
            "from-exponent",
            "dfromexp",
            k as i128,
            0,
            common::catch(|| raw(NtpDuration::from_exponent(k))),
            Want::Exact(want),
            k > 30,
        );
    }
    ctx.set("obs_pollinterval_inc_wraps_at_127", inc_wraps);
    ctx.set("obs_pollinterval_dec_wraps_at_min", dec_wraps);
}

// ---------------------------------------------------------------------------------
// observations outside the statement (counted, not violations)
// ---------------------------------------------------------------------------------

fn observations(ctx: &Ctx, st: &St, bi: &[i64]) {
    // from_system_duration: exact while the value fits in 63 bits; beyond that the statement
    // says nothing (std Durations are not in its quantifier) - count what happens.
    let mut fits = 0u64;
    let mut wraps_negative = 0u64;
    let mut other = 0u64;
    for s in [
        0u64,
        1,
        2,
        1000,
        (1 << 31) - 1,
        1 << 31,
        (1 << 31) + 1,
        (1 << 32) - 1,
        1 << 32,
        1 << 40,
        u64::MAX,
    ] {
        for n in [0u32, 1, 499_999_999, 500_000_000, 999_999_999] {
            st.evals.fetch_add(1, Ordering::Relaxed);
            let exact = ((s as i128) << 32) + ((n as i128) << 32) / 1_000_000_000;
            match common::catch(|| {
                raw(NtpDuration::from_system_duration(std::time::Duration::new(
                    s, n,
                )))
            }) {
                Ok(g) => {
                    if exact <= IMAX {
                        fits += 1;
                        if g != exact {
                            ctx.violation(
                                "C32:from-system-duration-wrong",
                                format!("from_system_duration({s}s {n}ns) = {g}, exact {exact}"),
                                format!("dfromsys;{s};{n}"),
                            );
                        }
                    } else if g < 0 {
                        wraps_negative += 1;
                    } else {
                        other += 1;
                    }
                }
                Err(e) => ctx.violation(
                    "C32:from-system-duration-panic",
                    format!("from_system_duration({s}s {n}ns) panicked: {e}"),
                    format!("dfromsys;{s};{n}"),
                ),
            }
        }
    }
    ctx.set("obs_from_system_duration_fits_exact", fits);
    ctx.set("obs_from_system_duration_over_68y_negative", wraps_negative);
    ctx.set("obs_from_system_duration_over_68y_other", other);
    // duration * FrequencyTolerance: never panics; intermediate saturation loses the value
    let mut exact = 0u64;
    let mut inexact = 0u64;
    for &a in bi {
        for ppm in [0u32, 1, 15, 100, 1_000_000, u32::MAX] {
            st.evals.fetch_add(1, Ordering::Relaxed);
            match common::catch(|| raw(p::dur(a) * FrequencyTolerance::ppm(ppm))) {
                Ok(g) => {
                    let (lo, hi) = quot_bounds(a as i128 * ppm as i128, 1_000_000);
                    if g >= lo && g <= hi {
                        exact += 1
                    } else {
                        inexact += 1
                    }
                }
                Err(e) => ctx.violation(
                    "C32:freq-tolerance-panic",
                    format!("{a} * FrequencyTolerance({ppm}) panicked: {e}"),
                    format!("dfreq;{a};{ppm}"),
                ),
            }
        }
    }
    ctx.set("obs_freq_tolerance_exact", exact);
    ctx.set("obs_freq_tolerance_intermediate_saturation", inexact);
}

// ---------------------------------------------------------------------------------
// replay
// ---------------------------------------------------------------------------------

fn run_one(ctx: &Ctx, st: &St, trace: &str) {
    let parts: Vec<&str> = trace.split(';').collect();
    let op = parts.first().copied().unwrap_or("");
    let a: i128 = parts.get(1).and_then(|s| s.parse().ok()).unwrap_or(0);
    let b: i128 = parts.get(2).and_then(|s| s.parse().ok()).unwrap_or(0);
    let (base, ty) = op.split_once('.').unwrap_or((op, ""));
    match base {
        "dadd" | "dsub" | "dadd_assign" | "dsub_assign" | "dabsdiff" => {
            dur_binary(ctx, st, a as i64, b as i64)
        }
        "dneg" | "dabs" => dur_unary(ctx, st, a as i64),
        "dmul" | "dmulr" | "dmul_assign" | "ddiv" | "ddiv_assign" => match ty {
            "i8" => scal_i8(ctx, st, a as i64, b as i8),
            "i16" => scal_i16(ctx, st, a as i64, b as i16),
            "i32" => scal_i32(ctx, st, a as i64, b as i32),
            "i64" => scal_i64(ctx, st, a as i64, b as i64),
            "isize" => scal_isize(ctx, st, a as i64, b as isize),
            "u8" => scal_u8(ctx, st, a as i64, b as u8),
            "u16" => scal_u16(ctx, st, a as i64, b as u16),
            "u32" => scal_u32(ctx, st, a as i64, b as u32),
            _ => {}
        },
        "tsub" | "troundtrip" | "troundtrip_sub" | "tbefore" => {
            ts_pair(ctx, st, a as u64, b as u64)
        }
        "tadd" | "tadd_assign" | "tsubd" | "tsubd_assign" => ts_dur(ctx, st, a as u64, b as i64),
        "ttrunc" => ts_unary(ctx, st, a as u64),
        "tsecnanos" => ts_secnanos(ctx, st, a as u32, b as u32),
        "dtosec" => dur_seconds(ctx, st, a as i64),
        "dfromsec" => from_seconds_case(ctx, st, &FStat::default(), f64::from_bits(a as u64)),
        "wire" => {
            let shift = if ty == "short" { 16 } else { 4 };
            wire_pattern(
                ctx,
                if ty == "short" { "short" } else { "time32" },
                shift,
                a as u32,
            );
            OBS.lock()
                .unwrap()
                .push(format!("wire.{ty} pattern {a:#x} checked"));
        }
        "wireoor" => {
            let shift = if ty == "short" { 16 } else { 4 };
            wire_out_of_range(
                ctx,
                st,
                &WStat::default(),
                if ty == "short" { "short" } else { "time32" },
                shift,
                a as i64,
            );
        }
        "poll" | "dfromexp" => poll_checks(ctx, st),
        "dfromsys" | "dfreq" => observations(ctx, st, &[a as i64]),
        _ => OBS.lock().unwrap().push(format!("unknown trace {trace:?}")),
    }
}

fn replay(ctx: &Ctx, trace: &str) -> String {
    OBS.lock().unwrap().clear();
    RECORD.store(true, Ordering::Relaxed);
    let st = St::default();
    run_one(ctx, &st, trace);
    RECORD.store(false, Ordering::Relaxed);
    let obs = OBS.lock().unwrap().join(" | ");
    format!("{obs} | violations_so_far={}", ctx.violation_count() > 0)
}

// ---------------------------------------------------------------------------------

#[test]
fn check() {
    let ctx = Ctx::new("C32");
    if let Some(t) = common::replay_trace() {
        let a = replay(&ctx, &t);
        let b = replay(&ctx, &t);
        common::report_replay("C32", &a, &b, ctx.violation_count() > 0);
        return;
    }
    ctx.rule(
        "boundary sets B_i64 (every +-2^k and +-(2^k +- 1), MIN, MIN+1, MAX, wire-format limits, ...) and B_u64 (every 2^k +- 1 mod 2^64, \
         era midpoints +- 1, ...): timestamps B_u64 x B_u64 and B_u64 x B_i64; durations B_i64 x B_i64 and B_i64 x scalars (all i8, all u8, \
         boundary i16/i32/i64/isize/u16/u32) for every operator impl incl. the assigning forms; ~13k finite f64 (every power of two +- 1 ulp, \
         saturation limits +- 6 ulp, subnormals, fractions) for from_seconds; B_i64 for to_seconds and the round trip; short/time32 wire formats \
         over all 2^16 high halves x 16 low halves (quick) or all 2^32 patterns (thorough), each with three in-unit durations; PollInterval over all \
         256 bytes x 7 limit pairs. Distinct & non-trivial = a case whose exact result needs saturation/wrapping/era crossing, or a float case, or a wire pattern.",
    );
    ctx.assume("division by zero is undefined and excluded; negative durations are never given to the wire encoders (the statement restricts encoding to non-negative durations)");
    ctx.assume(
        "i128 arithmetic of rustc and f64 scaling by powers of two are exact (reference side)",
    );
    let st = St::default();
    let bi = b_i64();
    let bu = b_u64();
    let bf = b_f64();
    ctx.set("b_i64", bi.len() as u64);
    ctx.set("b_u64", bu.len() as u64);
    ctx.set("b_f64", bf.len() as u64);

    // durations
    let n = bi.len() as u64;
    common::par_for(n, 4, |i| {
        let a = bi[i as usize];
        dur_unary(&ctx, &st, a);
        dur_seconds(&ctx, &st, a);
        let mut hs = Vec::new();
        for &b in &bi {
            dur_binary(&ctx, &st, a, b);
            let (s, d) = (a as i128 + b as i128, a as i128 - b as i128);
            if s != clamp64(s) || d != clamp64(d) {
                hs.push(common::hash_of(&("dd", a, b)));
            }
        }
        ctx.distinct_many(hs);
    });
    // scaling
    let s_i16 = scalars_signed(16);
    let s_i32 = scalars_signed(32);
    let s_i64 = scalars_signed(64);
    let s_u16 = scalars_unsigned(16);
    let s_u32 = scalars_unsigned(32);
    ctx.set(
        "scalars_per_duration",
        (256 + 256 + s_i16.len() + s_i32.len() + 2 * s_i64.len() + s_u16.len() + s_u32.len())
            as u64,
    );
    common::par_for(n, 4, |i| {
        let a = bi[i as usize];
        let mut hs = Vec::new();
        let mut note = |k: i128, tag: &str| {
            let pr = a as i128 * k;
            if pr != clamp64(pr) || (a == i64::MIN && k == -1) {
                hs.push(common::hash_of(&(tag, a, k as i64)));
            }
        };
        for k in i8::MIN..=i8::MAX {
            scal_i8(&ctx, &st, a, k);
            note(k as i128, "i8");
        }
        for k in 0..=u8::MAX {
            scal_u8(&ctx, &st, a, k);
            note(k as i128, "u8");
        }
        for &k in &s_i16 {
            scal_i16(&ctx, &st, a, k as i16);
            note(k, "i16");
        }
        for &k in &s_i32 {
            scal_i32(&ctx, &st, a, k as i32);
            note(k, "i32");
        }
        for &k in &s_i64 {
            scal_i64(&ctx, &st, a, k as i64);
            scal_isize(&ctx, &st, a, k as isize);
            note(k, "i64");
        }
        for &k in &s_u16 {
            scal_u16(&ctx, &st, a, k as u16);
            note(k, "u16");
        }
        for &k in &s_u32 {
            scal_u32(&ctx, &st, a, k as u32);
            note(k, "u32");
        }
        ctx.distinct_many(hs);
    });
    // timestamps
    let m = bu.len() as u64;
    common::par_for(m, 4, |i| {
        let t = bu[i as usize];
        ts_unary(&ctx, &st, t);
        let mut hs = Vec::new();
        for &u in &bu {
            ts_pair(&ctx, &st, t, u);
            let w = shortest(u as i128 - t as i128);
            if w != 0 && (w > 0) != (u > t) {
                hs.push(common::hash_of(&("tt", t, u)));
            }
        }
        for &d in &bi {
            ts_dur(&ctx, &st, t, d);
            let s = t as i128 + d as i128;
            if !(0..TWO64).contains(&s) {
                hs.push(common::hash_of(&("td", t, d)));
            }
        }
        ctx.distinct_many(hs);
    });
    for s in [
        0u32,
        1,
        2,
        0x7FFF_FFFF,
        0x8000_0000,
        0xFFFF_FFFE,
        u32::MAX,
        3_900_000_000,
    ] {
        for nn in [
            0u32,
            1,
            2,
            232,
            233,
            499_999_999,
            500_000_000,
            500_000_001,
            999_999_998,
            999_999_999,
        ] {
            ts_secnanos(&ctx, &st, s, nn);
        }
    }
    // floats
    let fs = FStat::default();
    common::par_for(bf.len() as u64, 256, |i| {
        from_seconds_case(&ctx, &st, &fs, bf[i as usize]);
    });
    ctx.distinct_many(bf.iter().map(|x| common::hash_of(&("f", x.to_bits()))));
    ctx.set(
        "from_seconds_saturated_max",
        fs.sat_max.load(Ordering::Relaxed),
    );
    ctx.set(
        "from_seconds_saturated_min",
        fs.sat_min.load(Ordering::Relaxed),
    );
    ctx.set("from_seconds_in_range", fs.inrange.load(Ordering::Relaxed));
    ctx.set(
        "from_seconds_below_one_unit",
        fs.tiny.load(Ordering::Relaxed),
    );
    // wire formats
    let ws_short = WStat::default();
    let ws_t32 = WStat::default();
    wire_sweep(&ctx, &st, &ws_short, "short", 16);
    wire_sweep(&ctx, &st, &ws_t32, "time32", 4);
    for &d in &bi {
        if d >= 1 << 48 {
            wire_out_of_range(&ctx, &st, &ws_short, "short", 16, d);
        }
        if d >= 1 << 36 {
            wire_out_of_range(&ctx, &st, &ws_t32, "time32", 4, d);
        }
    }
    ctx.set(
        "wire_short_patterns",
        ws_short.patterns.load(Ordering::Relaxed),
    );
    ctx.set(
        "wire_time32_patterns",
        ws_t32.patterns.load(Ordering::Relaxed),
    );
    ctx.set(
        "wire_short_too_large_saturated",
        ws_short.saturated.load(Ordering::Relaxed),
    );
    ctx.set(
        "wire_time32_too_large_saturated",
        ws_t32.saturated.load(Ordering::Relaxed),
    );
    // count wire patterns as distinct cases without storing 2^32 hashes
    let wire_patterns =
        ws_short.patterns.load(Ordering::Relaxed) + ws_t32.patterns.load(Ordering::Relaxed);
    ctx.set("distinct_wire_patterns", wire_patterns);
    // poll interval + from_exponent
    poll_checks(&ctx, &st);
    observations(&ctx, &st, &bi);

    ctx.set("evaluations", st.evals.load(Ordering::Relaxed));
    ctx.set("outcome_exact", st.exact.load(Ordering::Relaxed));
    ctx.set(
        "outcome_needs_saturation_or_wrap",
        st.saturated.load(Ordering::Relaxed),
    );
    ctx.set("outcome_panicked", st.panics.load(Ordering::Relaxed));
    ctx.set("ts_diff_negative", st.neg_diff.load(Ordering::Relaxed));
    ctx.set("ts_diff_positive", st.pos_diff.load(Ordering::Relaxed));
    ctx.set(
        "ts_diff_across_era_boundary",
        st.era_cross.load(Ordering::Relaxed),
    );
    ctx.set(
        "ts_diff_exactly_half_era",
        st.half_era.load(Ordering::Relaxed),
    );
    ctx.sample(format!(
        "timestamps 0xFFFFFFFFFFFFFFFF -> 1: difference {} (across the era boundary)",
        raw(p::ts(1) - p::ts(u64::MAX))
    ));
    ctx.sample(format!(
        "NtpDuration(MAX) + NtpDuration(1) = {}",
        raw(p::dur(i64::MAX) + p::dur(1))
    ));
    ctx.sample(format!(
        "-NtpDuration(MIN) = {:?}",
        common::catch(|| raw(-p::dur(i64::MIN)))
    ));
    ctx.sample(format!(
        "NtpDuration(MIN).abs() = {:?}",
        common::catch(|| raw(p::dur(i64::MIN).abs()))
    ));
    ctx.sample(format!(
        "NtpDuration(MIN) / -1i8 = {:?}",
        common::catch(|| raw(p::dur(i64::MIN) / -1i8))
    ));
    ctx.sample(format!(
        "from_seconds(2147483648.0) = {}",
        raw(NtpDuration::from_seconds(2147483648.0))
    ));
    ctx.sample(format!(
        "from_seconds(-1e-20) = {}",
        raw(NtpDuration::from_seconds(-1e-20))
    ));
    ctx.sample(format!(
        "to_bits_short(0x0000_FFFF_FFFF_FFFF) = {:?}",
        p::dur(0x0000_FFFF_FFFF_FFFF).to_bits_short()
    ));
    ctx.exhaustive(true);
    ctx.finish();
}
