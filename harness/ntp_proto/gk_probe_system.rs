//! gk probe for `system` (C33): the `server_info` handle the manager shares with its servers.
use super::super::{NtpManager, NtpServerInfo};
use std::sync::{Arc, RwLock};

pub(crate) fn server_info(m: &NtpManager) -> Arc<RwLock<NtpServerInfo>> {
    m.server_info.clone()
}
