//! C21 — Server statistics account for every datagram exactly once (ntp-proto part).
//!
//! Engine E-IN: C15's full policy lattice (address x deny/allow list+action x require-nts
//! x accepted versions x byte-built request datagram) x response buffer size
//! {0, 47, request length, 4096}, every case through the real `Server::handle` with a
//! counting `ServerStatHandler`; plus a rate-limited sweep (cache on, cutoff 1 h, every
//! request sent twice) so the RateLimit path is included.
//!
//! Reference (from the statement):
//!   * exactly one `register` per `handle`;
//!   * recorded response kind == what was actually done, judged from the returned
//!     `ServerAction` and the answer bytes with the harness walker
//!     (nothing sent -> Ignore, time -> ProvideTime, DENY kiss -> Deny, NTS NAK -> NTSNak);
//!   * NTS flag false for every request without NTS fields, true for every request with
//!     NTS fields (cookie / authenticator) that is answered.
//!
//! The daemon's counter mapping (`ServerStats`) is checked in /verif/harness/ntpd/c21.rs.
use std::collections::BTreeMap;
use std::net::IpAddr;
use std::sync::atomic::{AtomicBool, Ordering};
use std::time::{Duration, Instant};

use super::c15::{self, Act, Ans, Dgram, Keys, Kind, Outcome, Policy};
use super::common::{self, Ctx};
use crate::server::{ServerReason, ServerResponse};

fn resp_tag(r: ServerResponse) -> &'static str {
    match r {
        ServerResponse::NTSNak => "nak",
        ServerResponse::Deny => "deny",
        ServerResponse::Ignore => "ignore",
        ServerResponse::ProvideTime => "time",
    }
}

fn buf_sizes(d: &Dgram) -> [usize; 4] {
    [0, 47, d.bytes.len(), 4096]
}

/// Judge one handle call. `tag` distinguishes the sweeps in the trace.
fn judge(
    ctx: &Ctx,
    trace: &dyn Fn() -> String,
    d: &Dgram,
    out: &Outcome,
    tally: &mut BTreeMap<String, u64>,
) {
    if let Some(e) = &out.panic {
        ctx.violation(
            "C21:handle-panic",
            format!("Server::handle panicked: {e}"),
            trace(),
        );
        return;
    }
    let seen = c15::classify(out.resp.as_deref(), d.version);
    // exactly once
    match out.regs.len() {
        1 => {}
        0 => {
            ctx.violation(
                "C21:no-registration",
                format!(
                    "request {} was handled (answer: {}) without any statistics entry",
                    d.name,
                    seen.ans.tag()
                ),
                trace(),
            );
            *tally.entry("regs.0".into()).or_insert(0) += 1;
            return;
        }
        n => {
            ctx.violation(
                "C21:multiple-registrations",
                format!(
                    "request {} produced {n} statistics entries: {:?}",
                    d.name, out.regs
                ),
                trace(),
            );
            *tally.entry("regs.many".into()).or_insert(0) += 1;
            return;
        }
    }
    let (_version, nts, reason, response) = out.regs[0];
    *tally
        .entry(format!(
            "rec.{}.{:?}.{}",
            resp_tag(response),
            reason,
            if nts { "nts" } else { "plain" }
        ))
        .or_insert(0) += 1;
    // kind matches what was done
    let expect = match seen.ans {
        Ans::None => Some(ServerResponse::Ignore),
        Ans::Time => Some(ServerResponse::ProvideTime),
        Ans::Deny => Some(ServerResponse::Deny),
        Ans::Nak => Some(ServerResponse::NTSNak),
        Ans::Rate | Ans::Odd => None,
    };
    match expect {
        Some(e) if e == response => {}
        Some(_) => ctx.violation(
            &format!(
                "C21:kind-mismatch:did-{}:recorded-{}",
                seen.ans.tag(),
                resp_tag(response)
            ),
            format!(
                "request {}: the server {} but recorded {:?}/{:?}",
                d.name,
                match seen.ans {
                    Ans::None => "sent nothing".to_string(),
                    a => format!("sent a {} answer of {} bytes", a.tag(), seen.len),
                },
                response,
                reason
            ),
            trace(),
        ),
        None => ctx.violation(
            "C21:unclassifiable-answer",
            format!(
                "request {}: answer of {} bytes is neither time, DENY nor NAK (recorded {:?})",
                d.name, seen.len, response
            ),
            trace(),
        ),
    }
    // NTS flag
    match d.kind {
        Kind::Plain => {
            if nts {
                ctx.violation(
                    "C21:nts-flag-on-plain-request",
                    format!("request {} has no NTS fields but was recorded with the NTS flag ({:?}/{:?})", d.name, response, reason),
                    trace(),
                );
            }
        }
        Kind::NtsValid | Kind::NtsBad => {
            if out.resp.is_some() {
                *tally
                    .entry(format!(
                        "nts-answered.{}.{}",
                        seen.ans.tag(),
                        if nts { "flag" } else { "NOFLAG" }
                    ))
                    .or_insert(0) += 1;
                if !nts {
                    let class = if d.kind == Kind::NtsBad && seen.ans == Ans::Deny {
                        "C21:nts-flag-missing-on-denied-undecryptable".to_string()
                    } else {
                        format!("C21:nts-flag-missing-on-{}", seen.ans.tag())
                    };
                    ctx.violation(
                        &class,
                        format!(
                            "request {} carries NTS fields ({:?}) and was answered with {} but recorded without the NTS flag ({:?}/{:?})",
                            d.name,
                            d.kind,
                            seen.ans.tag(),
                            response,
                            reason
                        ),
                        trace(),
                    );
                }
            }
        }
    }
}

// ---------------------------------------------------------------------------------
// schedule part: the system task holds the write lock on the shared server info while a
// request is handled (same schedule as C18 part (f) of group gg, on this group's toolkit)
// ---------------------------------------------------------------------------------

const SCHED_DGRAMS: [&str; 5] = ["v3.plain.m3", "v4.plain.m3", "v5.plain.m3", "v4.nts.ok.m3", "v4.nts.badtag.m3"];
const SCHED_ADDR: &str = "10.1.2.3";

fn sched_policy(denied: bool) -> Policy {
    let all = c15::lists(false)[1].1.clone();
    Policy {
        deny_name: if denied { "all" } else { "empty" },
        deny: if denied { all.clone() } else { vec![] },
        deny_act: Act::Deny,
        allow_name: "all",
        allow: all,
        allow_act: Act::Ignore,
        require_nts: None,
        versions: 7,
        cache_size: 0,
        cutoff: Duration::ZERO,
    }
}

/// One schedule: the harness takes the write lock BEFORE the handler thread starts, waits
/// until the handler returned or has been seen blocked for 50 ms, optionally stores a new
/// snapshot, releases the lock on every path, then joins (dead man: 30 s -> cap, no verdict).
/// The verdict (exactly one entry, kind == what was returned, NTS flag) does not depend on
/// which of the two the handler did.
fn run_schedule(ctx: &Ctx, keys: &Keys, d: &Dgram, denied: bool, store: bool) -> String {
    let p = sched_policy(denied);
    let info = c15::server_info();
    let mut server = p.server_shared(keys, info.clone());
    let addr: IpAddr = SCHED_ADDR.parse().unwrap();
    let trace = || format!("sched;pol={};dg={};store={}", if denied { "denied" } else { "allowed" }, d.name, store as u8);
    let done = AtomicBool::new(false);
    let mut blocked = false;
    let mut dead_man = false;
    let mut handled: Option<std::thread::Result<Outcome>> = None;
    std::thread::scope(|s| {
        let mut guard = info.write().expect("fresh lock");
        let h = s.spawn(|| {
            let mut buf = vec![0u8; 4096];
            let r = c15::run_handle(&mut server, addr, &d.bytes, &mut buf);
            done.store(true, Ordering::SeqCst);
            r
        });
        let t0 = Instant::now();
        while !done.load(Ordering::SeqCst) && t0.elapsed() < Duration::from_millis(50) {
            std::thread::sleep(Duration::from_micros(200));
        }
        blocked = !done.load(Ordering::SeqCst);
        if store {
            guard.ntp_snapshot.stratum = 3;
        }
        drop(guard); // released on every path before joining
        let t1 = Instant::now();
        while !done.load(Ordering::SeqCst) {
            if t1.elapsed() > Duration::from_secs(30) {
                dead_man = true;
                break;
            }
            std::thread::sleep(Duration::from_micros(200));
        }
        handled = Some(h.join());
    });
    ctx.inc("sched.cases");
    ctx.inc("evaluations");
    ctx.inc("transitions");
    ctx.inc(if blocked { "sched.handler_waited_for_the_writer" } else { "sched.handler_returned_while_write_locked" });
    if dead_man {
        ctx.cap_hit(&format!("schedule dead man expired for {}", trace()));
    }
    match handled {
        Some(Ok(out)) => {
            let mut tally = BTreeMap::new();
            judge(ctx, &trace, d, &out, &mut tally);
            for (k, v) in tally {
                ctx.add(&format!("sched.{k}"), v);
            }
            ctx.distinct(common::hash_of(&("sched", &d.name, denied, store)));
            let seen = c15::classify(out.resp.as_deref(), d.version);
            format!("did={} len={} regs={:?} panic={:?}", seen.ans.tag(), seen.len, out.regs, out.panic)
        }
        _ => {
            ctx.cap_hit(&format!("schedule handler thread lost for {}", trace()));
            "handler thread lost".into()
        }
    }
}

fn part_schedule(ctx: &Ctx, keys: &Keys, alpha: &[Dgram]) {
    for name in SCHED_DGRAMS {
        let d = alpha.iter().find(|d| d.name == name).expect("datagram");
        for denied in [false, true] {
            for store in [false, true] {
                let obs = run_schedule(ctx, keys, d, denied, store);
                if !denied && !store {
                    ctx.sample(format!("sched;pol=allowed;dg={};store=0 -> {obs}", d.name));
                }
            }
        }
    }
}

fn buffer_for(size: usize) -> Vec<u8> {
    vec![0u8; size]
}

fn replay(ctx: &Ctx, trace: &str) -> String {
    let keys = Keys::new();
    let f = c15::parse_fields(trace);
    if trace.starts_with("sched") {
        let alpha = c15::alphabet(&keys);
        let Some(d) = alpha.iter().find(|d| Some(&d.name) == f.get("dg")) else {
            return "unknown datagram".into();
        };
        let denied = f.get("pol").map(|s| s.as_str()) == Some("denied");
        let store = f.get("store").map(|s| s.as_str()) == Some("1");
        return run_schedule(ctx, &keys, d, denied, store);
    }
    let Some(p) = Policy::parse(&f) else {
        return format!("unparsable trace {trace:?}");
    };
    let Some(addr) = f.get("addr").and_then(|a| a.parse::<IpAddr>().ok()) else {
        return "bad addr".into();
    };
    let alpha = c15::alphabet(&keys);
    let Some(d) = alpha.iter().find(|d| Some(&d.name) == f.get("dg")) else {
        return "unknown datagram".into();
    };
    let bufsize: usize = f.get("buf").and_then(|s| s.parse().ok()).unwrap_or(4096);
    let repeat: usize = f.get("rep").and_then(|s| s.parse().ok()).unwrap_or(1);
    let (mut server, _clock) = p.server(&keys);
    let mut buf = buffer_for(bufsize);
    let mut obs = Vec::new();
    for _ in 0..repeat {
        let out = c15::run_handle(&mut server, addr, &d.bytes, &mut buf);
        let mut tally = BTreeMap::new();
        let t = || trace.to_string();
        judge(ctx, &t, d, &out, &mut tally);
        let seen = c15::classify(out.resp.as_deref(), d.version);
        obs.push(format!(
            "did={} len={} regs={:?} panic={:?}",
            seen.ans.tag(),
            seen.len,
            out.regs,
            out.panic
        ));
    }
    format!(
        "request={} ({:?}) buf={} -> {}",
        d.name,
        d.kind,
        bufsize,
        obs.join(" ; ")
    )
}

/// Print NTS request fixtures for the ntpd half (`VERIF_GF_EMIT=1`): requests that
/// authenticate under the key set `KeySetProvider::load` builds from id-offset 1 and an
/// all-zero key.
#[test]
fn emit_fixtures() {
    if std::env::var("VERIF_GF_EMIT").is_err() {
        return;
    }
    let keys = Keys::new();
    for d in c15::alphabet(&keys) {
        if ["v4.nts.ok.m3", "v5.nts.ok.m3"].contains(&d.name.as_str()) {
            println!("FIXTURE {} {}", d.name, common::hex(&d.bytes));
        }
    }
}

#[test]
fn check() {
    let ctx = Ctx::new("C21");
    if let Some(t) = common::replay_trace() {
        let a = replay(&ctx, &t);
        let b = replay(&ctx, &t);
        common::report_replay("C21", &a, &b, ctx.violation_count() > 0);
        return;
    }
    let thorough = !ctx.quick();
    let keys = Keys::new();
    let alpha = c15::alphabet(&keys);
    let addrs = c15::addresses(thorough);
    let pols = c15::policies(thorough);
    ctx.rule(
        "C15's full lattice (client address x deny list x deny action x allow list x allow action x require-nts x every subset of \
         accepted versions x byte-built request datagram: plain/NTS-valid/NTS-undecryptable in every mode, other drafts, malformed) x \
         response buffer size {0, 47, request length, 4096}; plus, with the rate limiter on (cache 4 slots, cutoff 1 h), every \
         (list configuration, address, datagram) handled twice in a row with a 4096-byte buffer. quick = base address/list sets, \
         thorough = extended sets. Schedule part (both tiers): 5 requests (plain v3/v4/v5, NTS valid, NTS undecryptable) x \
         {allowed client, deny-listed client with action deny} x {server-info write lock held while the request is handled and released \
         unchanged, held and a new snapshot stored}: exactly one entry, kind and NTS flag as above. Distinct & non-trivial = a (policy, address, datagram, buffer) case in which an answer was \
         attempted (the recorded kind is not a policy/parse 'Ignore'), i.e. serialisation and the NTS flag rules are exercised.",
    );
    ctx.assume("what was 'actually done' is read from the returned ServerAction and the answer bytes (harness walker: stratum, kiss code / v5 flags), not from the decoder under test");
    ctx.assume("schedule part: the harness takes the write lock before the handler thread starts and keeps it until the handler returned or was seen blocked for 50 ms; the verdict is the same for both outcomes, a handler that never returns gives a cap, not a verdict");
    ctx.assume("an 'NTS request' is a datagram that carries NTS fields (cookie and/or authenticator), whether or not it authenticates; a 'plain request' carries none");
    ctx.assume(
        "the version argument of register is not constrained by the statement and is not judged",
    );
    ctx.set("factor.addresses", addrs.len() as u64);
    ctx.set("factor.policies", pols.len() as u64);
    ctx.set("factor.datagrams", alpha.len() as u64);
    // ---- sweep 1: lattice x buffer sizes ----
    common::par_for(pols.len() as u64, 4, |pi| {
        let p = &pols[pi as usize];
        let (mut server, _clock) = p.server(&keys);
        let mut tally: BTreeMap<String, u64> = BTreeMap::new();
        let mut hashes = Vec::new();
        let mut n = 0u64;
        let mut bufs: BTreeMap<usize, Vec<u8>> = BTreeMap::new();
        for (ai, addr) in addrs.iter().enumerate() {
            for (di, d) in alpha.iter().enumerate() {
                for (bi, bs) in buf_sizes(d).iter().enumerate() {
                    // request length may coincide with another size: still run (cheap), counted once as distinct
                    let buf = bufs.entry(*bs).or_insert_with(|| buffer_for(*bs));
                    let out = c15::run_handle(&mut server, *addr, &d.bytes, buf);
                    n += 1;
                    let trace = || format!("{};addr={};dg={};buf={}", p.trace(), addr, d.name, bs);
                    judge(&ctx, &trace, d, &out, &mut tally);
                    if let Some(r) = out.regs.first() {
                        let attempted =
                            r.3 != ServerResponse::Ignore || r.2 == ServerReason::InternalError;
                        if attempted {
                            hashes.push(common::hash_of(&(pi, ai, di, *bs)));
                        }
                    }
                    if pi % 1201 == 7 && ai == 0 && di % 23 == 3 && bi == 2 {
                        ctx.sample(format!("{} -> regs {:?}", trace(), out.regs));
                    }
                }
            }
        }
        ctx.distinct_many(hashes);
        ctx.add("evaluations", n);
        ctx.add("transitions", n);
        ctx.add("states", 1);
        for (k, v) in tally {
            ctx.add(&k, v);
        }
    });
    // ---- sweep 2: rate limiter on, every request twice ----
    let rl_pols: Vec<Policy> = pols
        .iter()
        .filter(|p| p.require_nts.is_none() && p.versions == 7)
        .map(|p| {
            let mut q = p.clone();
            q.cache_size = 4;
            q.cutoff = Duration::from_secs(3600);
            q
        })
        .collect();
    ctx.set("factor.ratelimit_policies", rl_pols.len() as u64);
    common::par_for(rl_pols.len() as u64, 1, |pi| {
        let p = &rl_pols[pi as usize];
        let mut tally: BTreeMap<String, u64> = BTreeMap::new();
        let mut n = 0u64;
        let mut hashes = Vec::new();
        let mut buf = buffer_for(4096);
        for (ai, addr) in addrs.iter().enumerate() {
            for (di, d) in alpha.iter().enumerate() {
                // fresh server: the two requests of this pair are the whole history
                let (mut server, _clock) = p.server(&keys);
                for rep in 1..=2usize {
                    let out = c15::run_handle(&mut server, *addr, &d.bytes, &mut buf);
                    n += 1;
                    let trace = || {
                        format!(
                            "{};addr={};dg={};buf=4096;rep={}",
                            p.trace(),
                            addr,
                            d.name,
                            rep
                        )
                    };
                    judge(&ctx, &trace, d, &out, &mut tally);
                    if out.regs.first().map(|r| r.2) == Some(ServerReason::RateLimit) {
                        hashes.push(common::hash_of(&("rl", pi, ai, di)));
                    }
                }
            }
        }
        ctx.distinct_many(hashes);
        ctx.add("evaluations", n);
        ctx.add("transitions", n);
        ctx.add("states", 1);
        for (k, v) in tally {
            ctx.add(&format!("rl.{k}"), v);
        }
    });
    // ---- schedule part: handled while the system task holds the write lock ----
    part_schedule(&ctx, &keys, &alpha);
    ctx.exhaustive(true);
    ctx.finish();
}
