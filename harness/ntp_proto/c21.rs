//! C21: not implemented yet.
