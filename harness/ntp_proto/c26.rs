//! C26 — Server cookies are confidential, tamper-evident and rotate on schedule.
//!
//! Engine E-SEQ (explicit-state search over the real `KeySetProvider`) + positional sweeps.
//!
//! (a) For every history length h and every start (fresh provider; a one-key provider whose
//!     key-id offset is u32::MAX-d, d = 0..=h+2, so the id wrap falls into every phase of
//!     filling the window and into the steady state) all sequences over
//!     {issue(AES-SIV-CMAC-256), issue(AES-SIV-CMAC-512), rotate} are explored breadth first to
//!     the fixpoint of the abstract key (rotation count saturated at h+2, number of keys,
//!     id offset while the id window touches the wrap, set of (age saturated at h+2,
//!     algorithm) of the outstanding cookies). After every rotation (thorough: after EVERY
//!     transition) every outstanding cookie is decoded by the real `KeySet::decode_cookie`
//!     and compared with the reference model, after an issue the cookies of the current
//!     rotation; cookies made by an independent key set with the same ids must fail.
//! (a2) the same with restarts: alphabet {issue one cookie per algorithm, rotate, restart =
//!     real `store` + real `load` with history h' for every h' in 0..=4 (thorough 0..=5)}, so the
//!     provider can hold more (or fewer) keys than its configured history + 1; reference model
//!     and the decision about the slack after a history-reducing restart: see section (a2).
//! (b) every byte of a cookie (every key age 0..=h, both algorithms, set straddling the id
//!     wrap or not) xor every single-bit mask (thorough: every non-zero byte value), and
//!     every proper prefix of the cookie.
//! (c) session-key grid: every (algorithm, s2c pattern, c2s pattern) round trip.
//!
//! Reference model (from the statement only): a provider started with key id `id0` has,
//! after r rotations, newest key id `id0 + r (mod 2^32)`; a cookie issued at rotation r0 is
//! valid at rotation r iff r - r0 <= h, and then decodes to exactly the algorithm and the two
//! session keys it was made from; new cookies carry the newest id in their first 4 bytes
//! (observable on the wire: the id field is what selects the key at decode time).
use std::collections::BTreeSet;

use super::common::{self, Ctx};
use crate::keyset::verif_probe::gi as probe;
use crate::keyset::{DecodedServerCookie, KeySetProvider};
use crate::nts::AeadAlgorithm;
use crate::packet::{AesSivCmac256, AesSivCmac512, Cipher};

// ---------------------------------------------------------------------------------
// session keys
// ---------------------------------------------------------------------------------

const NPAT: u8 = 5;

/// Deterministic session-key material: `pat` selects the byte pattern, `salt` makes the two
/// directions differ for the patterns that are not constant.
pub(super) fn key_material(alg: u8, pat: u8, salt: u8) -> Vec<u8> {
    let n = if alg == 0 { 32 } else { 64 };
    (0..n)
        .map(|i| match pat {
            0 => 0x00,
            1 => 0xff,
            2 => (i as u8).wrapping_add(salt.wrapping_mul(64)),
            3 => 0xa5 ^ (i as u8).wrapping_mul(37) ^ salt,
            _ => {
                // splitmix-style bytes
                let mut z = (i as u64 + 1).wrapping_mul(0x9e3779b97f4a7c15)
                    ^ ((salt as u64) << 32)
                    ^ alg as u64;
                z = (z ^ (z >> 30)).wrapping_mul(0xbf58476d1ce4e5b9);
                (z >> 24) as u8
            }
        })
        .collect()
}

pub(super) fn mk_cookie(alg: u8, s2c: &[u8], c2s: &[u8]) -> DecodedServerCookie {
    if alg == 0 {
        DecodedServerCookie {
            algorithm: AeadAlgorithm::AeadAesSivCmac256,
            s2c: Box::new(AesSivCmac256::try_from(s2c).expect("32 bytes")),
            c2s: Box::new(AesSivCmac256::try_from(c2s).expect("32 bytes")),
        }
    } else {
        DecodedServerCookie {
            algorithm: AeadAlgorithm::AeadAesSivCmac512,
            s2c: Box::new(AesSivCmac512::try_from(s2c).expect("64 bytes")),
            c2s: Box::new(AesSivCmac512::try_from(c2s).expect("64 bytes")),
        }
    }
}

pub(super) fn alg_of(a: AeadAlgorithm) -> u8 {
    match a {
        AeadAlgorithm::AeadAesSivCmac256 => 0,
        AeadAlgorithm::AeadAesSivCmac512 => 1,
        AeadAlgorithm::Unknown(_) => 2,
    }
}

#[derive(Clone)]
pub(super) struct Issued {
    pub bytes: Vec<u8>,
    pub alg: u8,
    pub s2c: Vec<u8>,
    pub c2s: Vec<u8>,
    pub rot: u64, // rotation count at which it was issued
}

#[derive(Clone, Copy, PartialEq, Eq, Debug)]
pub(super) enum Dec {
    Same,
    Differs,
    Rejected,
    Panic,
}

pub(super) fn decode_vs(
    prov: &KeySetProvider,
    bytes: &[u8],
    alg: u8,
    s2c: &[u8],
    c2s: &[u8],
) -> (Dec, String) {
    let ks = prov.get();
    match common::catch(|| ks.decode_cookie(bytes)) {
        Err(p) => (Dec::Panic, p),
        Ok(Err(_)) => (Dec::Rejected, String::new()),
        Ok(Ok(d)) => {
            if alg_of(d.algorithm) == alg && d.s2c.key_bytes() == s2c && d.c2s.key_bytes() == c2s {
                (Dec::Same, String::new())
            } else {
                (Dec::Differs, format!("alg {:?}", d.algorithm))
            }
        }
    }
}

fn contains(hay: &[u8], needle: &[u8]) -> bool {
    !needle.is_empty() && hay.windows(needle.len()).any(|w| w == needle)
}

// ---------------------------------------------------------------------------------
// (a) explicit-state search
// ---------------------------------------------------------------------------------

#[derive(Clone, Copy, Debug)]
struct Cfg {
    h: usize,
    /// None: `KeySetProvider::new(h)`; Some(o): one random key, id_offset o, primary 0
    start: Option<u32>,
}

impl Cfg {
    fn id0(&self) -> u32 {
        self.start.unwrap_or(0)
    }
    fn fresh(&self) -> KeySetProvider {
        match self.start {
            None => KeySetProvider::new(self.h),
            Some(o) => probe::build(
                &probe::View {
                    keys: vec![AesSivCmac512::new_random().key_bytes().to_vec()],
                    id_offset: o,
                    primary: 0,
                },
                self.h,
            ),
        }
    }
    fn tag(&self) -> String {
        match self.start {
            None => format!("h={};start=new", self.h),
            Some(o) => format!("h={};start={}", self.h, o),
        }
    }
}

struct St {
    prov: KeySetProvider,
    r: u64,
    out: Vec<std::sync::Arc<Issued>>,
    ops: Vec<u8>,
}

impl St {
    fn clone_state(&self) -> St {
        St {
            prov: probe::clone_provider(&self.prov),
            r: self.r,
            out: self.out.clone(),
            ops: self.ops.clone(),
        }
    }
}

/// Per-worker counters (flushed into the Ctx once per configuration; a mutex round trip per
/// decode would dominate the run time).
#[derive(Default)]
struct Tally {
    /// thorough tier: re-decode every outstanding cookie and one foreign cookie per key slot
    /// after *every* transition. Quick tier: all of them after every rotation; after an
    /// issue (which takes `&KeySet`, a plain struct without interior mutability, so the
    /// answers for older cookies are those already checked in the parent state) only the
    /// cookies of the current rotation, and one foreign cookie for one slot.
    full: bool,
    decodes: u64,
    issued: u64,
    valid: u64,
    expired: u64,
    foreign: u64,
    reloads: u64,
    slack_decoded: u64,
    slack_rejected: u64,
}

impl Tally {
    fn flush(&self, ctx: &Ctx) {
        ctx.add("decodes", self.decodes);
        ctx.add("cookies_issued", self.issued);
        ctx.add("valid_decoded", self.valid);
        ctx.add("expired_rejected", self.expired);
        ctx.add("foreign_rejected", self.foreign);
        ctx.add("reloads", self.reloads);
        ctx.add("reload_slack_decoded", self.slack_decoded);
        ctx.add("reload_slack_rejected", self.slack_rejected);
    }
}

fn ops_str(ops: &[u8]) -> String {
    ops.iter().map(|o| char::from(b'0' + *o)).collect()
}

type Key = (u64, usize, Option<u32>, BTreeSet<(u64, u8)>);

fn key_of(cfg: &Cfg, s: &St) -> Key {
    let h = cfg.h as u64;
    let (nkeys, id_offset, _) = probe::meta(&s.prov.get());
    // ids of outstanding (not yet merged) cookies and of the keys lie in
    // [id_offset-(h+2), id_offset+h]; while that window touches the wrap the offset is part
    // of the key so that pre- and post-wrap states are never merged.
    let near = id_offset.wrapping_add(cfg.h as u32 + 1) <= 2 * cfg.h as u32 + 3;
    (
        s.r.min(h + 2),
        nkeys,
        if near { Some(id_offset) } else { None },
        s.out
            .iter()
            .map(|c| ((s.r - c.rot).min(h + 2), c.alg))
            .collect(),
    )
}

/// Apply one operation to the real provider and check everything the statement says about
/// the resulting state. Returns a canonical observation (for replay).
fn apply(ctx: &Ctx, t: &mut Tally, cfg: &Cfg, s: &mut St, op: u8) -> String {
    let h = cfg.h as u64;
    s.ops.push(op);
    let trace = || format!("seq;{};ops={}", cfg.tag(), ops_str(&s.ops));
    let mut obs = String::new();
    if op == 2 {
        if let Err(p) = common::catch(|| s.prov.rotate()) {
            ctx.violation("C26:rotate-panic", format!("rotate panicked: {p}"), trace());
            return "rotate-panic".into();
        }
        s.r += 1;
        obs.push_str("R:");
    } else {
        let alg = op;
        let pat = (s.ops.len() as u8) % NPAT;
        let s2c = key_material(alg, pat, 1);
        let c2s = key_material(alg, pat, 2);
        let dc = mk_cookie(alg, &s2c, &c2s);
        let ks = s.prov.get();
        let bytes = match common::catch(|| ks.encode_cookie(&dc)) {
            Ok(b) => b,
            Err(p) => {
                ctx.violation(
                    "C26:encode-panic",
                    format!("encode_cookie panicked: {p}"),
                    trace(),
                );
                return "encode-panic".into();
            }
        };
        t.issued += 1;
        let want_id = cfg.id0().wrapping_add(s.r as u32);
        let got_id = bytes
            .get(0..4)
            .map(|b| u32::from_be_bytes(b.try_into().unwrap()));
        if got_id != Some(want_id) {
            ctx.violation(
                "C26:new-cookie-not-newest-key",
                format!("cookie issued after {} rotations carries key id {got_id:?}, the newest key has id {want_id}", s.r),
                trace(),
            );
        }
        if contains(&bytes, &s2c[..16]) || contains(&bytes, &c2s[..16]) {
            ctx.violation(
                "C26:session-key-in-clear",
                "cookie contains session key bytes in clear",
                trace(),
            );
        }
        obs.push_str(&format!("I{alg}id={got_id:?}len={}:", bytes.len()));
        // keep at most one outstanding cookie per (age, alg) (the abstraction of the key)
        if !s.out.iter().any(|c| c.rot == s.r && c.alg == alg) {
            s.out.push(std::sync::Arc::new(Issued {
                bytes,
                alg,
                s2c,
                c2s,
                rot: s.r,
            }));
        } else {
            // still check that this very cookie decodes now
            let (d, why) = decode_vs(&s.prov, &bytes, alg, &s2c, &c2s);
            t.decodes += 1;
            if d != Dec::Same {
                ctx.violation(
                    "C26:valid-cookie-rejected",
                    format!("fresh cookie does not decode to its keys: {d:?} {why}"),
                    trace(),
                );
            }
        }
    }
    // every outstanding cookie against the model
    for c in &s.out {
        let age = s.r - c.rot;
        if !t.full && op != 2 && age != 0 {
            continue;
        }
        let (d, why) = decode_vs(&s.prov, &c.bytes, c.alg, &c.s2c, &c.c2s);
        t.decodes += 1;
        obs.push_str(match d {
            Dec::Same => "s",
            Dec::Differs => "d",
            Dec::Rejected => "x",
            Dec::Panic => "p",
        });
        match (d, age <= h) {
            (Dec::Same, true) => t.valid += 1,
            (Dec::Rejected, false) => t.expired += 1,
            (Dec::Panic, _) => ctx.violation(
                "C26:decode-panic",
                format!("decode_cookie panicked: {why}"),
                trace(),
            ),
            (Dec::Differs, _) => ctx.violation(
                "C26:decoded-keys-differ",
                format!(
                    "cookie of age {age} (history {h}) decodes to other keys/algorithm ({why})"
                ),
                trace(),
            ),
            (Dec::Rejected, true) => ctx.violation(
                "C26:valid-cookie-rejected",
                format!("cookie issued {age} rotations ago is rejected although history is {h}"),
                trace(),
            ),
            (Dec::Same, false) => ctx.violation(
                "C26:expired-cookie-accepted",
                format!("cookie issued {age} rotations ago still decodes although history is {h}"),
                trace(),
            ),
        }
    }
    // merge cookies that are expired for good (age >= h+2): keep the first per algorithm
    let r = s.r;
    let mut seen = BTreeSet::new();
    s.out.retain(|c| {
        let a = (r - c.rot).min(h + 2);
        a < h + 2 || seen.insert(c.alg)
    });
    // foreign cookies: an independent key set with the same ids, one cookie per key slot
    let (nkeys, id_offset, _) = probe::meta(&s.prov.get());
    for slot in 0..nkeys {
        if !t.full && op != 2 && slot != s.ops.len() % nkeys {
            continue;
        }
        let foreign = probe::build(
            &probe::View {
                keys: (0..nkeys)
                    .map(|_| AesSivCmac512::new_random().key_bytes().to_vec())
                    .collect(),
                id_offset,
                primary: slot as u32,
            },
            cfg.h,
        );
        let alg = (slot % 2) as u8;
        let s2c = key_material(alg, 2, 1);
        let c2s = key_material(alg, 2, 2);
        let fc = foreign.get().encode_cookie(&mk_cookie(alg, &s2c, &c2s));
        let (d, why) = decode_vs(&s.prov, &fc, alg, &s2c, &c2s);
        t.decodes += 1;
        match d {
            Dec::Rejected => t.foreign += 1,
            Dec::Panic => ctx.violation(
                "C26:decode-panic",
                format!("decode of foreign cookie panicked: {why}"),
                trace(),
            ),
            _ => ctx.violation(
                "C26:foreign-cookie-accepted",
                format!("cookie of a different key set (slot {slot}) decodes: {d:?}"),
                trace(),
            ),
        }
        obs.push(if d == Dec::Rejected { 'f' } else { 'F' });
    }
    obs
}

fn explore(ctx: &Ctx, cfg: Cfg) {
    let init = St {
        prov: cfg.fresh(),
        r: 0,
        out: vec![],
        ops: vec![],
    };
    let mut maxr = 0u64;
    let mut t = Tally {
        full: !ctx.quick(),
        ..Tally::default()
    };
    let mut distinct = Vec::new();
    let stats = common::bfs(
        vec![init],
        |s| key_of(&cfg, s),
        |s, _d| {
            let mut v = Vec::with_capacity(3);
            for op in 0..3u8 {
                let mut n = s.clone_state();
                apply(ctx, &mut t, &cfg, &mut n, op);
                maxr = maxr.max(n.r);
                if n.r >= 1 && !n.out.is_empty() {
                    distinct.push(common::hash_of(&(cfg.h, cfg.start, key_of(&cfg, &n))));
                }
                v.push(n);
            }
            v
        },
        10_000,
    );
    t.flush(ctx);
    ctx.distinct_many(distinct);
    ctx.add("states", stats.states);
    ctx.add("transitions", stats.transitions);
    ctx.add("evaluations", stats.transitions);
    ctx.max("max_depth", stats.max_depth);
    ctx.max("max_rotations", maxr);
    ctx.inc("configs");
    if stats.fixpoint {
        ctx.inc("configs_at_fixpoint");
    } else {
        ctx.cap_hit(&format!(
            "{}: depth bound reached before fixpoint",
            cfg.tag()
        ));
    }
    if cfg.start.is_none() || cfg.start == Some(u32::MAX) {
        ctx.sample(format!(
            "{}: fixpoint after depth {} with {} abstract states / {} transitions, up to {} rotations",
            cfg.tag(), stats.max_depth, stats.states, stats.transitions, maxr
        ));
    }
}

// ---------------------------------------------------------------------------------
// (a2) explicit-state search with restarts: store, then load with another history
// ---------------------------------------------------------------------------------
//
// Reference model (statement, restated for a history that changes at a restart). Keys are
// numbered by the rotation count at which they became newest (generation g, newest = r).
// H is the currently configured history. Two bounds lo <= m are kept:
//   g <  lo : the key left the window "current + H previous" at some rotation  -> the cookie
//             MUST fail ("fails to decode afterwards"; nothing brings a forgotten key back);
//   g >= m  : the key is among the current and the H previous keys and never had to be
//             forgotten                                                        -> MUST decode;
//   lo <= g < m : SLACK. Arises only between a restart with a smaller history h' and the next
//             rotation (keys older than r-h' that the stored set still holds), and for such
//             keys if the history is raised again before they were rotated out.
// rotate: r+=1, lo=max(lo, r-H), m=max(m, lo).   reload(h'): H=h', m=max(m, r-h').
//
// Decision on the slack (see notes/gi.md): not judged. C26's expiry clause read literally
// would demand rejection right after a history-reducing restart, C27's statement ("keys stored
// are restored on restart, so cookies issued before the restart stay valid"; "restores exactly
// the key set being stored") demands the opposite for the very same cookies, and C26's own
// quantifier fixes the history per run and ties expiry to rotation ("rotate on schedule").
// Both outcomes are therefore accepted in that interval and COUNTED (reload_slack_decoded /
// reload_slack_rejected) so the evidence shows what the implementation does. After the next
// rotation the window is strict again.

#[derive(Clone, Copy, Debug)]
struct RCfg {
    start: Option<u32>,
    /// reload histories 0..=hmax
    hmax: usize,
}

impl RCfg {
    fn tag(&self) -> String {
        match self.start {
            None => format!("start=new;hmax={}", self.hmax),
            Some(o) => format!("start={o};hmax={}", self.hmax),
        }
    }
    fn sat(&self) -> u64 {
        self.hmax as u64 + 2
    }
}

struct RSt {
    prov: KeySetProvider,
    r: u64,
    hist: usize,
    lo: u64,
    m: u64,
    out: Vec<std::sync::Arc<Issued>>,
    ops: Vec<u8>,
}

type RKey = (u64, usize, usize, u64, u64, BTreeSet<(u64, u8)>);

fn rkey_of(cfg: &RCfg, s: &RSt) -> RKey {
    let (nkeys, _, _) = probe::meta(&s.prov.get());
    (
        s.r.min(cfg.sat() + 1),
        s.hist,
        nkeys,
        s.r - s.lo,
        s.r - s.m,
        s.out
            .iter()
            .map(|c| ((s.r - c.rot).min(cfg.sat()), c.alg))
            .collect(),
    )
}

/// ops: 0 = issue one cookie of each algorithm, 1 = rotate, 2+h' = store + load with history h'
fn apply_r(ctx: &Ctx, t: &mut Tally, cfg: &RCfg, s: &mut RSt, op: u8) -> String {
    s.ops.push(op);
    let trace = || format!("rseq;{};ops={}", cfg.tag(), ops_str(&s.ops));
    let id0 = cfg.start.unwrap_or(0);
    let mut obs = String::new();
    match op {
        0 => {
            for alg in 0..2u8 {
                let pat = (s.ops.len() as u8) % NPAT;
                let s2c = key_material(alg, pat, 1);
                let c2s = key_material(alg, pat, 2);
                let ks = s.prov.get();
                let bytes = match common::catch(|| ks.encode_cookie(&mk_cookie(alg, &s2c, &c2s))) {
                    Ok(b) => b,
                    Err(p) => {
                        ctx.violation(
                            "C26:encode-panic",
                            format!("encode_cookie panicked: {p}"),
                            trace(),
                        );
                        return "encode-panic".into();
                    }
                };
                t.issued += 1;
                let want_id = id0.wrapping_add(s.r as u32);
                let got_id = bytes
                    .get(0..4)
                    .map(|b| u32::from_be_bytes(b.try_into().unwrap()));
                if got_id != Some(want_id) {
                    ctx.violation(
                        "C26:new-cookie-not-newest-key",
                        format!("cookie issued after {} rotations (history now {}) carries key id {got_id:?}, the newest key has id {want_id}", s.r, s.hist),
                        trace(),
                    );
                }
                obs.push_str(&format!("I{alg}id={got_id:?}:"));
                if !s.out.iter().any(|c| c.rot == s.r && c.alg == alg) {
                    s.out.push(std::sync::Arc::new(Issued {
                        bytes,
                        alg,
                        s2c,
                        c2s,
                        rot: s.r,
                    }));
                } else {
                    let (d, why) = decode_vs(&s.prov, &bytes, alg, &s2c, &c2s);
                    t.decodes += 1;
                    if d != Dec::Same {
                        ctx.violation(
                            "C26:valid-cookie-rejected",
                            format!("fresh cookie does not decode to its keys: {d:?} {why}"),
                            trace(),
                        );
                    }
                }
            }
        }
        1 => {
            if let Err(p) = common::catch(|| s.prov.rotate()) {
                ctx.violation("C26:rotate-panic", format!("rotate panicked: {p}"), trace());
                return "rotate-panic".into();
            }
            s.r += 1;
            s.lo = s.lo.max(s.r.saturating_sub(s.hist as u64));
            s.m = s.m.max(s.lo);
            obs.push_str("R:");
        }
        _ => {
            let h2 = (op - 2) as usize;
            let mut file = Vec::new();
            let loaded = common::catch(|| {
                s.prov.store(&mut file)?;
                KeySetProvider::load(&mut std::io::Cursor::new(&file), h2)
            });
            match loaded {
                Ok(Ok((p, _))) => s.prov = p,
                other => {
                    ctx.violation(
                        "C26:reload-fails",
                        format!(
                            "store + load with history {h2} fails: {:?}",
                            other.map(|r| r.map(|_| ()))
                        ),
                        trace(),
                    );
                    return "reload-fails".into();
                }
            }
            t.reloads += 1;
            s.hist = h2;
            s.m = s.m.max(s.r.saturating_sub(h2 as u64));
            obs.push_str(&format!("L{h2}:"));
        }
    }
    for c in &s.out {
        let g = c.rot;
        if !t.full && op == 0 && g != s.r {
            continue;
        }
        let (d, why) = decode_vs(&s.prov, &c.bytes, c.alg, &c.s2c, &c.c2s);
        t.decodes += 1;
        obs.push_str(match d {
            Dec::Same => "s",
            Dec::Differs => "d",
            Dec::Rejected => "x",
            Dec::Panic => "p",
        });
        let age = s.r - g;
        match d {
            Dec::Panic => ctx.violation("C26:decode-panic", format!("decode_cookie panicked: {why}"), trace()),
            Dec::Differs => ctx.violation("C26:decoded-keys-differ", format!("cookie of age {age} decodes to other keys/algorithm ({why})"), trace()),
            Dec::Same if g >= s.m => t.valid += 1,
            Dec::Rejected if g < s.lo => t.expired += 1,
            Dec::Same if g < s.lo => ctx.violation(
                "C26:expired-cookie-accepted",
                format!("cookie issued {age} rotations ago still decodes; its key left the window (current history {}, oldest key that may be valid is {} rotations old)", s.hist, s.r - s.lo),
                trace(),
            ),
            Dec::Rejected if g >= s.m => ctx.violation(
                "C26:valid-cookie-rejected",
                format!("cookie issued {age} rotations ago is rejected although the configured history is {} and its key was never rotated out (restarts with other histories in the trace)", s.hist),
                trace(),
            ),
            Dec::Same => t.slack_decoded += 1,
            Dec::Rejected => t.slack_rejected += 1,
        }
    }
    let (r, sat) = (s.r, cfg.sat());
    let mut seen = BTreeSet::new();
    s.out.retain(|c| (r - c.rot) < sat || seen.insert(c.alg));
    obs
}

fn explore_reload(ctx: &Ctx, cfg: RCfg) {
    let init = RSt {
        prov: Cfg {
            h: 0,
            start: cfg.start,
        }
        .fresh(),
        r: 0,
        hist: 0,
        lo: 0,
        m: 0,
        out: vec![],
        ops: vec![],
    };
    let mut t = Tally {
        full: !ctx.quick(),
        ..Tally::default()
    };
    let mut distinct = Vec::new();
    let mut maxr = 0u64;
    let nops = 2 + cfg.hmax as u8 + 1;
    let stats = common::bfs(
        vec![init],
        |s| rkey_of(&cfg, s),
        |s, _d| {
            let mut v = Vec::with_capacity(nops as usize);
            for op in 0..nops {
                if op >= 2 && (op - 2) as usize == s.hist && s.ops.last().is_some_and(|l| *l >= 2) {
                    // a second restart with the unchanged history right after a restart: identical state
                    continue;
                }
                let mut n = RSt {
                    prov: probe::clone_provider(&s.prov),
                    r: s.r,
                    hist: s.hist,
                    lo: s.lo,
                    m: s.m,
                    out: s.out.clone(),
                    ops: s.ops.clone(),
                };
                apply_r(ctx, &mut t, &cfg, &mut n, op);
                maxr = maxr.max(n.r);
                if n.r >= 1 && !n.out.is_empty() && n.ops.iter().any(|o| *o >= 2) {
                    distinct.push(common::hash_of(&("reload", cfg.start, rkey_of(&cfg, &n))));
                }
                v.push(n);
            }
            v
        },
        10_000,
    );
    t.flush(ctx);
    ctx.distinct_many(distinct);
    ctx.add("states", stats.states);
    ctx.add("transitions", stats.transitions);
    ctx.add("evaluations", stats.transitions);
    ctx.add("reload_states", stats.states);
    ctx.add("reload_transitions", stats.transitions);
    ctx.max("max_depth", stats.max_depth);
    ctx.max("max_rotations", maxr);
    ctx.inc("configs");
    if stats.fixpoint {
        ctx.inc("configs_at_fixpoint");
    } else {
        ctx.cap_hit(&format!(
            "reload search {}: depth bound reached before fixpoint",
            cfg.tag()
        ));
    }
    ctx.sample(format!(
        "reload search {}: fixpoint after depth {} with {} abstract states / {} transitions, up to {} rotations",
        cfg.tag(), stats.max_depth, stats.states, stats.transitions, maxr
    ));
}

// ---------------------------------------------------------------------------------
// (b) tamper / truncation sweep
// ---------------------------------------------------------------------------------

/// Build a provider with h+1 keys (h rotations), issuing one cookie of `alg` at rotation
/// `at` (so that its key has age h-at at the end).
fn tamper_base(cfg: &Cfg, at: usize, alg: u8) -> (KeySetProvider, Issued) {
    let mut p = cfg.fresh();
    let s2c = key_material(alg, 4, 1);
    let c2s = key_material(alg, 4, 2);
    let mut issued = None;
    for r in 0..=cfg.h {
        if r == at {
            let bytes = p.get().encode_cookie(&mk_cookie(alg, &s2c, &c2s));
            issued = Some(Issued {
                bytes,
                alg,
                s2c: s2c.clone(),
                c2s: c2s.clone(),
                rot: r as u64,
            });
        }
        if r < cfg.h {
            p.rotate();
        }
    }
    (p, issued.unwrap())
}

fn tamper_case(ctx: &Ctx, cfg: &Cfg, at: usize, alg: u8, masks: &[u8]) {
    let (p, c) = tamper_base(cfg, at, alg);
    let base = format!("{};at={at};alg={alg}", cfg.tag());
    let (d, _) = decode_vs(&p, &c.bytes, c.alg, &c.s2c, &c.c2s);
    if d != Dec::Same {
        ctx.violation(
            "C26:valid-cookie-rejected",
            format!("untampered base cookie: {d:?}"),
            format!("tamper;{base};byte=0;mask=0"),
        );
        return;
    }
    let declared = 22 + u16::from_be_bytes([c.bytes[4], c.bytes[5]]) as usize;
    if declared != c.bytes.len() {
        ctx.violation(
            "C26:declared-length",
            format!("cookie of {} bytes declares {declared}", c.bytes.len()),
            format!("tamper;{base};byte=0;mask=0"),
        );
    }
    let mut t = c.bytes.clone();
    for i in 0..declared.min(c.bytes.len()) {
        for &m in masks {
            t[i] ^= m;
            let (d, why) = decode_vs(&p, &t, c.alg, &c.s2c, &c.c2s);
            ctx.inc("evaluations");
            ctx.inc("decodes");
            match d {
                Dec::Rejected => {
                    ctx.inc("tampered_rejected");
                    if i < 4 {
                        ctx.inc("tampered_id_rejected")
                    } else if i < 6 {
                        ctx.inc("tampered_len_rejected")
                    } else if i < 22 {
                        ctx.inc("tampered_nonce_rejected")
                    } else {
                        ctx.inc("tampered_ct_rejected")
                    }
                }
                Dec::Panic => ctx.violation(
                    "C26:decode-panic",
                    format!("decode of tampered cookie panicked: {why}"),
                    format!("tamper;{base};byte={i};mask={m}"),
                ),
                _ => ctx.violation(
                    "C26:tampered-cookie-accepted",
                    format!("cookie with byte {i} ^ {m:#04x} decodes ({d:?})"),
                    format!("tamper;{base};byte={i};mask={m}"),
                ),
            }
            t[i] ^= m;
        }
    }
    for l in 0..c.bytes.len() {
        let (d, why) = decode_vs(&p, &c.bytes[..l], c.alg, &c.s2c, &c.c2s);
        ctx.inc("evaluations");
        ctx.inc("decodes");
        match d {
            Dec::Rejected => ctx.inc("truncated_rejected"),
            Dec::Panic => ctx.violation(
                "C26:decode-panic",
                format!("decode of truncated cookie panicked: {why}"),
                format!("trunc;{base};len={l}"),
            ),
            _ => ctx.violation(
                "C26:truncated-cookie-accepted",
                format!("first {l} of {} bytes decode ({d:?})", c.bytes.len()),
                format!("trunc;{base};len={l}"),
            ),
        }
    }
    // observation only: bytes after the declared length are outside the statement
    let mut ext = c.bytes.clone();
    ext.extend([0u8; 4]);
    if decode_vs(&p, &ext, c.alg, &c.s2c, &c.c2s).0 == Dec::Same {
        ctx.inc("padded_cookie_still_decodes");
    }
    ctx.distinct(common::hash_of(&("tamper", cfg.h, cfg.start, at, alg)));
}

// ---------------------------------------------------------------------------------
// (c) session key grid
// ---------------------------------------------------------------------------------

fn key_grid(ctx: &Ctx) {
    let p = KeySetProvider::new(1);
    for alg in 0..2u8 {
        for ps in 0..NPAT {
            for pc in 0..NPAT {
                // salt equal for both directions when patterns are equal and constant:
                // s2c == c2s is a legal (if odd) input
                let s2c = key_material(alg, ps, 1);
                let c2s = key_material(alg, pc, if ps == pc { 1 } else { 2 });
                let bytes = p.get().encode_cookie(&mk_cookie(alg, &s2c, &c2s));
                let (d, why) = decode_vs(&p, &bytes, alg, &s2c, &c2s);
                ctx.inc("evaluations");
                ctx.inc("decodes");
                ctx.inc("grid_cases");
                if d != Dec::Same {
                    ctx.violation(
                        "C26:valid-cookie-rejected",
                        format!(
                            "session keys alg={alg} s2c pattern {ps} c2s pattern {pc}: {d:?} {why}"
                        ),
                        format!("grid;alg={alg};ps={ps};pc={pc}"),
                    );
                }
                // two cookies for the same keys must differ (fresh nonce) – confidentiality
                let again = p.get().encode_cookie(&mk_cookie(alg, &s2c, &c2s));
                if again == bytes {
                    ctx.violation(
                        "C26:cookie-not-randomised",
                        "two cookies for the same session are byte-identical",
                        format!("grid;alg={alg};ps={ps};pc={pc}"),
                    );
                }
                if ps >= 2 && (contains(&bytes, &s2c[..16]) || contains(&bytes, &c2s[..16])) {
                    ctx.violation(
                        "C26:session-key-in-clear",
                        "cookie contains session key bytes in clear",
                        format!("grid;alg={alg};ps={ps};pc={pc}"),
                    );
                }
                ctx.distinct(common::hash_of(&("grid", alg, ps, pc)));
            }
        }
    }
}

// ---------------------------------------------------------------------------------
// replay
// ---------------------------------------------------------------------------------

pub(super) fn field<'a>(parts: &'a [&'a str], name: &str) -> Option<&'a str> {
    parts
        .iter()
        .find_map(|p| p.strip_prefix(name).and_then(|r| r.strip_prefix('=')))
}

fn parse_cfg(parts: &[&str]) -> Option<Cfg> {
    let h = field(parts, "h")?.parse().ok()?;
    let start = match field(parts, "start")? {
        "new" => None,
        s => Some(s.parse().ok()?),
    };
    Some(Cfg { h, start })
}

fn replay(ctx: &Ctx, trace: &str) -> String {
    let parts: Vec<&str> = trace.split(';').collect();
    match parts[0] {
        "seq" => {
            let Some(cfg) = parse_cfg(&parts) else {
                return "bad trace".into();
            };
            let ops = field(&parts, "ops").unwrap_or("");
            let mut s = St {
                prov: cfg.fresh(),
                r: 0,
                out: vec![],
                ops: vec![],
            };
            let mut obs = Vec::new();
            let mut t = Tally {
                full: true,
                ..Tally::default()
            };
            for ch in ops.bytes() {
                obs.push(apply(ctx, &mut t, &cfg, &mut s, ch - b'0'));
            }
            obs.join("|")
        }
        "rseq" => {
            let start = match field(&parts, "start") {
                Some("new") | None => None,
                Some(x) => x.parse().ok(),
            };
            let hmax = field(&parts, "hmax")
                .and_then(|x| x.parse().ok())
                .unwrap_or(4);
            let cfg = RCfg { start, hmax };
            let mut s = RSt {
                prov: Cfg { h: 0, start }.fresh(),
                r: 0,
                hist: 0,
                lo: 0,
                m: 0,
                out: vec![],
                ops: vec![],
            };
            let mut t = Tally {
                full: true,
                ..Tally::default()
            };
            let mut obs = Vec::new();
            for ch in field(&parts, "ops").unwrap_or("").bytes() {
                obs.push(apply_r(ctx, &mut t, &cfg, &mut s, ch - b'0'));
            }
            format!(
                "{} slack_decoded={} slack_rejected={}",
                obs.join("|"),
                t.slack_decoded,
                t.slack_rejected
            )
        }
        "tamper" | "trunc" => {
            let Some(cfg) = parse_cfg(&parts) else {
                return "bad trace".into();
            };
            let at: usize = field(&parts, "at")
                .and_then(|x| x.parse().ok())
                .unwrap_or(0);
            let alg: u8 = field(&parts, "alg")
                .and_then(|x| x.parse().ok())
                .unwrap_or(0);
            let (p, c) = tamper_base(&cfg, at, alg);
            let mut t = c.bytes.clone();
            if parts[0] == "tamper" {
                let i: usize = field(&parts, "byte")
                    .and_then(|x| x.parse().ok())
                    .unwrap_or(0);
                let m: u8 = field(&parts, "mask")
                    .and_then(|x| x.parse().ok())
                    .unwrap_or(0);
                t[i] ^= m;
            } else {
                let l: usize = field(&parts, "len")
                    .and_then(|x| x.parse().ok())
                    .unwrap_or(0);
                t.truncate(l);
            }
            let (d, _) = decode_vs(&p, &t, c.alg, &c.s2c, &c.c2s);
            if d != Dec::Rejected && t != c.bytes {
                ctx.violation("C26:tampered-cookie-accepted", format!("{d:?}"), trace);
            }
            format!("{d:?}")
        }
        "grid" => {
            let alg: u8 = field(&parts, "alg")
                .and_then(|x| x.parse().ok())
                .unwrap_or(0);
            let ps: u8 = field(&parts, "ps")
                .and_then(|x| x.parse().ok())
                .unwrap_or(0);
            let pc: u8 = field(&parts, "pc")
                .and_then(|x| x.parse().ok())
                .unwrap_or(0);
            let p = KeySetProvider::new(1);
            let s2c = key_material(alg, ps, 1);
            let c2s = key_material(alg, pc, if ps == pc { 1 } else { 2 });
            let bytes = p.get().encode_cookie(&mk_cookie(alg, &s2c, &c2s));
            let (d, _) = decode_vs(&p, &bytes, alg, &s2c, &c2s);
            if d != Dec::Same {
                ctx.violation("C26:valid-cookie-rejected", format!("{d:?}"), trace);
            }
            format!("{d:?}")
        }
        _ => "unknown trace kind".into(),
    }
}

#[test]
fn check() {
    let ctx = Ctx::new("C26");
    if let Some(t) = common::replay_trace() {
        let a = replay(&ctx, &t);
        let b = replay(&ctx, &t);
        common::report_replay("C26", &a, &b, ctx.violation_count() > 0);
        return;
    }
    let hmax = if ctx.quick() { 3 } else { 4 };
    let rmax = if ctx.quick() { 4 } else { 5 };
    ctx.rule(&format!(
        "(a) history h in 0..={hmax}; start in {{KeySetProvider::new(h)}} + {{one key with id offset 2^32-1-d, d in 0..=h+2}}; \
         all sequences over {{issue-256, issue-512, rotate}} explored breadth first to the fixpoint of the key (rotations sat. h+2, \
         #keys, id offset while the id window touches the wrap, set of (cookie age sat. h+2, algorithm)); every outstanding and one \
         foreign cookie per key slot decoded after every rotation (thorough: after every transition; quick: after an issue only the \
         cookies of the current rotation and one foreign cookie). (a2) start in {{new(0), one key at id offset 2^32-2, 2^32-4}}; all \
         sequences over {{issue one cookie per algorithm, rotate, restart = real store + real load with history h' for every h' in \
         0..={rmax}}} to the fixpoint of (rotations sat., configured history, #keys held, distance to the must-fail and must-decode \
         bounds, cookie ages sat. {rmax}+2); model: see source, slack between a history-reducing restart and the next rotation is counted, \
         not judged. (b) every byte of a cookie x every single-bit mask \
         (thorough: every non-zero xor value) and every proper prefix, for every key age 0..=h, both algorithms, ids wrapping or not. \
         (c) algorithm x 5 s2c patterns x 5 c2s patterns round trip. Distinct & non-trivial = an abstract state with >=1 rotation and \
         >=1 outstanding cookie, a (config, age, algorithm) tamper base, a grid cell."
    ));
    ctx.assume("AES-SIV behaviour is independent of the random server key values (keys are drawn by the real new_random); outcomes are compared, never key bytes of server keys");
    ctx.assume("states with equal abstract key behave alike: the provider's behaviour depends on ids only through wrapping differences (checked by keeping the id offset in the key in a window of 2h+4 values around the wrap)");
    ctx.assume("history lengths above the enumerated maximum behave like the enumerated ones");
    ctx.assume("between a restart with a smaller history and the next rotation, cookies of keys beyond the new history that the stored set still holds may decode or fail (C26's expiry clause and C27's 'cookies issued before the restart stay valid' contradict each other there); counted as reload_slack_*, not judged");

    // (a)
    let mut cfgs = Vec::new();
    for h in (0..=hmax).rev() {
        cfgs.push(Cfg { h, start: None });
        for d in 0..=(h as u32 + 2) {
            cfgs.push(Cfg {
                h,
                start: Some(u32::MAX - d),
            });
        }
        cfgs.push(Cfg {
            h,
            start: Some(0x8000_0000),
        });
    }
    // (a2) restarts with another history; longest jobs first
    let rcfgs: Vec<RCfg> = [None, Some(u32::MAX - 1), Some(u32::MAX - 3)]
        .into_iter()
        .map(|start| RCfg { start, hmax: rmax })
        .collect();
    let (nr, na) = (rcfgs.len() as u64, cfgs.len() as u64);
    common::par_for(nr + na, 1, |i| {
        if i < nr {
            explore_reload(&ctx, rcfgs[i as usize]);
        } else {
            explore(&ctx, cfgs[(i - nr) as usize]);
        }
    });

    // (b)
    let masks: Vec<u8> = if ctx.quick() {
        (0..8).map(|b| 1u8 << b).collect()
    } else {
        (1..=255).collect()
    };
    let mut bases = Vec::new();
    for h in 0..=hmax.min(3) {
        for start in [None, Some(u32::MAX - (h as u32) / 2), Some(u32::MAX)] {
            for at in 0..=h {
                for alg in 0..2u8 {
                    bases.push((Cfg { h, start }, at, alg));
                }
            }
        }
    }
    common::par_for(bases.len() as u64, 1, |i| {
        let (cfg, at, alg) = bases[i as usize];
        tamper_case(&ctx, &cfg, at, alg, &masks);
    });
    ctx.set("tamper_bases", bases.len() as u64);
    ctx.set("tamper_masks_per_byte", masks.len() as u64);

    // (c)
    key_grid(&ctx);

    ctx.exhaustive(true);
    ctx.finish();
}
