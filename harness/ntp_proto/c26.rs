//! C26: not implemented yet.
