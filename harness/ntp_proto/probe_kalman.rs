#[cfg(any(not(verif_select), verif_ga))]
#[path = "/verif/harness/ntp_proto/ga_probe_kalman.rs"]
pub(crate) mod ga;
#[cfg(any(not(verif_select), verif_gb))]
#[path = "/verif/harness/ntp_proto/gb_probe_kalman.rs"]
pub(crate) mod gb;
pub(crate) use super::source::verif_probe as source_probe; // kalman::source is private: reachable as crate::algorithm::verif_probe::kalman_probe::source_probe
