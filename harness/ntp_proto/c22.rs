//! C22: not implemented yet.
