//! C22 — no datagram can crash the NTP server.
//!
//! Engine E-IN with positional sweeps. Base datagrams: requests of the shared grammar
//! (c16.rs) — every word of <= 1 extension-field symbol per version (thorough: <= 2 for
//! v4/v5 without MAC variants) plus a curated list of multi-field plain and NTS layouts
//! (valid cookies under the current/previous/expired key, placeholders, 512-bit AEAD,
//! short/long nonces, reference-id requests, non-client modes). For every base datagram:
//!   * every single-byte substitution at every offset with {0x00, 0xFF, b^0x80, b^0x01},
//!   * every 16-bit length field (extension-field lengths, nonce length, ciphertext
//!     length) set to v-4..v-1, v+1..v+4, 0, 0xFFFF,
//!   * every truncation, and the datagram followed by 1/3/4/24/25/100 bytes of trailing data,
//!   * additionally the hand-framed bases of `c16::raw_requests()` (every known field type x
//!     body length 0..=20 in NTPv5 framing, i.e. all residues mod 4, x filler x context; the
//!     authenticator type with nonce length 0..=20 x ciphertext length 0..=20 x body length
//!     consistent-4..=+3, with and without a valid cookie in front), each with the light sweep
//!     "itself + all length-field edits",
//!   * for bases with a correct authenticator: the same substitutions and length edits
//!     applied to the *plaintext* of the encrypted part before it is encrypted (so malformed
//!     content reaches the post-decryption parser with a valid tag),
//! each handled by the real `Server::handle` inside `common::catch`, with the daemon's
//! request-sized buffer and with a 4096-byte buffer, under
//! 8 server configurations x 3 synchronisation states (typical, unsynchronised, extreme but
//! non-negative/finite values) x 2 key-set states, from IPv4 / IPv6 / IPv4-mapped clients.
//! Oracle: the call returns (answer or ignore) — no panic.
use std::collections::BTreeMap;
use std::sync::Arc;

use super::c16::{
    AuthState, BIG_BUF, Built, Cfg, Findings, Fld, Handled, KeyEnv, Kind, Local, MAX_DATAGRAM,
    MockClock, Out, Req, Sync, alphabet, build, build_with, client_ip, key_env, kind_key,
    make_server, raw_requests, run_handle, walk,
};
use super::common::{self, Ctx};
use crate::{Server, ServerReason, ServerResponse};

const EXTREME: Sync = Sync {
    stratum: 15,
    leap: 3,
    refid: 0xFFFF_FFFF,
    root_delay_exp: Some(40), // saturates the wire formats
    var_base: 1e30,
    var_linear: 1e20,
    precision_exp: -32,
};

fn sync_states() -> [Sync; 3] {
    [Sync::TYPICAL, Sync::UNSYNC, EXTREME]
}

#[derive(Clone, Debug, PartialEq, Eq, Hash)]
enum Mutation {
    None,
    /// wire byte substitution
    Wire(usize, u8),
    /// wire 16-bit big-endian value
    Len(usize, u16),
    Trunc(usize),
    /// n trailing bytes appended
    Append(usize),
    /// plaintext byte substitution before encryption
    Plain(usize, u8),
    /// plaintext 16-bit value before encryption
    PlainLen(usize, u16),
}

impl Mutation {
    fn code(&self) -> String {
        match self {
            Mutation::None => "none".into(),
            Mutation::Wire(o, b) => format!("w{o}={b:02x}"),
            Mutation::Len(o, v) => format!("L{o}={v:04x}"),
            Mutation::Trunc(n) => format!("t{n}"),
            Mutation::Append(n) => format!("x{n}"),
            Mutation::Plain(o, b) => format!("p{o}={b:02x}"),
            Mutation::PlainLen(o, v) => format!("P{o}={v:04x}"),
        }
    }
    fn parse(s: &str) -> Option<Mutation> {
        if s == "none" {
            return Some(Mutation::None);
        }
        let (k, rest) = s.split_at(1);
        let kv = |r: &str| -> Option<(usize, u32)> {
            let (o, v) = r.split_once('=')?;
            Some((o.parse().ok()?, u32::from_str_radix(v, 16).ok()?))
        };
        Some(match k {
            "w" => {
                let (o, v) = kv(rest)?;
                Mutation::Wire(o, v as u8)
            }
            "L" => {
                let (o, v) = kv(rest)?;
                Mutation::Len(o, v as u16)
            }
            "t" => Mutation::Trunc(rest.parse().ok()?),
            "x" => Mutation::Append(rest.parse().ok()?),
            "p" => {
                let (o, v) = kv(rest)?;
                Mutation::Plain(o, v as u8)
            }
            "P" => {
                let (o, v) = kv(rest)?;
                Mutation::PlainLen(o, v as u16)
            }
            _ => return None,
        })
    }
}

fn byte_patterns(b: u8) -> Vec<u8> {
    let mut v = vec![0x00, 0xFF, b ^ 0x80, b ^ 0x01];
    v.sort_unstable();
    v.dedup();
    v.retain(|x| *x != b);
    v
}

fn len_patterns(v: u16) -> Vec<u16> {
    let mut out = vec![
        v.wrapping_sub(4),
        v.wrapping_sub(3),
        v.wrapping_sub(2),
        v.wrapping_sub(1),
        v.wrapping_add(1),
        v.wrapping_add(2),
        v.wrapping_add(3),
        v.wrapping_add(4),
        0,
        0xFFFF,
    ];
    out.sort_unstable();
    out.dedup();
    out.retain(|x| *x != v);
    out
}

/// offsets of the 16-bit length fields inside a plaintext made of extension fields
fn plain_len_offsets(plain: &[u8], v5: bool) -> Vec<usize> {
    let mut out = vec![];
    let mut o = 0usize;
    while o + 4 <= plain.len() {
        out.push(o + 2);
        let l = u16::from_be_bytes([plain[o + 2], plain[o + 3]]) as usize;
        let wire = if v5 { (l + 3) & !3 } else { l };
        if wire < 4 {
            break;
        }
        o += wire;
    }
    out
}

/// hand-framed bases (c16::raw_requests) get the light sweep: the datagram itself and the
/// length-field edits (their lengths are already enumerated exhaustively by the base set)
fn is_raw_base(req: &Req) -> bool {
    req.mac_head != 0
        || req.fields.iter().any(|f| match f {
            Fld::Raw(..) | Fld::RawAuth(..) => true,
            Fld::Auth(_, inner) => inner.iter().any(|g| matches!(g, Fld::Raw(..))),
            _ => false,
        })
}

/// All mutations of one base (the unmutated datagram first).
fn mutations(b: &Built, req: &Req, keys: &KeyEnv) -> Vec<Mutation> {
    let mut v = vec![Mutation::None];
    let bytes = &b.bytes;
    if is_raw_base(req) {
        for &o in &b.len_offsets {
            if o + 2 <= bytes.len() {
                let cur = u16::from_be_bytes([bytes[o], bytes[o + 1]]);
                for p in len_patterns(cur) {
                    v.push(Mutation::Len(o, p));
                }
            }
        }
        return v;
    }
    for (o, x) in bytes.iter().enumerate() {
        for p in byte_patterns(*x) {
            v.push(Mutation::Wire(o, p));
        }
    }
    for &o in &b.len_offsets {
        if o + 2 <= bytes.len() {
            let cur = u16::from_be_bytes([bytes[o], bytes[o + 1]]);
            for p in len_patterns(cur) {
                v.push(Mutation::Len(o, p));
            }
        }
    }
    for cut in 0..bytes.len() {
        v.push(Mutation::Trunc(cut));
    }
    for n in [1usize, 3, 4, 24, 25, 100] {
        v.push(Mutation::Append(n));
    }
    if b.auth == AuthState::Valid && b.plain_len > 0 {
        // recover the plaintext through the edit hook
        let captured = std::cell::RefCell::new(Vec::new());
        let _ = build_with(
            req,
            keys,
            Some(&|p: &mut Vec<u8>| *captured.borrow_mut() = p.clone()),
        );
        let plain = captured.into_inner();
        for (o, x) in plain.iter().enumerate() {
            for p in byte_patterns(*x) {
                v.push(Mutation::Plain(o, p));
            }
        }
        for o in plain_len_offsets(&plain, req.ver == 5) {
            let cur = u16::from_be_bytes([plain[o], plain[o + 1]]);
            for p in len_patterns(cur) {
                v.push(Mutation::PlainLen(o, p));
            }
        }
    }
    v
}

fn apply(m: &Mutation, b: &Built, req: &Req, keys: &KeyEnv) -> Vec<u8> {
    let mut bytes = b.bytes.clone();
    match m {
        Mutation::None => {}
        Mutation::Wire(o, x) => {
            if *o < bytes.len() {
                bytes[*o] = *x;
            }
        }
        Mutation::Len(o, v) => {
            if o + 2 <= bytes.len() {
                bytes[*o..*o + 2].copy_from_slice(&v.to_be_bytes());
            }
        }
        Mutation::Trunc(n) => bytes.truncate(*n),
        Mutation::Append(n) => {
            bytes.extend((0..*n).map(|i| (i as u8).wrapping_mul(37).wrapping_add(0x11)))
        }
        Mutation::Plain(o, x) => {
            let (o, x) = (*o, *x);
            bytes = build_with(
                req,
                keys,
                Some(&move |p: &mut Vec<u8>| {
                    if o < p.len() {
                        p[o] = x;
                    }
                }),
            )
            .bytes;
        }
        Mutation::PlainLen(o, v) => {
            let (o, v) = (*o, *v);
            bytes = build_with(
                req,
                keys,
                Some(&move |p: &mut Vec<u8>| {
                    if o + 2 <= p.len() {
                        p[o..o + 2].copy_from_slice(&v.to_be_bytes());
                    }
                }),
            )
            .bytes;
        }
    }
    bytes.truncate(MAX_DATAGRAM);
    bytes
}

fn bases(thorough: bool) -> Vec<Req> {
    let mut out: Vec<Req> = vec![];
    // v3 tails
    for mac in [0u16, 4, 20, 24] {
        let mut r = Req::plain(3, vec![]);
        r.mac = mac;
        out.push(r);
    }
    // every word of <= 1 symbol (thorough: <= 2 symbols, no MAC)
    for ver in [4u8, 5] {
        let alpha = alphabet(ver, thorough);
        let mut words: Vec<Vec<Fld>> = vec![vec![]];
        for a in &alpha {
            words.push(vec![a.clone()]);
        }
        if thorough {
            for a in &alpha {
                for b in &alpha {
                    words.push(vec![a.clone(), b.clone()]);
                }
            }
        }
        for (i, w) in words.into_iter().enumerate() {
            let mut f = w;
            if ver == 5 {
                f.push(Fld::Draft(true));
            }
            let mut r = Req::plain(ver, f);
            r.poll = [6u8, 0, 17, 127, 255][i % 5];
            r.mac = if ver == 4 { [0u16, 20][i % 2] } else { 0 };
            out.push(r);
        }
    }
    // curated layouts
    for code in [
        "v4.m3.p6.l0.g1.a0||m0",
        "v4.m4.p6.l0.g0.a0|u32|m0",
        "v4.m0.p6.l3.g0.a0||m24",
        "v4.m6.p6.l0.g0.a0|u32,cC0,Aok()|m0",
        "v5.m4.p6.l0.g0.a0|d1|m0",
        "v4.m3.p6.l0.g0.a0|u32,cC0,Aok()|m0",
        "v4.m3.p6.l0.g0.a0|u32,cC0,p0,p0,Aok()|m0",
        "v4.m3.p6.l0.g0.a0|u32,cP0,Aok(p0+u32+k24)|m0",
        "v4.m3.p6.l0.g0.a1|u32,cC0,p0,Aok(p0)|m0",
        "v4.m3.p6.l0.g0.a0|u32,cE0,Aok(p0)|m0",
        "v4.m3.p6.l0.g0.a0|u32,cC0,An8()|m0",
        "v4.m3.p6.l0.g0.a0|u32,cC0,An32(p4)|m0",
        "v4.m3.p6.l0.g0.a0|u4,cC4,p-4,Aok(cC0+r16@0+d1+z16)|m0",
        "v4.m3.p6.l0.g0.a0|u32,cC0,Aok(),u32,k24|m20",
        "v4.m3.p6.l0.g0.a0|u32,cC0,cC0,Aok()|m0",
        "v4.m3.p6.l0.g0.a0|u32,cC0,Aok(),Aok()|m0",
        "v4.m3.p6.l0.g0.a0|u32,cC0,Abad(u32)|m0",
        "v4.m3.p6.l0.g0.a0|u0,u4,u12,k0,k24|m24",
        "v5.m3.p6.l0.g0.a0|u32,cC0,d1,Aok()|m0",
        "v5.m3.p6.l0.g0.a0|u5,cC0,p0,r16@0,d1,Aok(p0+u5+r6@0)|m0",
        "v5.m3.p6.l0.g0.a1|u32,cP0,p4,d1,An8(p0)|m0",
        "v5.m3.p6.l0.g0.a0|u32,r512@0,z16,d1|m0",
        "v5.m3.p6.l0.g0.a0|r6@0,r16@508,u5,k24,d1|m0",
        "v5.m3.p6.l0.g0.a0|u32,cC0,Aok(d1)|m0",
        "v5.m3.p6.l0.g0.a0|u32,cE0,d1,Aok(p0)|m4",
        // cookie fields shorter than any real cookie (KeyEnv::custom = 8 junk bytes, + zero fill)
        "v4.m3.p6.l0.g0.a0|u32,cX0,Aok()|m0",
        "v4.m3.p6.l0.g0.a0|u32,cX12,Aok()|m0",
        "v4.m3.p6.l0.g0.a0|u32,cX16,Aok(p0)|m0",
        "v5.m3.p6.l0.g0.a0|u32,cX0,d1,Aok()|m0",
        "v5.m3.p6.l0.g0.a0|u32,cX13,d1,Aok()|m0",
    ] {
        out.push(Req::parse(code).expect("curated base"));
    }
    out.extend(raw_requests());
    // extension-field-like MAC trailers (light sweep as well)
    out.extend(
        super::c16::trailer_requests()
            .into_iter()
            .filter(|r| r.mac_head != 0),
    );
    out
}

struct Env {
    cfg: Cfg,
    sync: Sync,
    rotated: bool,
}

fn envs() -> Vec<Env> {
    let mut v = vec![];
    for cfg in Cfg::ALL {
        for sync in sync_states() {
            for rotated in [true, false] {
                v.push(Env { cfg, sync, rotated });
            }
        }
    }
    v
}

fn reg_key(r: &(u8, bool, ServerReason, ServerResponse)) -> &'static str {
    match (r.2, r.3) {
        (ServerReason::ParseError, _) => "registered_parse_error",
        (ServerReason::InvalidCrypto, _) => "registered_invalid_crypto",
        (ServerReason::InternalError, _) => "registered_internal_error",
        (ServerReason::RateLimit, _) => "registered_rate_limit",
        (ServerReason::Policy, ServerResponse::Ignore) => "registered_policy_ignore",
        (ServerReason::Policy, ServerResponse::Deny) => "registered_policy_deny",
        (ServerReason::Policy, ServerResponse::ProvideTime) => "registered_time",
        (ServerReason::Policy, ServerResponse::NTSNak) => "registered_policy_nak",
    }
}

/// Handle one datagram under one environment with both buffer disciplines.
fn shoot(
    findings: &Findings,
    loc: &mut Option<&mut Local>,
    server: &mut Server<MockClock>,
    ip_kind: usize,
    datagram: &[u8],
    trace: &dyn Fn(usize) -> String,
) -> String {
    let mut obs = String::new();
    for (bi, buf_len) in [datagram.len(), BIG_BUF].into_iter().enumerate() {
        if let Some(l) = loc.as_deref_mut() {
            l.inc("evaluations");
        }
        match run_handle(server, client_ip(ip_kind + bi), datagram, buf_len) {
            Err(p) => {
                findings.report(
                    "C22:panic",
                    datagram.len(),
                    || {
                        format!(
                            "Server::handle panicked ({p}) on {} with a {buf_len}-byte buffer",
                            common::hex(datagram)
                        )
                    },
                    || trace(bi),
                );
                obs.push_str(&format!("b{bi}:panic({p});"));
            }
            Ok(h) => {
                if let Some(l) = loc.as_deref_mut() {
                    for r in &h.regs {
                        l.inc(reg_key(r));
                    }
                    if h.regs.len() != 1 {
                        l.inc("handles_with_other_than_one_statistics_registration");
                    }
                }
                match &h.out {
                    Out::Ignore => {
                        if let Some(l) = loc.as_deref_mut() {
                            l.inc("ignored");
                        }
                        obs.push_str(&format!("b{bi}:ignore;"));
                    }
                    Out::Respond(a) => {
                        let k = walk(a).map(|w| w.kind());
                        if let Some(l) = loc.as_deref_mut() {
                            l.inc("answered");
                            if let Ok(k) = k {
                                l.inc(kind_key(k));
                            } else {
                                l.inc("answers_unwalkable");
                            }
                        }
                        obs.push_str(&format!("b{bi}:{}b:{:?};", a.len(), k.ok()));
                    }
                }
            }
        }
    }
    obs
}

fn replay(ctx: &Ctx, trace: &str) -> String {
    // "<cfg>;<sync>;k<r>;ip<k>;<req code>;<mutation>;b<0|1>"
    let p: Vec<&str> = trace.split(';').collect();
    if p.len() != 7 {
        return format!("unparseable trace {trace:?}");
    }
    let (Some(cfg), Some(sync), Some(req), Some(m)) = (
        Cfg::parse(p[0]),
        Sync::parse(p[1]),
        Req::parse(p[4]),
        Mutation::parse(p[5]),
    ) else {
        return format!("unparseable trace {trace:?}");
    };
    let mut keys = key_env(p[2] == "k1");
    keys.custom = vec![0x00, 0x00, 0x00, 0x01, 0x00, 0x10, 0xAB, 0xCD];
    let ip_kind: usize = p[3].trim_start_matches("ip").parse().unwrap_or(0);
    let b = build(&req, &keys);
    let datagram = apply(&m, &b, &req, &keys);
    let mut server = make_server(cfg, &sync, &keys.server);
    let findings = Findings::new();
    let t = trace.to_string();
    let obs = shoot(
        &findings,
        &mut None,
        &mut server,
        ip_kind,
        &datagram,
        &|_| t.clone(),
    );
    findings.flush(ctx);
    format!("{} bytes: {obs}", datagram.len())
}

#[test]
fn check() {
    let ctx = Ctx::new("C22");
    if let Some(t) = common::replay_trace() {
        let a = replay(&ctx, &t);
        let b = replay(&ctx, &t);
        common::report_replay("C22", &a, &b, ctx.violation_count() > 0);
        return;
    }
    let thorough = !ctx.quick();
    ctx.rule(
        "bases: v3 tails, the extension-field-like MAC trailers of c16::trailer_requests() and the 10 998 hand-framed/unaligned-field requests of c16::raw_requests() (light sweep: itself + length-field edits), every word of <=1 extension-field symbol of the c16.rs alphabets for v4/v5 (thorough: <=2), 30 curated plain/NTS layouts \
         (valid cookies under current/previous/expired keys, placeholders, both AEADs, 8/16/32-byte nonces, non-client modes); per base: the datagram itself, \
         every byte offset x {0x00,0xFF,^0x80,^0x01}, every 16-bit length field x {-4..-1,+1..+4,0,0xFFFF}, every truncation, 1/3/4/24/25/100 trailing bytes, \
         and (valid NTS bases) the same byte/length edits on the plaintext before encryption; each x {request-sized, 4096-byte} buffer x 8 configurations x \
         3 synchronisation states x 2 key-set states (quick: the 48 environments are spread round-robin over the mutants of a base so that every \
         (base, environment) pair and every (mutant) is run; thorough: full product), client address rotating over IPv4/IPv6/IPv4-mapped. \
         Distinct & non-trivial = a (base, mutation, key set) whose datagram was answered in some environment.",
    );
    ctx.assume("synchronisation states are restricted to non-negative root delay and finite, non-negative variances (NtpDuration::to_bits_short asserts non-negative; the kalman filter clamps delays at MIN_DELAY)");
    ctx.assume("key sets are the ones KeySetProvider::new/rotate can produce");
    let findings = Findings::new();
    let base_reqs = bases(thorough);
    ctx.set("bases", base_reqs.len() as u64);
    let environments = envs();
    ctx.set("environments", environments.len() as u64);
    let mut key_envs = [key_env(false), key_env(true)];
    for k in key_envs.iter_mut() {
        k.custom = vec![0x00, 0x00, 0x00, 0x01, 0x00, 0x10, 0xAB, 0xCD];
    }
    let full_product = thorough;
    // work items = (base index); mutants are generated inside
    common::par_for_with(
        base_reqs.len() as u64,
        8,
        || {
            let servers: Vec<Server<MockClock>> = environments
                .iter()
                .map(|e| make_server(e.cfg, &e.sync, &key_envs[e.rotated as usize].server))
                .collect();
            (Local::new(&ctx), servers)
        },
        |(loc, servers), bi| {
            let req = &base_reqs[bi as usize];
            for (ki, keys) in key_envs.iter().enumerate() {
                let b = build(req, keys);
                let muts = mutations(&b, req, keys);
                loc.add("mutants", muts.len() as u64);
                for (mi, m) in muts.iter().enumerate() {
                    let datagram = apply(m, &b, req, keys);
                    let mut past_parsing = false;
                    // environments with this key set
                    let env_ids: Vec<usize> = (0..environments.len())
                        .filter(|i| environments[*i].rotated as usize == ki)
                        .collect();
                    let chosen: Vec<usize> = if full_product || mi == 0 {
                        env_ids.clone()
                    } else {
                        // round-robin: 6 environments per mutant, covering all 24 every 4 mutants
                        (0..6)
                            .map(|j| env_ids[(mi * 6 + j) % env_ids.len()])
                            .collect()
                    };
                    for ei in chosen {
                        let e = &environments[ei];
                        let ip_kind = (2 * mi + ei) % 3;
                        let trace = |bi2: usize| {
                            format!(
                                "{};{};k{};ip{};{};{};b{}",
                                e.cfg.code(),
                                e.sync.code(),
                                ki,
                                ip_kind,
                                req.code(),
                                m.code(),
                                bi2
                            )
                        };
                        let obs = shoot(
                            &findings,
                            &mut Some(&mut *loc),
                            &mut servers[ei],
                            ip_kind,
                            &datagram,
                            &trace,
                        );
                        if obs.contains("b:") {
                            past_parsing = true;
                        }
                    }
                    if past_parsing {
                        loc.distinct(common::hash_of(&(req, m, ki)));
                    }
                }
            }
        },
    );
    // samples
    {
        let keys = key_env(true);
        let mut server = make_server(Cfg::Open, &Sync::TYPICAL, &keys.server);
        for (code, m) in [
            ("v4.m3.p6.l0.g0.a0|u32,cC0,Aok()|m0", Mutation::None),
            (
                "v4.m3.p6.l0.g0.a0|u32,cC0,Aok()|m0",
                Mutation::Len(50, 0xFFFF),
            ),
            (
                "v4.m3.p6.l0.g0.a0|u32,cC0,p0,Aok(p0)|m0",
                Mutation::PlainLen(2, 0x0003),
            ),
            (
                "v5.m3.p6.l0.g0.a0|u32,r512@0,z16,d1|m0",
                Mutation::Wire(86, 0xFF),
            ),
            ("v4.m3.p6.l0.g0.a0||m0", Mutation::Append(25)),
        ] {
            let r = Req::parse(code).unwrap();
            let b = build(&r, &keys);
            let d = apply(&m, &b, &r, &keys);
            let f = Findings::new();
            ctx.sample(format!(
                "{code} {} -> {}",
                m.code(),
                shoot(&f, &mut None, &mut server, 0, &d, &|_| String::new())
            ));
        }
    }
    findings.flush(&ctx);
    ctx.set("transitions", ctx.get("evaluations"));
    ctx.set("states", ctx.get("mutants"));
    ctx.exhaustive(true);
    ctx.finish();
}
