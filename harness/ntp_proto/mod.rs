//! Harness root for `ntp-proto`: compiled into the crate's unit-test binary when
//! `--cfg pendulum_project_ntpd_rs_verif` is set (hook H1 in ntp-proto/src/lib.rs).
//!
//! One module per property (`cNN.rs`, test fn `check`). During development a group of
//! properties can be built in isolation with `--cfg verif_select --cfg verif_<group>`
//! (see /verif/harness/README.md); the registered checks build everything.
#![allow(dead_code, unused_imports, unused_variables, unused_macros, unused_mut)]
#![allow(clippy::all, clippy::pedantic)]

#[path = "/verif/harness/common/mod.rs"]
pub(crate) mod common;

/// Run `f` inside a fresh current-thread tokio runtime whose clock is paused: time only
/// moves through `tokio::time::advance` calls made by the harness.
pub(crate) fn block_on_paused<T>(f: impl std::future::Future<Output = T>) -> T {
    let rt = tokio::runtime::Builder::new_current_thread()
        .enable_time()
        .start_paused(true)
        .build()
        .expect("runtime");
    rt.block_on(f)
}

#[cfg(any(not(verif_select), verif_ga))]
mod c01;
#[cfg(any(not(verif_select), verif_ga))]
mod c02;
#[cfg(any(not(verif_select), verif_gb))]
mod c03;
#[cfg(any(not(verif_select), verif_gb))]
mod c04;
#[cfg(any(not(verif_select), verif_gb))]
mod c05;
#[cfg(any(not(verif_select), verif_ga))]
mod c06;
#[cfg(any(not(verif_select), verif_gc))]
mod c07;
#[cfg(any(not(verif_select), verif_gd))]
mod c08;
#[cfg(any(not(verif_select), verif_ge))]
mod c09;
#[cfg(any(not(verif_select), verif_ge))]
mod c10;
#[cfg(any(not(verif_select), verif_gd))]
mod c11;
#[cfg(any(not(verif_select), verif_gd))]
mod c12;
#[cfg(any(not(verif_select), verif_gc))]
mod c13;
#[cfg(any(not(verif_select), verif_gc))]
mod c14;
#[cfg(any(not(verif_select), verif_gf))]
mod c15;
#[cfg(any(not(verif_select), verif_gg))]
mod c16;
#[cfg(any(not(verif_select), verif_gg))]
mod c17;
#[cfg(any(not(verif_select), verif_gg))]
mod c18;
#[cfg(any(not(verif_select), verif_gg))]
mod c19;
#[cfg(any(not(verif_select), verif_gf))]
mod c20;
#[cfg(any(not(verif_select), verif_gf))]
mod c21;
#[cfg(any(not(verif_select), verif_gg))]
mod c22;
#[cfg(any(not(verif_select), verif_gh))]
mod c23;
#[cfg(any(not(verif_select), verif_gh))]
mod c24;
#[cfg(any(not(verif_select), verif_gh))]
mod c25;
#[cfg(any(not(verif_select), verif_gi))]
mod c26;
#[cfg(any(not(verif_select), verif_gi))]
mod c27;
#[cfg(any(not(verif_select), verif_gj))]
mod c28;
#[cfg(any(not(verif_select), verif_gj))]
mod c29;
#[cfg(any(not(verif_select), verif_gj))]
mod c30;
#[cfg(any(not(verif_select), verif_gk))]
mod c31;
#[cfg(any(not(verif_select), verif_gk))]
mod c32;
#[cfg(any(not(verif_select), verif_gk))]
mod c33;
#[cfg(any(not(verif_select), verif_gk))]
mod c34;
#[cfg(any(not(verif_select), verif_gn))]
mod c37;
