//! Group ga probe, child of `ntp_proto::algorithm::kalman::verif_probe` (hook H2).
//!
//! `algorithm::kalman` is a *private* module, so nothing defined here can be named from
//! `crate::verif`. The read-only accessors are therefore written as `pub(crate)` inherent
//! methods (prefix `ga_`) on the publicly re-exported types; they return only std types.
//! They read / copy private state, they never write it.
#![allow(dead_code)]

use super::super::{
    KalmanClockController, KalmanControllerMessage, KalmanControllerMessageInner,
    KalmanSourceMessage, SourceSnapshot,
};
use crate::clock::NtpClock;
use crate::packet::NtpLeapIndicator;
use crate::system::TimeSnapshot;
use crate::time_types::{NtpDuration, NtpTimestamp};

pub(crate) fn dur_units(d: NtpDuration) -> i64 {
    u64::from_be_bytes((NtpTimestamp::from_fixed_int(0) + d).to_bits()) as i64
}

pub(crate) fn ts_units(t: NtpTimestamp) -> u64 {
    u64::from_be_bytes(t.to_bits())
}

pub(crate) fn leap_code(l: NtpLeapIndicator) -> u64 {
    match l {
        NtpLeapIndicator::NoWarning => 0,
        NtpLeapIndicator::Leap61 => 1,
        NtpLeapIndicator::Leap59 => 2,
        NtpLeapIndicator::Unknown => 3,
        NtpLeapIndicator::Unsynchronized => 4,
    }
}

/// f64 view of a snapshot: [offset, frequency, p00, p01, p10, p11, wander, delay]
pub(crate) fn snap_f64s(s: &SourceSnapshot) -> [f64; 8] {
    [
        s.state.state.ventry(0),
        s.state.state.ventry(1),
        s.state.uncertainty.entry(0, 0),
        s.state.uncertainty.entry(0, 1),
        s.state.uncertainty.entry(1, 0),
        s.state.uncertainty.entry(1, 1),
        s.wander,
        s.delay,
    ]
}

/// Exact bit patterns of everything in a snapshot.
pub(crate) fn snap_words(s: &SourceSnapshot, out: &mut Vec<u64>) {
    out.push(s.index.0);
    for f in snap_f64s(s) {
        out.push(f.to_bits());
    }
    out.push(ts_units(s.state.time));
    out.push(s.period.map_or(u64::MAX, f64::to_bits));
    out.push(dur_units(s.source_uncertainty) as u64);
    out.push(dur_units(s.source_delay) as u64);
    out.push(leap_code(s.leap_indicator));
    out.push(ts_units(s.last_update));
}

pub(crate) fn timedata_words(t: &TimeSnapshot, out: &mut Vec<u64>) {
    out.push(dur_units(t.precision) as u64);
    out.push(dur_units(t.root_delay) as u64);
    out.push(ts_units(t.root_variance_base_time));
    out.push(t.root_variance_base.to_bits());
    out.push(t.root_variance_linear.to_bits());
    out.push(t.root_variance_quadratic.to_bits());
    out.push(t.root_variance_cubic.to_bits());
    out.push(leap_code(t.leap_indicator));
    out.push(dur_units(t.accumulated_steps) as u64);
    out.push(
        t.accumulated_steps_threshold
            .map_or(u64::MAX, |d| dur_units(d) as u64),
    );
}

impl KalmanSourceMessage {
    /// [offset, frequency, p00, p01, p10, p11, wander, delay] of the snapshot carried.
    pub(crate) fn ga_f64s(&self) -> [f64; 8] {
        snap_f64s(&self.inner)
    }
    pub(crate) fn ga_words(&self, out: &mut Vec<u64>) {
        snap_words(&self.inner, out);
    }
}

impl KalmanControllerMessage {
    /// (kind, steer, time): kind 0 = Step, 1 = FreqChange (time = timestamp units).
    pub(crate) fn ga_fields(&self) -> (u8, f64, u64) {
        match self.inner {
            KalmanControllerMessageInner::Step { steer } => (0, steer, 0),
            KalmanControllerMessageInner::FreqChange { steer, time } => (1, steer, ts_units(time)),
        }
    }
}

impl<C: NtpClock> KalmanClockController<C> {
    /// (freq_offset, desired_freq, in_startup, accumulated_steps units)
    pub(crate) fn ga_view(&self) -> (f64, f64, bool, i64) {
        (
            self.freq_offset,
            self.desired_freq,
            self.in_startup,
            dur_units(self.timedata.accumulated_steps),
        )
    }

    /// Iteration order of the private `sources` HashMap (RandomState): the order in which
    /// `update_clock` collects candidates, hence the order `combine` merges them.
    pub(crate) fn ga_order(&self) -> Vec<u64> {
        self.sources.keys().map(|k| k.0).collect()
    }

    pub(crate) fn ga_clock(&self) -> &C {
        &self.clock
    }

    pub(crate) fn ga_timedata(&self) -> TimeSnapshot {
        self.timedata
    }

    /// Exact bit patterns of the whole controller state (source table ordered by id, so
    /// HashMap order does not matter). The two configurations are constant per exploration.
    pub(crate) fn ga_state_words(&self, out: &mut Vec<u64>) {
        out.push(self.freq_offset.to_bits());
        out.push(self.desired_freq.to_bits());
        out.push(self.in_startup as u64);
        timedata_words(&self.timedata, out);
        let mut ids: Vec<_> = self.sources.keys().copied().collect();
        ids.sort();
        out.push(ids.len() as u64);
        for id in ids {
            let (snap, usable) = &self.sources[&id];
            out.push(id.0);
            out.push(*usable as u64);
            match snap {
                None => out.push(0),
                Some(s) => {
                    out.push(1);
                    snap_words(s, out);
                }
            }
        }
    }

    /// Per registered source (ordered by id): (id, usable, Some(f64 view), advertised root
    /// dispersion in units) — the controller's own copies, i.e. what select/combine work on.
    pub(crate) fn ga_table(&self) -> Vec<(u64, bool, Option<[f64; 8]>, i64)> {
        let mut v: Vec<_> = self
            .sources
            .iter()
            .map(|(id, (s, u))| {
                (
                    id.0,
                    *u,
                    s.as_ref().map(snap_f64s),
                    s.as_ref().map_or(0, |s| dur_units(s.source_uncertainty)),
                )
            })
            .collect();
        v.sort_by_key(|e| e.0);
        v
    }

    /// Per registered source (ordered by id): (id, usable, Some(f64 view) if a snapshot is held).
    pub(crate) fn ga_sources(&self) -> Vec<(u64, bool, Option<[f64; 8]>)> {
        let mut v: Vec<_> = self
            .sources
            .iter()
            .map(|(id, (s, u))| (id.0, *u, s.as_ref().map(snap_f64s)))
            .collect();
        v.sort_by_key(|e| e.0);
        v
    }
}
