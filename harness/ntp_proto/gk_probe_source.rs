//! gk probe for `source` (C33, C34): construct `Reach` values, read the fields of a live
//! `NtpSource` that decide `accept_synchronization`. Read / construct only.
use super::super::{NtpSource, ProtocolVersion, Reach};
use crate::algorithm::SourceController;
use crate::identifiers::ReferenceId;

pub(crate) fn reach(bits: u8) -> Reach {
    Reach(bits)
}

pub(crate) fn reach_bits(r: Reach) -> u8 {
    r.0
}

#[derive(Debug, Clone, PartialEq, Eq)]
pub(crate) struct View {
    pub stratum: u8,
    pub reference_id: [u8; 4],
    pub source_id: [u8; 4],
    pub reach: u8,
    pub protocol_version: ProtocolVersion,
    pub bloom_full: Option<[u8; 512]>,
    pub pending: bool,
}

pub(crate) fn view<C: SourceController>(s: &NtpSource<C>) -> View {
    View {
        stratum: s.stratum,
        reference_id: s.reference_id.to_bytes(),
        source_id: s.source_id.to_bytes(),
        reach: s.reach.0,
        protocol_version: s.protocol_version,
        bloom_full: s.bloom_filter.full_filter().map(|f| *f.as_bytes()),
        pending: s.current_request_identifier.is_some(),
    }
}

pub(crate) fn controller<C: SourceController>(s: &NtpSource<C>) -> &C {
    &s.controller
}
