//! C15 — Server access policy is enforced in order.
//!
//! Engine E-IN: the full cartesian product
//!   client address x deny list x deny action x allow list x allow action x require-nts
//!   x accepted-version set x request datagram
//! is run through the real `Server::handle` (mock clock, real `KeySet`, counting
//! `ServerStatHandler`, rate limiting off) and the answer is compared with a reference
//! decision function written from the property statement.
//!
//! Requests are assembled at byte level and answers are inspected with a small harness
//! side walker (header fields, extension-field walk, authenticator check with the
//! crate's AES-SIV cipher), so the oracle does not depend on the packet decoder under
//! test. List membership is computed with plain integer prefix arithmetic.
//!
//! This file also hosts the toolkit shared with C20 and C21 (same group): datagram
//! builder, answer walker, mock clock, counting stat handler, configuration lattice.
use std::collections::BTreeMap;
use std::net::{IpAddr, Ipv4Addr, Ipv6Addr};
use std::sync::atomic::{AtomicU64, Ordering};
use std::sync::{Arc, RwLock};
use std::time::Duration;

use super::common::{self, Ctx};
use crate::keyset::{DecodedServerCookie, KeySet, KeySetProvider};
use crate::nts::AeadAlgorithm;
use crate::packet::{AesSivCmac256, Cipher};
use crate::server::{
    FilterAction, FilterList, IpSubnet, Server, ServerAction, ServerConfig, ServerReason,
    ServerResponse, ServerStatHandler,
};
use crate::system::{NtpServerInfo, NtpSnapshot, TimeSnapshot};
use crate::{NtpClock, NtpDuration, NtpLeapIndicator, NtpTimestamp, NtpVersion};

// ---------------------------------------------------------------------------------
// shared toolkit
// ---------------------------------------------------------------------------------

/// What the mock clock reads (appears as transmit timestamp of a time answer).
pub(crate) const CLOCK_NOW: u64 = 0xC10C_A11E_5EED_0001;
/// Receive timestamp handed to `handle`.
pub(crate) const RECV_TS: u64 = 0x4ECE_17ED_0000_0777;
/// Client transmit timestamp / v5 client cookie in every request.
pub(crate) const CLIENT_TAG: u64 = 0x0C11_E417_7A67_0042;

pub(crate) const DRAFT_OK: &str = "draft-ietf-ntp-ntpv5-09";
pub(crate) const DRAFT_OTHER: &str = "draft-ietf-ntp-ntpv5-08";

const S2C_KEY: [u8; 32] = [0x11; 32];
const C2S_KEY: [u8; 32] = [0x22; 32];

pub(crate) fn s2c() -> AesSivCmac256 {
    AesSivCmac256::new(S2C_KEY.into())
}
pub(crate) fn c2s() -> AesSivCmac256 {
    AesSivCmac256::new(C2S_KEY.into())
}

#[derive(Clone)]
pub(crate) struct MockClock {
    pub now_calls: Arc<AtomicU64>,
}

impl MockClock {
    pub(crate) fn new() -> Self {
        MockClock {
            now_calls: Arc::new(AtomicU64::new(0)),
        }
    }
}

impl NtpClock for MockClock {
    type Error = std::io::Error;
    fn now(&self) -> Result<NtpTimestamp, Self::Error> {
        self.now_calls.fetch_add(1, Ordering::Relaxed);
        Ok(NtpTimestamp::from_fixed_int(CLOCK_NOW))
    }
    fn set_frequency(&self, _freq: f64) -> Result<NtpTimestamp, Self::Error> {
        panic!("verif: server steered the clock (set_frequency)");
    }
    fn get_frequency(&self) -> Result<f64, Self::Error> {
        Ok(0.0)
    }
    fn step_clock(&self, _offset: NtpDuration) -> Result<NtpTimestamp, Self::Error> {
        panic!("verif: server stepped the clock");
    }
    fn disable_ntp_algorithm(&self) -> Result<(), Self::Error> {
        panic!("verif: server touched the clock discipline");
    }
    fn error_estimate_update(&self, _e: NtpDuration, _m: NtpDuration) -> Result<(), Self::Error> {
        panic!("verif: server updated clock error estimates");
    }
    fn status_update(&self, _l: NtpLeapIndicator) -> Result<(), Self::Error> {
        panic!("verif: server updated clock status");
    }
}

pub(crate) type Reg = (u8, bool, ServerReason, ServerResponse);

/// Counting statistics handler: records every `register` call.
#[derive(Default)]
pub(crate) struct Regs(pub Vec<Reg>);

impl ServerStatHandler for Regs {
    fn register(&mut self, version: u8, nts: bool, reason: ServerReason, response: ServerResponse) {
        self.0.push((version, nts, reason, response));
    }
}

pub(crate) fn server_info() -> Arc<RwLock<NtpServerInfo>> {
    Arc::new(RwLock::new(NtpServerInfo {
        time_snapshot: TimeSnapshot {
            leap_indicator: NtpLeapIndicator::NoWarning,
            ..Default::default()
        },
        ntp_snapshot: NtpSnapshot {
            stratum: 2,
            ..Default::default()
        },
    }))
}

/// Keys and cookies shared by all requests. The server key set is the deterministic
/// `KeySet::new()` (all-zero key, id offset 1), so traces replay across processes.
pub(crate) struct Keys {
    pub keyset: Arc<KeySet>,
    /// valid under `keyset`
    pub cookie: Vec<u8>,
    /// right key id, but sealed under a different master key
    pub cookie_wrongkey: Vec<u8>,
    /// key id the server does not have
    pub cookie_unknown_id: Vec<u8>,
}

fn keyset_from_bytes(id_offset: u32, key: [u8; 64]) -> Arc<KeySet> {
    let mut raw = Vec::new();
    raw.extend_from_slice(&0u64.to_be_bytes());
    raw.extend_from_slice(&id_offset.to_be_bytes());
    raw.extend_from_slice(&0u32.to_be_bytes());
    raw.extend_from_slice(&1u32.to_be_bytes());
    raw.extend_from_slice(&key);
    KeySetProvider::load(&mut &raw[..], 1)
        .expect("keyset")
        .0
        .get()
}

impl Keys {
    pub(crate) fn new() -> Keys {
        let keyset = Arc::new(KeySet::new());
        let dc = DecodedServerCookie {
            algorithm: AeadAlgorithm::AeadAesSivCmac256,
            s2c: Box::new(s2c()),
            c2s: Box::new(c2s()),
        };
        let cookie = keyset.encode_cookie(&dc);
        let cookie_wrongkey = keyset_from_bytes(1, [0x55; 64]).encode_cookie(&dc);
        let cookie_unknown_id = keyset_from_bytes(77, [0; 64]).encode_cookie(&dc);
        Keys {
            keyset,
            cookie,
            cookie_wrongkey,
            cookie_unknown_id,
        }
    }
}

// ------------------------------- datagram builder --------------------------------

#[derive(Clone, Copy, PartialEq, Eq, Debug, Hash)]
pub(crate) enum Kind {
    /// no NTS fields
    Plain,
    /// NTS fields, authenticates under the server's key set
    NtsValid,
    /// NTS authenticator present but it does not authenticate
    NtsBad,
}

#[derive(Clone, Copy, PartialEq, Eq, Debug, Hash)]
pub(crate) enum Form {
    Well,
    /// structurally broken (truncated, garbage, bad lengths, unknown version, …)
    Malformed,
    /// structurally fine NTPv5 packet of another draft (or without draft id)
    OtherDraft,
}

#[derive(Clone, Debug)]
pub(crate) struct Dgram {
    pub name: String,
    pub bytes: Vec<u8>,
    /// version in the header (meaningful when `form == Well | OtherDraft`)
    pub version: u8,
    pub mode: u8,
    pub kind: Kind,
    pub form: Form,
}

pub(crate) fn hdr34(version: u8, mode: u8) -> Vec<u8> {
    let mut b = vec![0u8; 48];
    b[0] = (version << 3) | mode;
    b[2] = 6; // poll
    b[40..48].copy_from_slice(&CLIENT_TAG.to_be_bytes());
    b
}

pub(crate) fn hdr5(mode: u8) -> Vec<u8> {
    let mut b = vec![0u8; 48];
    b[0] = (5 << 3) | mode;
    b[2] = 6;
    b[24..32].copy_from_slice(&CLIENT_TAG.to_be_bytes());
    b
}

/// One extension field. v4: length field includes padding (multiple of 4).
/// v5: length field is header + body, wire is padded to 4.
pub(crate) fn ext(ty: u16, body: &[u8], v5: bool) -> Vec<u8> {
    let mut out = Vec::new();
    let padded = (body.len() + 3) / 4 * 4;
    let len = if v5 { 4 + body.len() } else { 4 + padded };
    out.extend_from_slice(&ty.to_be_bytes());
    out.extend_from_slice(&(len as u16).to_be_bytes());
    out.extend_from_slice(body);
    out.resize(4 + padded, 0);
    out
}

/// NTS authenticator-and-encrypted-extension-fields field over `aad`.
pub(crate) fn nts_auth(aad: &[u8], plaintext: &[u8], cipher: &dyn Cipher, v5: bool) -> Vec<u8> {
    let mut buf = plaintext.to_vec();
    buf.resize(plaintext.len() + 64, 0);
    let r = cipher
        .encrypt(&mut buf, plaintext.len(), aad)
        .expect("encrypt");
    let nonce = buf[..r.nonce_length].to_vec();
    let ct = buf[r.nonce_length..r.nonce_length + r.ciphertext_length].to_vec();
    let mut body = Vec::new();
    body.extend_from_slice(&(nonce.len() as u16).to_be_bytes());
    body.extend_from_slice(&(ct.len() as u16).to_be_bytes());
    body.extend_from_slice(&nonce);
    body.resize((body.len() + 3) / 4 * 4, 0);
    body.extend_from_slice(&ct);
    ext(0x0404, &body, v5)
}

pub(crate) const UID: [u8; 32] = [0xA5; 32];

/// every mode; client mode first so the first trace of a class is the plainest one
const MODES: [u8; 8] = [3, 0, 1, 2, 4, 5, 6, 7];

fn nts_request(
    version: u8,
    mode: u8,
    cookie: Option<&[u8]>,
    draft: Option<&str>,
    extra: &[u8],
) -> Vec<u8> {
    let v5 = version == 5;
    let mut p = if v5 { hdr5(mode) } else { hdr34(version, mode) };
    p.extend(ext(0x0104, &UID, v5));
    if let Some(c) = cookie {
        p.extend(ext(0x0204, c, v5));
    }
    p.extend_from_slice(extra);
    if let Some(d) = draft {
        p.extend(ext(0xF5FF, d.as_bytes(), v5));
    }
    let auth = nts_auth(&p.clone(), &[], &c2s(), v5);
    p.extend(auth);
    p
}

fn dg(name: &str, bytes: Vec<u8>, version: u8, mode: u8, kind: Kind, form: Form) -> Dgram {
    Dgram {
        name: name.to_string(),
        bytes,
        version,
        mode,
        kind,
        form,
    }
}

/// The request alphabet D15. Every entry is labelled by construction (what the
/// harness built), never by asking the decoder under test.
pub(crate) fn alphabet(k: &Keys) -> Vec<Dgram> {
    use Form::*;
    use Kind::*;
    let mut v = Vec::new();
    // ---- plain requests, every mode ----
    for ver in [3u8, 4] {
        for mode in MODES {
            v.push(dg(
                &format!("v{ver}.plain.m{mode}"),
                hdr34(ver, mode),
                ver,
                mode,
                Plain,
                Well,
            ));
        }
    }
    for mode in MODES {
        let mut p = hdr5(mode);
        p.extend(ext(0xF5FF, DRAFT_OK.as_bytes(), true));
        // NTPv5 only defines modes 3 and 4
        let form = if mode == 3 || mode == 4 {
            Well
        } else {
            Malformed
        };
        v.push(dg(&format!("v5.plain.m{mode}"), p, 5, mode, Plain, form));
    }
    {
        let mut p = hdr34(4, 3);
        p.extend(ext(0x0104, &UID, false));
        v.push(dg("v4.plain.uid", p, 4, 3, Plain, Well));
        let mut p = hdr34(4, 3);
        p.extend(ext(0x2222, &[0x77; 28], false));
        v.push(dg("v4.plain.unknown-ext", p, 4, 3, Plain, Well));
        let mut p = hdr34(4, 3);
        p.extend_from_slice(&[0x5A; 20]);
        v.push(dg("v4.plain.mac20", p, 4, 3, Plain, Well));
        let mut p = hdr34(3, 3);
        p.extend_from_slice(&[0x5A; 20]);
        v.push(dg("v3.plain.mac20", p, 3, 3, Plain, Well));
        let mut p = hdr5(3);
        p.extend(ext(0x0104, &UID, true));
        p.extend(ext(0xF5FF, DRAFT_OK.as_bytes(), true));
        v.push(dg("v5.plain.uid", p, 5, 3, Plain, Well));
    }
    // ---- NTS, authenticating ----
    for mode in MODES {
        let p = nts_request(4, mode, Some(&k.cookie), None, &[]);
        v.push(dg(
            &format!("v4.nts.ok.m{mode}"),
            p,
            4,
            mode,
            NtsValid,
            Well,
        ));
    }
    for mode in [3u8, 4] {
        let p = nts_request(5, mode, Some(&k.cookie), Some(DRAFT_OK), &[]);
        v.push(dg(
            &format!("v5.nts.ok.m{mode}"),
            p,
            5,
            mode,
            NtsValid,
            Well,
        ));
    }
    {
        let ph = ext(0x0304, &vec![0u8; k.cookie.len()], false);
        let p = nts_request(4, 3, Some(&k.cookie), None, &ph);
        v.push(dg("v4.nts.ok.placeholder", p, 4, 3, NtsValid, Well));
    }
    // ---- NTS, not authenticating ----
    for mode in MODES {
        let mut p = nts_request(4, mode, Some(&k.cookie), None, &[]);
        let n = p.len();
        p[n - 1] ^= 0x01; // last ciphertext (tag) byte
        v.push(dg(
            &format!("v4.nts.badtag.m{mode}"),
            p,
            4,
            mode,
            NtsBad,
            Well,
        ));
    }
    for mode in [3u8, 4] {
        let p = nts_request(4, mode, Some(&k.cookie_wrongkey), None, &[]);
        v.push(dg(
            &format!("v4.nts.wrongkey-cookie.m{mode}"),
            p,
            4,
            mode,
            NtsBad,
            Well,
        ));
    }
    {
        let p = nts_request(4, 3, Some(&k.cookie_unknown_id), None, &[]);
        v.push(dg("v4.nts.unknown-id-cookie.m3", p, 4, 3, NtsBad, Well));
        let p = nts_request(4, 3, None, None, &[]);
        v.push(dg("v4.nts.nocookie.m3", p, 4, 3, NtsBad, Well));
        let mut p = nts_request(4, 3, Some(&k.cookie), None, &[]);
        p[2] ^= 0x01; // poll byte is part of the associated data
        v.push(dg("v4.nts.aad-tamper.m3", p, 4, 3, NtsBad, Well));
    }
    for mode in [3u8, 4] {
        let mut p = nts_request(5, mode, Some(&k.cookie), Some(DRAFT_OK), &[]);
        let n = p.len();
        p[n - 1] ^= 0x01;
        v.push(dg(
            &format!("v5.nts.badtag.m{mode}"),
            p,
            5,
            mode,
            NtsBad,
            Well,
        ));
    }
    {
        let p = nts_request(5, 3, Some(&k.cookie_wrongkey), Some(DRAFT_OK), &[]);
        v.push(dg("v5.nts.wrongkey-cookie.m3", p, 5, 3, NtsBad, Well));
    }
    // ---- other NTPv5 drafts ----
    {
        let mut p = hdr5(3);
        p.extend(ext(0xF5FF, DRAFT_OTHER.as_bytes(), true));
        v.push(dg("v5.otherdraft.plain.m3", p, 5, 3, Plain, OtherDraft));
        v.push(dg("v5.nodraft.plain.m3", hdr5(3), 5, 3, Plain, OtherDraft));
        let p = nts_request(5, 3, Some(&k.cookie), Some(DRAFT_OTHER), &[]);
        v.push(dg("v5.otherdraft.nts.ok.m3", p, 5, 3, NtsValid, OtherDraft));
        let mut p = nts_request(5, 3, Some(&k.cookie), Some(DRAFT_OTHER), &[]);
        let n = p.len();
        p[n - 1] ^= 0x01;
        v.push(dg(
            "v5.otherdraft.nts.badtag.m3",
            p,
            5,
            3,
            NtsBad,
            OtherDraft,
        ));
        let mut p = nts_request(5, 3, Some(&k.cookie), None, &[]);
        let n = p.len();
        p[n - 1] ^= 0x01;
        v.push(dg("v5.nodraft.nts.badtag.m3", p, 5, 3, NtsBad, OtherDraft));
    }
    // ---- malformed ----
    v.push(dg("empty", vec![], 0, 0, Plain, Malformed));
    v.push(dg("1byte", vec![0x23], 4, 3, Plain, Malformed));
    v.push(dg(
        "v3.trunc47",
        hdr34(3, 3)[..47].to_vec(),
        3,
        3,
        Plain,
        Malformed,
    ));
    v.push(dg(
        "v4.trunc47",
        hdr34(4, 3)[..47].to_vec(),
        4,
        3,
        Plain,
        Malformed,
    ));
    v.push(dg(
        "v5.trunc47",
        hdr5(3)[..47].to_vec(),
        5,
        3,
        Plain,
        Malformed,
    ));
    for ver in [0u8, 1, 2, 6, 7] {
        v.push(dg(
            &format!("ver{ver}.m3"),
            hdr34(ver, 3),
            ver,
            3,
            Plain,
            Malformed,
        ));
    }
    v.push(dg("garbage-ff48", vec![0xFF; 48], 7, 7, Plain, Malformed));
    v.push(dg("garbage-ff120", vec![0xFF; 120], 7, 7, Plain, Malformed));
    {
        // declared field length runs past the end of the datagram
        let mut p = hdr34(4, 3);
        p.extend_from_slice(&[0x01, 0x04, 0x00, 0x40]);
        p.extend_from_slice(&[0xA5; 32]);
        v.push(dg("v4.ext-len-overrun", p, 4, 3, Plain, Malformed));
        // v4 field length not a multiple of four
        let mut p = hdr34(4, 3);
        p.extend_from_slice(&[0x01, 0x04, 0x00, 0x26]);
        p.extend_from_slice(&[0xA5; 36]);
        v.push(dg("v4.ext-len-unaligned", p, 4, 3, Plain, Malformed));
        // field length smaller than its own header
        let mut p = hdr34(4, 3);
        p.extend_from_slice(&[0x01, 0x04, 0x00, 0x00]);
        p.extend_from_slice(&[0xA5; 28]);
        v.push(dg("v4.ext-len-zero", p, 4, 3, Plain, Malformed));
        // valid NTS request cut in the middle of the authenticator
        let p = nts_request(4, 3, Some(&k.cookie), None, &[]);
        let n = p.len();
        v.push(dg(
            "v4.nts.trunc-auth",
            p[..n - 8].to_vec(),
            4,
            3,
            NtsValid,
            Malformed,
        ));
        // NTPv3 has no extension fields; 36 trailing bytes are no MAC either
        let mut p = hdr34(3, 3);
        p.extend_from_slice(&[0x5A; 36]);
        v.push(dg("v3.extra36", p, 3, 3, Plain, Malformed));
        // NTPv5 header with reserved flag bits / undefined timescale
        let mut p = hdr5(3);
        p[14] = 0x80;
        p.extend(ext(0xF5FF, DRAFT_OK.as_bytes(), true));
        v.push(dg("v5.badflags.m3", p, 5, 3, Plain, Malformed));
        let mut p = hdr5(3);
        p[12] = 9;
        p.extend(ext(0xF5FF, DRAFT_OK.as_bytes(), true));
        v.push(dg("v5.badtimescale.m3", p, 5, 3, Plain, Malformed));
        // broken v5 header in front of an undecryptable NTS field
        let mut p = nts_request(5, 3, Some(&k.cookie), Some(DRAFT_OK), &[]);
        let n = p.len();
        p[n - 1] ^= 1;
        p[14] = 0x80;
        v.push(dg("v5.badflags.nts.badtag.m3", p, 5, 3, NtsBad, Malformed));
    }
    v
}

// --------------------------------- answer walker ---------------------------------

#[derive(Clone, Copy, PartialEq, Eq, Debug, Hash, PartialOrd, Ord)]
pub(crate) enum Ans {
    None,
    Time,
    Deny,
    Nak,
    Rate,
    /// something that is none of the above (wrong version/mode, unknown kiss code, short)
    Odd,
}

impl Ans {
    pub(crate) fn tag(self) -> &'static str {
        match self {
            Ans::None => "none",
            Ans::Time => "time",
            Ans::Deny => "deny",
            Ans::Nak => "nak",
            Ans::Rate => "rate",
            Ans::Odd => "odd",
        }
    }
    pub(crate) fn bit(self) -> u8 {
        1 << (self as u8)
    }
}

#[derive(Clone, Debug, PartialEq, Eq)]
pub(crate) struct Seen {
    pub ans: Ans,
    /// `Some(verifies)` when the answer carries an NTS authenticator field
    pub auth: Option<bool>,
    /// a non-time answer that nevertheless contains the clock reading / receive time
    pub leaks_time: bool,
    pub len: usize,
}

fn contains(h: &[u8], needle: &[u8]) -> bool {
    h.windows(needle.len()).any(|w| w == needle)
}

/// Classify the answer to a request of header version `req_version`.
pub(crate) fn classify(resp: Option<&[u8]>, req_version: u8) -> Seen {
    let Some(r) = resp else {
        return Seen {
            ans: Ans::None,
            auth: None,
            leaks_time: false,
            len: 0,
        };
    };
    let mut seen = Seen {
        ans: Ans::Odd,
        auth: None,
        leaks_time: false,
        len: r.len(),
    };
    if r.len() < 48 {
        return seen;
    }
    let version = (r[0] >> 3) & 7;
    let mode = r[0] & 7;
    let stratum = r[1];
    let v5 = version == 5;
    if version == req_version && mode == 4 && (3..=5).contains(&version) {
        seen.ans = if stratum != 0 {
            Ans::Time
        } else if v5 {
            let authnak = r[15] & 0x04 != 0;
            let never = r[2] == 0x7F;
            match (authnak, never) {
                (true, false) => Ans::Nak,
                (false, true) => Ans::Deny,
                (false, false) => Ans::Rate,
                (true, true) => Ans::Odd,
            }
        } else {
            match &r[12..16] {
                b"DENY" => Ans::Deny,
                b"NTSN" => Ans::Nak,
                b"RATE" => Ans::Rate,
                _ => Ans::Odd,
            }
        };
    }
    if seen.ans != Ans::Time {
        seen.leaks_time =
            contains(r, &CLOCK_NOW.to_be_bytes()) || contains(r, &RECV_TS.to_be_bytes());
    } else if r[40..48] != CLOCK_NOW.to_be_bytes() || r[32..40] != RECV_TS.to_be_bytes() {
        // "time" that is not the server's time
        seen.ans = Ans::Odd;
    }
    // extension-field walk: look for the NTS authenticator
    if version != 3 {
        let mut off = 48usize;
        while off + 4 <= r.len() {
            let ty = u16::from_be_bytes([r[off], r[off + 1]]);
            let flen = u16::from_be_bytes([r[off + 2], r[off + 3]]) as usize;
            if flen < 4 {
                break;
            }
            let wire = (flen + 3) / 4 * 4;
            if off + wire > r.len() {
                break;
            }
            if ty == 0x0404 {
                let body = &r[off + 4..off + flen];
                let ok = (|| {
                    if body.len() < 4 {
                        return false;
                    }
                    let nl = u16::from_be_bytes([body[0], body[1]]) as usize;
                    let cl = u16::from_be_bytes([body[2], body[3]]) as usize;
                    let ns = 4;
                    let cs = 4 + (nl + 3) / 4 * 4;
                    if ns + nl > body.len() || cs + cl > body.len() {
                        return false;
                    }
                    s2c()
                        .decrypt(&body[ns..ns + nl], &body[cs..cs + cl], &r[..off])
                        .is_ok()
                })();
                seen.auth = Some(ok);
                break;
            }
            off += wire;
        }
    }
    seen
}

// ------------------------------ configuration lattice ----------------------------

pub(crate) type Net = (IpAddr, u8);

fn net(s: &str) -> Net {
    let (a, m) = s.split_once('/').unwrap();
    (a.parse().unwrap(), m.parse().unwrap())
}

pub(crate) fn lists(thorough: bool) -> Vec<(&'static str, Vec<Net>)> {
    let mut v = vec![
        ("empty", vec![]),
        ("all", vec![net("0.0.0.0/0"), net("::/0")]),
        (
            "slash24",
            vec![net("10.1.2.0/24"), net("2001:db8:1:2::/64")],
        ),
        (
            "host",
            vec![net("10.1.2.77/32"), net("2001:db8:1:2::5/128")],
        ),
        (
            "nested",
            vec![
                net("10.1.0.0/16"),
                net("10.1.2.0/24"),
                net("10.1.2.77/32"),
                net("2001:db8::/32"),
            ],
        ),
        ("all-v4", vec![net("0.0.0.0/0")]),
    ];
    if thorough {
        v.push(("all-v6", vec![net("::/0")]));
        v.push((
            "upper-half",
            vec![net("10.1.2.128/25"), net("2001:db8:1:2:8000::/65")],
        ));
        v.push((
            "pair",
            vec![net("10.1.2.76/31"), net("2001:db8:1:2::4/127")],
        ));
    }
    v
}

pub(crate) fn addresses(thorough: bool) -> Vec<IpAddr> {
    let mut v: Vec<&str> = vec![
        "10.1.2.3",
        "10.1.2.255",
        "10.1.3.0",
        "10.1.2.77",
        "192.0.2.1",
        "2001:db8:1:2::5",
        "2001:db8:1:3::5",
        "::1",
        "::ffff:10.1.2.3",
        "::ffff:10.1.2.77",
        "::ffff:10.1.3.0",
        "::ffff:192.0.2.1",
    ];
    if thorough {
        v.extend([
            "10.1.1.255",
            "10.1.2.0",
            "10.1.2.76",
            "10.1.2.78",
            "10.1.2.127",
            "10.1.2.128",
            "10.0.255.255",
            "10.2.0.0",
            "2001:db8:1:1:ffff:ffff:ffff:ffff",
            "2001:db8:1:2::",
            "2001:db8:1:2::4",
            "2001:db8:1:2::6",
            "2001:db8:1:2:8000::",
            "2001:db8:1:2:7fff:ffff:ffff:ffff",
            "2001:db9::",
            "::ffff:10.1.2.255",
            "::ffff:10.1.2.76",
            "::ffff:10.1.2.128",
            "::10.1.2.3",
        ]);
    }
    v.into_iter().map(|s| s.parse().unwrap()).collect()
}

/// Reference list membership: IPv4-mapped IPv6 client addresses count as the IPv4
/// address; a subnet only contains addresses of its own family.
pub(crate) fn listed(list: &[Net], a: IpAddr) -> bool {
    let a = match a {
        IpAddr::V6(x) => {
            let o = x.octets();
            if o[..10].iter().all(|b| *b == 0) && o[10] == 0xff && o[11] == 0xff {
                IpAddr::V4(Ipv4Addr::new(o[12], o[13], o[14], o[15]))
            } else {
                a
            }
        }
        v4 => v4,
    };
    list.iter().any(|(n, m)| match (canon_net((*n, *m)), a) {
        ((IpAddr::V4(n), m), IpAddr::V4(x)) => {
            let m = &m;
            let (n, x) = (
                u32::from_be_bytes(n.octets()) as u64,
                u32::from_be_bytes(x.octets()) as u64,
            );
            *m == 0 || (n ^ x) >> (32 - *m as u32) == 0
        }
        ((IpAddr::V6(n), m), IpAddr::V6(x)) => {
            let (n, x) = (
                u128::from_be_bytes(n.octets()),
                u128::from_be_bytes(x.octets()),
            );
            m == 0 || (n ^ x) >> (128 - m as u32) == 0
        }
        _ => false,
    })
}

fn is_mapped(x: &Ipv6Addr) -> bool {
    let o = x.octets();
    o[..10].iter().all(|b| *b == 0) && o[10] == 0xff && o[11] == 0xff
}

/// A subnet written in IPv4-mapped form (`::ffff:a.b.c.d/(96+m)`) denotes the IPv4 subnet
/// `a.b.c.d/m` (that is how the configuration reads it).
pub(crate) fn canon_net(n: Net) -> Net {
    match n {
        (IpAddr::V6(x), m) if is_mapped(&x) && m >= 96 => {
            let o = x.octets();
            (
                IpAddr::V4(Ipv4Addr::new(o[12], o[13], o[14], o[15])),
                m - 96,
            )
        }
        other => other,
    }
}

#[derive(Clone, Copy, PartialEq, Eq, Debug, Hash)]
pub(crate) enum Act {
    Ignore,
    Deny,
}

impl Act {
    fn real(self) -> FilterAction {
        match self {
            Act::Ignore => FilterAction::Ignore,
            Act::Deny => FilterAction::Deny,
        }
    }
    fn ch(self) -> char {
        match self {
            Act::Ignore => 'i',
            Act::Deny => 'd',
        }
    }
    fn from_ch(c: &str) -> Option<Act> {
        match c {
            "i" => Some(Act::Ignore),
            "d" => Some(Act::Deny),
            _ => None,
        }
    }
}

/// One policy configuration, in harness terms.
#[derive(Clone, Debug)]
pub(crate) struct Policy {
    pub deny_name: &'static str,
    pub deny: Vec<Net>,
    pub deny_act: Act,
    pub allow_name: &'static str,
    pub allow: Vec<Net>,
    pub allow_act: Act,
    pub require_nts: Option<Act>,
    /// bit (v-3) set <=> version v accepted
    pub versions: u8,
    pub cache_size: usize,
    pub cutoff: Duration,
}

impl Policy {
    pub(crate) fn accepts(&self, v: u8) -> bool {
        (3..=5).contains(&v) && self.versions & (1 << (v - 3)) != 0
    }

    pub(crate) fn server_config(&self) -> ServerConfig {
        let subnets = |l: &[Net]| {
            l.iter()
                .map(|(a, m)| match a {
                    // written in IPv4-mapped form: through the real text parser, as a config file would
                    IpAddr::V6(x) if is_mapped(x) => format!("{a}/{m}")
                        .parse::<IpSubnet>()
                        .expect("mapped subnet text"),
                    _ => IpSubnet { addr: *a, mask: *m },
                })
                .collect()
        };
        let mut accepted = Vec::new();
        for (v, nv) in [
            (3u8, NtpVersion::V3),
            (4, NtpVersion::V4),
            (5, NtpVersion::V5),
        ] {
            if self.accepts(v) {
                accepted.push(nv);
            }
        }
        ServerConfig {
            denylist: FilterList {
                filter: subnets(&self.deny),
                action: self.deny_act.real(),
            },
            allowlist: FilterList {
                filter: subnets(&self.allow),
                action: self.allow_act.real(),
            },
            rate_limiting_cache_size: self.cache_size,
            rate_limiting_cutoff: self.cutoff,
            require_nts: self.require_nts.map(Act::real),
            accepted_versions: accepted,
        }
    }

    pub(crate) fn server(&self, keys: &Keys) -> (Server<MockClock>, MockClock) {
        let clock = MockClock::new();
        (
            Server::new_internal(
                self.server_config(),
                clock.clone(),
                server_info(),
                keys.keyset.clone(),
            ),
            clock,
        )
    }

    /// A server that answers from a snapshot the harness keeps a handle on (the daemon's
    /// system task publishes new snapshots through the same `Arc<RwLock<_>>`).
    pub(crate) fn server_shared(&self, keys: &Keys, info: Arc<RwLock<NtpServerInfo>>) -> Server<MockClock> {
        Server::new_internal(self.server_config(), MockClock::new(), info, keys.keyset.clone())
    }

    pub(crate) fn trace(&self) -> String {
        format!(
            "dl={};da={};al={};aa={};nts={};ver={};cs={};co={}",
            self.deny_name,
            self.deny_act.ch(),
            self.allow_name,
            self.allow_act.ch(),
            match self.require_nts {
                None => 'n',
                Some(a) => a.ch(),
            },
            self.versions,
            self.cache_size,
            self.cutoff.as_secs(),
        )
    }

    /// Inverse of `trace` (list names are looked up in the thorough list set).
    pub(crate) fn parse(fields: &BTreeMap<String, String>) -> Option<Policy> {
        let ls = lists(true);
        let find = |n: &str| -> Option<(&'static str, Vec<Net>)> {
            if let Some(rest) = n.strip_prefix('@') {
                // explicit list: "@net+net+..." (boundary sweep)
                let nets: Option<Vec<Net>> = rest
                    .split('+')
                    .filter(|t| !t.is_empty())
                    .map(|t| {
                        let (a, m) = t.rsplit_once('/')?;
                        Some((a.parse().ok()?, m.parse().ok()?))
                    })
                    .collect();
                return Some((leak(n.to_string()), nets?));
            }
            ls.iter().find(|(name, _)| *name == n).cloned()
        };
        let (deny_name, deny) = find(fields.get("dl")?)?;
        let (allow_name, allow) = find(fields.get("al")?)?;
        Some(Policy {
            deny_name,
            deny,
            deny_act: Act::from_ch(fields.get("da")?)?,
            allow_name,
            allow,
            allow_act: Act::from_ch(fields.get("aa")?)?,
            require_nts: match fields.get("nts")?.as_str() {
                "n" => None,
                o => Some(Act::from_ch(o)?),
            },
            versions: fields.get("ver")?.parse().ok()?,
            cache_size: fields.get("cs").and_then(|s| s.parse().ok()).unwrap_or(0),
            cutoff: Duration::from_secs(fields.get("co").and_then(|s| s.parse().ok()).unwrap_or(0)),
        })
    }
}

pub(crate) fn parse_fields(trace: &str) -> BTreeMap<String, String> {
    trace
        .split(';')
        .filter_map(|kv| kv.split_once('='))
        .map(|(k, v)| (k.trim().to_string(), v.trim().to_string()))
        .collect()
}

/// All policies of the lattice (rate limiting off).
pub(crate) fn policies(thorough: bool) -> Vec<Policy> {
    let ls = lists(thorough);
    let mut out = Vec::new();
    for (dn, dl) in &ls {
        for da in [Act::Ignore, Act::Deny] {
            for (an, al) in &ls {
                for aa in [Act::Ignore, Act::Deny] {
                    for rn in [None, Some(Act::Ignore), Some(Act::Deny)] {
                        for versions in 0u8..8 {
                            out.push(Policy {
                                deny_name: dn,
                                deny: dl.clone(),
                                deny_act: da,
                                allow_name: an,
                                allow: al.clone(),
                                allow_act: aa,
                                require_nts: rn,
                                versions,
                                cache_size: 0,
                                cutoff: Duration::ZERO,
                            });
                        }
                    }
                }
            }
        }
    }
    out
}

pub(crate) struct Outcome {
    pub resp: Option<Vec<u8>>,
    pub regs: Vec<Reg>,
    pub panic: Option<String>,
}

/// One call into the real `Server::handle`.
pub(crate) fn run_handle(
    server: &mut Server<MockClock>,
    addr: IpAddr,
    dgram: &[u8],
    buf: &mut [u8],
) -> Outcome {
    let mut regs = Regs::default();
    let r = common::catch(|| {
        match server.handle(
            addr,
            NtpTimestamp::from_fixed_int(RECV_TS),
            dgram,
            buf,
            &mut regs,
        ) {
            ServerAction::Ignore => None,
            ServerAction::Respond { message } => Some(message.to_vec()),
        }
    });
    match r {
        Ok(resp) => Outcome {
            resp,
            regs: regs.0,
            panic: None,
        },
        Err(e) => Outcome {
            resp: None,
            regs: regs.0,
            panic: Some(e),
        },
    }
}

// ---------------------------------------------------------------------------------
// boundary-valued subnets: lists and client addresses generated around nibble-aligned
// blocks (the IP filter is a 4-bit trie; the policy must hold end to end whatever the
// filter does with subnets that start / end exactly at a block edge or tile a block)
// ---------------------------------------------------------------------------------

fn leak(s: String) -> &'static str {
    Box::leak(s.into_boxed_str())
}

/// A nibble-aligned block: `val` right-aligned in `width` bits, `len` a multiple of 4.
#[derive(Clone, Copy, Debug)]
pub(crate) struct Block {
    pub v6: bool,
    pub val: u128,
    pub len: u8,
}

impl Block {
    fn width(&self) -> u8 {
        if self.v6 { 128 } else { 32 }
    }
    fn ip(&self, v: u128) -> IpAddr {
        if self.v6 {
            IpAddr::V6(Ipv6Addr::from(v.to_be_bytes()))
        } else {
            IpAddr::V4(Ipv4Addr::from((v as u32).to_be_bytes()))
        }
    }
    fn max(&self) -> u128 {
        if self.v6 { u128::MAX } else { u32::MAX as u128 }
    }
    /// Sub-subnet given by `bits` (a string of '0'/'1' appended to the block prefix).
    fn sub(&self, bits: &str) -> Option<(u128, u8)> {
        let l = self.len as usize + bits.len();
        if l > self.width() as usize {
            return None;
        }
        let mut v = self.val;
        for (i, c) in bits.chars().enumerate() {
            if c == '1' {
                v |= 1u128 << (self.width() as usize - self.len as usize - 1 - i);
            }
        }
        Some((v, l as u8))
    }
    fn net(&self, n: (u128, u8)) -> Net {
        (self.ip(n.0), n.1)
    }
    /// first and last address of a (value, length) subnet
    fn range(&self, n: (u128, u8)) -> (u128, u128) {
        let host = self.width() - n.1;
        let size_m1 = if host == 0 {
            0
        } else if host == 128 {
            u128::MAX
        } else {
            (1u128 << host) - 1
        };
        (n.0, n.0 | size_m1)
    }
}

fn parse_block(s: &str) -> Block {
    let (a, l) = s.split_once('/').unwrap();
    match a.parse::<IpAddr>().unwrap() {
        IpAddr::V4(x) => Block {
            v6: false,
            val: u32::from_be_bytes(x.octets()) as u128,
            len: l.parse().unwrap(),
        },
        IpAddr::V6(x) => Block {
            v6: true,
            val: u128::from_be_bytes(x.octets()),
            len: l.parse().unwrap(),
        },
    }
}

pub(crate) fn blocks(thorough: bool) -> Vec<Block> {
    let mut v = vec![
        "192.168.240.0/20", // block in the middle of the address
        "10.240.0.0/12",
        "172.16.5.240/28",    // last nibble of an IPv4 address
        "255.255.255.240/28", // block that ends at the end of the address space
        "2001:db8:0:f000::/52",
        "2001:db8:5::fff0/124", // last nibble of an IPv6 address
    ];
    if thorough {
        v.extend([
            "240.0.0.0/4",
            "10.1.0.0/16",
            "0.0.0.0/8",
            "fff0::/12",
            "2001:db8:ffff:ff00::/56",
            "::/4",
        ]);
    }
    v.into_iter().map(parse_block).collect()
}

/// All boundary-valued lists of one block: single subnets whose bits after the block
/// prefix are all zeros / all ones / next to those, for 1..=8 (thorough 12) extra bits;
/// runs of adjacent subnets that do / do not reach the block end, tile the block, or
/// leave a gap; IPv4-mapped spellings. Thorough: also every pair of singles.
pub(crate) fn boundary_lists(b: &Block, thorough: bool) -> Vec<Vec<Net>> {
    let mut singles: Vec<(u128, u8)> = Vec::new();
    let max_extra = if thorough { 12 } else { 8 };
    for s in 1..=max_extra {
        if b.len as usize + s > b.width() as usize {
            break;
        }
        let slots = 1u128 << s;
        let mut ps = vec![0, 1, slots - 2, slots - 1];
        ps.sort_unstable();
        ps.dedup();
        for p in ps {
            let bits: String = (0..s)
                .rev()
                .map(|i| if p >> i & 1 == 1 { '1' } else { '0' })
                .collect();
            if let Some(n) = b.sub(&bits) {
                if !singles.contains(&n) {
                    singles.push(n);
                }
            }
        }
    }
    let mut out: Vec<Vec<Net>> = singles.iter().map(|n| vec![b.net(*n)]).collect();
    let runs: [&[&str]; 12] = [
        &["01", "1"],               // [1/4, 1): reaches the end, start missing
        &["0", "10", "110"],        // [0, 7/8): adjacent run, end missing
        &["0", "10", "110", "111"], // tiles the whole block
        &["0", "1"],                // tiles the whole block
        &["0", "11"],               // gap in the middle
        &["1", "111"],              // nested, at the end
        &["10", "110", "111"],      // [1/2, 1) as an adjacent run
        &["00", "01", "10"],        // [0, 3/4)
        &["001", "01", "1"],        // [1/8, 1)
        &["0000", "1111"],          // both edges only
        &["1110", "1111"],          // [7/8, 1) from two halves
        &["01", "10"],              // the middle half
    ];
    for r in runs {
        let nets: Option<Vec<Net>> = r.iter().map(|bits| b.sub(bits).map(|n| b.net(n))).collect();
        if let Some(n) = nets {
            out.push(n);
        }
    }
    if !b.v6 {
        // the same subnet written in IPv4-mapped form
        for bits in ["1111", "0000", "11111111", "1"] {
            if let Some((v, l)) = b.sub(bits) {
                let mapped = Ipv4Addr::from((v as u32).to_be_bytes()).to_ipv6_mapped();
                out.push(vec![(IpAddr::V6(mapped), 96 + l)]);
            }
        }
    }
    if thorough {
        for i in 0..singles.len() {
            for j in i + 1..singles.len() {
                out.push(vec![b.net(singles[i]), b.net(singles[j])]);
            }
        }
    }
    out
}

/// Client addresses for one (block, list): first/last/middle of the block and its outer
/// neighbours, and for every subnet its first/last address and the addresses just before
/// and after it; IPv4 ones also in IPv4-mapped form; plus one address of the other family.
pub(crate) fn boundary_addresses(b: &Block, list: &[Net]) -> Vec<IpAddr> {
    let mut vals: Vec<u128> = Vec::new();
    let mut add_range = |first: u128, last: u128, vals: &mut Vec<u128>| {
        vals.push(first);
        vals.push(last);
        if first > 0 {
            vals.push(first - 1);
        }
        if last < b.max() {
            vals.push(last + 1);
        }
    };
    let (bf, bl) = b.range((b.val, b.len));
    add_range(bf, bl, &mut vals);
    let mid = bf + (bl - bf) / 2;
    vals.push(mid);
    vals.push(mid + 1);
    for n in list {
        let (a, m) = canon_net(*n);
        let v = match a {
            IpAddr::V4(x) => u32::from_be_bytes(x.octets()) as u128,
            IpAddr::V6(x) => u128::from_be_bytes(x.octets()),
        };
        let (f, l) = b.range((v, m));
        add_range(f, l, &mut vals);
    }
    vals.sort_unstable();
    vals.dedup();
    let mut out: Vec<IpAddr> = Vec::new();
    for v in vals {
        let ip = b.ip(v);
        out.push(ip);
        if let IpAddr::V4(x) = ip {
            out.push(IpAddr::V6(x.to_ipv6_mapped()));
        }
    }
    out.push(if b.v6 {
        "192.0.2.1".parse().unwrap()
    } else {
        "2001:db8::1".parse().unwrap()
    });
    out
}

fn list_name(l: &[Net]) -> &'static str {
    leak(format!(
        "@{}",
        l.iter()
            .map(|(a, m)| format!("{a}/{m}"))
            .collect::<Vec<_>>()
            .join("+")
    ))
}

/// Policies of the boundary sweep for one list: as allow list (nothing denied), as deny
/// list (everything allowed), and as both, each with both actions.
pub(crate) fn boundary_policies(l: &[Net]) -> Vec<Policy> {
    let all: Vec<Net> = vec![net("0.0.0.0/0"), net("::/0")];
    let name = list_name(l);
    let mut out = Vec::new();
    for act in [Act::Ignore, Act::Deny] {
        let base = Policy {
            deny_name: "empty",
            deny: vec![],
            deny_act: act,
            allow_name: "all",
            allow: all.clone(),
            allow_act: act,
            require_nts: None,
            versions: 7,
            cache_size: 0,
            cutoff: Duration::ZERO,
        };
        out.push(Policy {
            allow_name: name,
            allow: l.to_vec(),
            ..base.clone()
        });
        out.push(Policy {
            deny_name: name,
            deny: l.to_vec(),
            ..base.clone()
        });
        out.push(Policy {
            deny_name: name,
            deny: l.to_vec(),
            allow_name: name,
            allow: l.to_vec(),
            allow_act: if act == Act::Ignore {
                Act::Deny
            } else {
                Act::Ignore
            },
            ..base.clone()
        });
    }
    out
}

pub(crate) const BOUNDARY_DGRAMS: [&str; 5] = [
    "v4.plain.m3",
    "v3.plain.m3",
    "v5.plain.m3",
    "v4.nts.ok.m3",
    "v4.nts.badtag.m3",
];

fn sweep_boundary(ctx: &Ctx, keys: &Keys, alpha: &[Dgram], thorough: bool) {
    let dgs: Vec<&Dgram> = BOUNDARY_DGRAMS
        .iter()
        .map(|n| alpha.iter().find(|d| d.name == *n).expect("datagram"))
        .collect();
    let mut work: Vec<(Block, Vec<Net>)> = Vec::new();
    for b in blocks(thorough) {
        for l in boundary_lists(&b, thorough) {
            work.push((b, l));
        }
    }
    ctx.set("bnd.blocks", blocks(thorough).len() as u64);
    ctx.set("bnd.lists", work.len() as u64);
    common::par_for(work.len() as u64, 4, |wi| {
        let (b, l) = &work[wi as usize];
        let addrs = boundary_addresses(b, l);
        let mut tally: BTreeMap<String, u64> = BTreeMap::new();
        let mut hashes = Vec::new();
        let mut n = 0u64;
        let mut inside = 0u64;
        let mut buf = vec![0u8; 1024];
        for (pi, p) in boundary_policies(l).iter().enumerate() {
            let (mut server, _clock) = p.server(keys);
            for (ai, addr) in addrs.iter().enumerate() {
                if pi == 0 && listed(l, *addr) {
                    inside += 1;
                }
                for (di, d) in dgs.iter().enumerate() {
                    let out = run_handle(&mut server, *addr, &d.bytes, &mut buf);
                    judge(ctx, p, *addr, d, &out, &mut tally);
                    n += 1;
                    hashes.push(common::hash_of(&("bnd", wi, pi, ai, di)));
                }
            }
        }
        ctx.distinct_many(hashes);
        ctx.add("evaluations", n);
        ctx.add("transitions", n);
        ctx.add("bnd.handles", n);
        ctx.add("bnd.addresses_inside_list", inside);
        ctx.add("bnd.addresses_outside_list", addrs.len() as u64 - inside);
        ctx.add("states", 6);
        for (k, v) in tally {
            ctx.add(&format!("bnd.{k}"), v);
        }
        if wi % 53 == 1 {
            ctx.sample(format!(
                "boundary list {} : {} client addresses, {} inside",
                list_name(l),
                addrs.len(),
                inside
            ));
        }
    });
}

// ---------------------------------------------------------------------------------
// C15 reference decision function (from the statement)
// ---------------------------------------------------------------------------------

/// Allowed answer classes (bit set over `Ans`) and the clause of the statement that
/// decides, for one (policy, address, datagram).
pub(crate) fn reference(p: &Policy, addr: IpAddr, d: &Dgram) -> (u8, &'static str) {
    let none = Ans::None.bit();
    // "Malformed datagrams, non-client packets and requests in non-accepted NTP versions
    //  are never answered"
    match d.form {
        Form::Malformed => return (none, "malformed"),
        Form::OtherDraft => return (none, "other-draft"),
        Form::Well => {}
    }
    if d.mode != 3 {
        return (none, "non-client");
    }
    if !p.accepts(d.version) {
        return (none, "version");
    }
    // "A client on the deny list, or not on the allow list, never receives time: with the
    //  'ignore' action it receives nothing and with the 'deny' action at most a DENY kiss
    //  code (checked in that order)"
    if listed(&p.deny, addr) {
        return match p.deny_act {
            Act::Ignore => (none, "deny-list-ignore"),
            Act::Deny => (none | Ans::Deny.bit(), "deny-list-deny"),
        };
    }
    if !listed(&p.allow, addr) {
        return match p.allow_act {
            Act::Ignore => (none, "allow-list-ignore"),
            Act::Deny => (none | Ans::Deny.bit(), "allow-list-deny"),
        };
    }
    match d.kind {
        // "plain requests never receive time when NTS is required"
        Kind::Plain => match p.require_nts {
            Some(Act::Ignore) => (none, "nts-required-ignore"),
            Some(Act::Deny) => (none | Ans::Deny.bit(), "nts-required-deny"),
            // "A well-formed, accepted-version request from a client that passes both lists
            //  and is not rate-limited receives time"
            None => (Ans::Time.bit(), "legit-plain"),
        },
        // "(for NTS: when it authenticates)"
        Kind::NtsValid => (Ans::Time.bit(), "legit-nts"),
        Kind::NtsBad => (none | Ans::Nak.bit(), "nts-unauthenticated"),
    }
}

fn judge(
    ctx: &Ctx,
    p: &Policy,
    addr: IpAddr,
    d: &Dgram,
    out: &Outcome,
    tally: &mut BTreeMap<String, u64>,
) -> Seen {
    let trace = || format!("{};addr={};dg={}", p.trace(), addr, d.name);
    let seen = classify(out.resp.as_deref(), d.version);
    if let Some(e) = &out.panic {
        ctx.violation(
            "C15:handle-panic",
            format!("Server::handle panicked: {e}"),
            trace(),
        );
        return seen;
    }
    let (allowed, why) = reference(p, addr, d);
    *tally
        .entry(format!("out.{why}.{}", seen.ans.tag()))
        .or_insert(0) += 1;
    if allowed & seen.ans.bit() == 0 {
        let want: Vec<&str> = [Ans::None, Ans::Time, Ans::Deny, Ans::Nak]
            .iter()
            .filter(|a| allowed & a.bit() != 0)
            .map(|a| a.tag())
            .collect();
        // "never answered" clauses: one class per clause (the kind of answer is in the text);
        // the other clauses: one class per (clause, wrong answer)
        let class = if allowed == Ans::None.bit()
            && matches!(why, "malformed" | "other-draft" | "non-client" | "version")
        {
            format!("C15:{why}-answered")
        } else {
            format!("C15:{why}:got-{}", seen.ans.tag())
        };
        ctx.violation(
            &class,
            format!(
                "client {addr} sent {} ({:?}, v{} mode {}): statement allows {{{}}} ({why}), server answered {} ({} bytes)",
                d.name,
                d.kind,
                d.version,
                d.mode,
                want.join("|"),
                seen.ans.tag(),
                seen.len
            ),
            trace(),
        );
    }
    if seen.leaks_time {
        ctx.violation(
            &format!("C15:{}-answer-carries-time", seen.ans.tag()),
            format!(
                "a {} answer to {addr} contains the server clock reading or receive time",
                seen.ans.tag()
            ),
            trace(),
        );
    }
    if seen.ans == Ans::Time {
        match (d.kind, seen.auth) {
            // an NTS client cannot use an answer whose authenticator does not verify
            (Kind::NtsValid, Some(true)) | (Kind::Plain, None) => {}
            (Kind::NtsValid, a) => ctx.violation(
                "C15:nts-time-not-authenticated",
                format!(
                    "time answer to authenticated NTS request {} has authenticator {a:?}",
                    d.name
                ),
                trace(),
            ),
            _ => {}
        }
    }
    seen
}

fn replay(ctx: &Ctx, trace: &str) -> String {
    let keys = Keys::new();
    let f = parse_fields(trace);
    let Some(p) = Policy::parse(&f) else {
        return format!("unparsable trace {trace:?}");
    };
    let Some(addr) = f.get("addr").and_then(|a| a.parse::<IpAddr>().ok()) else {
        return "bad addr".into();
    };
    let alpha = alphabet(&keys);
    let Some(d) = alpha.iter().find(|d| Some(&d.name) == f.get("dg")) else {
        return "unknown datagram".into();
    };
    let (mut server, _clock) = p.server(&keys);
    let mut buf = vec![0u8; 1024];
    let out = run_handle(&mut server, addr, &d.bytes, &mut buf);
    let mut tally = BTreeMap::new();
    let seen = judge(ctx, &p, addr, d, &out, &mut tally);
    let (allowed, why) = reference(&p, addr, d);
    format!(
        "request={} ({} bytes, {:?}/{:?}) clause={why} allowed_mask={allowed:#04x} answer={} len={} auth={:?} regs={:?} panic={:?}",
        d.name,
        d.bytes.len(),
        d.kind,
        d.form,
        seen.ans.tag(),
        seen.len,
        seen.auth,
        out.regs,
        out.panic
    )
}

/// Machinery self-check: the labels the harness gives its own datagrams must be
/// reachable (a mislabelled alphabet would make verdicts meaningless).
fn self_check(ctx: &Ctx, keys: &Keys, alpha: &[Dgram]) -> bool {
    let open = Policy {
        deny_name: "empty",
        deny: vec![],
        deny_act: Act::Deny,
        allow_name: "all",
        allow: lists(false)[1].1.clone(),
        allow_act: Act::Ignore,
        require_nts: None,
        versions: 7,
        cache_size: 0,
        cutoff: Duration::ZERO,
    };
    let (mut server, _c) = open.server(keys);
    let mut ok = true;
    let mut names = std::collections::BTreeSet::new();
    for d in alpha {
        if !names.insert(d.name.clone()) {
            ctx.cap_hit(&format!("machinery: duplicate datagram name {}", d.name));
            ok = false;
        }
    }
    // the valid cookie must decode under the server key set and the others must not
    if keys.keyset.decode_cookie(&keys.cookie).is_err()
        || keys.keyset.decode_cookie(&keys.cookie_wrongkey).is_ok()
        || keys.keyset.decode_cookie(&keys.cookie_unknown_id).is_ok()
    {
        ctx.cap_hit("machinery: cookie fixtures do not have the intended validity");
        ok = false;
    }
    // the harness' own authenticator must verify with the harness walker (round trip of
    // builder and walker without the decoder under test)
    let probe = nts_auth(b"aad", &[], &s2c(), false);
    let mut fake = hdr34(4, 4);
    fake[1] = 2;
    fake[32..40].copy_from_slice(&RECV_TS.to_be_bytes());
    fake[40..48].copy_from_slice(&CLOCK_NOW.to_be_bytes());
    let auth = nts_auth(&fake.clone(), &[], &s2c(), false);
    fake.extend(auth);
    let s = classify(Some(&fake), 4);
    if s.ans != Ans::Time || s.auth != Some(true) || probe.len() != 40 {
        ctx.cap_hit("machinery: builder/walker round trip failed");
        ok = false;
    }
    let _ = &mut server;
    ok
}

#[test]
fn check() {
    let ctx = Ctx::new("C15");
    if let Some(t) = common::replay_trace() {
        let a = replay(&ctx, &t);
        let b = replay(&ctx, &t);
        common::report_replay("C15", &a, &b, ctx.violation_count() > 0);
        return;
    }
    let thorough = !ctx.quick();
    let keys = Keys::new();
    let alpha = alphabet(&keys);
    let addrs = addresses(thorough);
    let pols = policies(thorough);
    ctx.rule(
        "full cartesian product: client address (IPv4, IPv6, IPv4-mapped; inside / on the edge of / outside the \
         configured subnets) x deny list x deny action x allow list x allow action x require-nts {off,ignore,deny} x \
         every subset of accepted versions {3,4,5} x request datagram (byte-built: plain v3/v4/v5 in every mode 0..7, \
         with UID/unknown field/MAC; NTS with valid cookie in every mode; NTS with bad tag in every mode, wrong-key / \
         unknown-id / missing cookie, tampered associated data; NTPv5 of another draft or without draft id; truncated, \
         garbage, unknown versions, broken field lengths, broken v5 header). quick = base factor sets, thorough = \
         extended address and list sets. Second sweep (boundary-valued subnets): for each nibble-aligned block (IPv4 /12 /20 /28, \
         IPv6 /52 /124, incl. one ending at the end of the address space; thorough more) every list made of one subnet whose bits \
         after the block prefix are all-zeros / all-ones / adjacent to those for 1..8 (thorough 12) extra bits, 12 runs of adjacent \
         subnets that do / do not reach the block end, tile it or leave a gap, IPv4-mapped spellings (thorough: every pair of \
         singles), used as allow list, as deny list and as both, x both actions x client addresses just inside / just outside every \
         subnet and the block (first, last, middle, neighbours; IPv4 also IPv4-mapped) x 5 requests. Distinct & non-trivial = a (policy, address, datagram) triple whose datagram \
         is a well-formed client-mode request (so the policy, not the parser, decides).",
    );
    ctx.assume("IPv4-mapped IPv6 client addresses are matched as IPv4; a subnet only contains addresses of its own family (same reading as C31)");
    ctx.assume("'never answered' for NTPv5 covers requests of another draft / without draft identification (this implementation speaks exactly one draft)");
    ctx.assume("the 'ignore'/'deny' reading of the list actions also applies to require-nts (ignore: nothing, deny: at most DENY)");
    ctx.assume(
        "rate limiting is off in this check (cache size 0); its interaction with the lists is C20",
    );
    ctx.assume("a request that carries an NTS authenticator that does not verify may be answered with nothing or an NTS NAK (never time) when the client passes the lists");
    if !self_check(&ctx, &keys, &alpha) {
        ctx.exhaustive(false);
        ctx.finish();
        return;
    }
    ctx.set("factor.addresses", addrs.len() as u64);
    ctx.set("factor.policies", pols.len() as u64);
    ctx.set("factor.datagrams", alpha.len() as u64);
    ctx.set("factor.lists", lists(thorough).len() as u64);
    let na = addrs.len() as u64;
    let nd = alpha.len() as u64;
    common::par_for(pols.len() as u64, 8, |pi| {
        let p = &pols[pi as usize];
        let (mut server, _clock) = p.server(&keys);
        let mut buf = vec![0u8; 1024];
        let mut tally: BTreeMap<String, u64> = BTreeMap::new();
        let mut hashes = Vec::new();
        for (ai, addr) in addrs.iter().enumerate() {
            for (di, d) in alpha.iter().enumerate() {
                let out = run_handle(&mut server, *addr, &d.bytes, &mut buf);
                let seen = judge(&ctx, p, *addr, d, &out, &mut tally);
                if d.form == Form::Well && d.mode == 3 {
                    hashes.push(common::hash_of(&(pi, ai, di)));
                }
                if pi % 997 == 5 && ai == 3 && di % 17 == 2 {
                    ctx.sample(format!(
                        "{};addr={};dg={} -> {}",
                        p.trace(),
                        addr,
                        d.name,
                        seen.ans.tag()
                    ));
                }
            }
        }
        ctx.distinct_many(hashes);
        ctx.add("evaluations", na * nd);
        ctx.add("transitions", na * nd);
        ctx.add("states", 1);
        for (k, n) in tally {
            ctx.add(&k, n);
        }
    });
    sweep_boundary(&ctx, &keys, &alpha, thorough);
    ctx.exhaustive(true);
    ctx.finish();
}
