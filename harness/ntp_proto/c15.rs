//! C15: not implemented yet.
