//! C05 — offset and delay follow the NTP on-wire formulas.
//!
//! Engine E-IN against a 128-bit integer reference.
//!
//! (w) every quadruple (T1,T2,T3,T4) in B^4 over a boundary-value set B of 64-bit NTP
//!     timestamps (era edges, sign edges, +-1 unit, realistic 1970 / 2026 values, odd and
//!     even differences), fed as the outgoing (T1,T2) and incoming (T3,T4) `Measurement`
//!     to the real `TwoWaySourceControllerWrapper`, obtained through the public
//!     `TimeSyncControllerWrapper::<Stub>::new(..).add_source(..)` around a recording
//!     `InternalSourceController`;
//! (o) every pair (remote, local) in B^2 through the real `OneWaySourceControllerWrapper`;
//! (p) every quadruple over a sub-alphabet through a real `NtpSource` round trip:
//!     `handle_timer` -> the emitted request is answered with a hand-built 48-byte server
//!     datagram carrying T2/T3 -> `handle_incoming(.., T1, T4)`, which covers
//!     `measurements_from_packet`.
//!
//! Oracle (statement, i128): a = wrap64(T2-T1), b = wrap64(T3-T4) as signed 64-bit values
//! (the representable reading of the true differences across an era boundary);
//! offset must be (a+b)/2 up to the rounding of the halving (|2*offset - (a+b)| <= 1) —
//! the mean of two i64 always fits, so this is demanded for *every* quadruple;
//! c = wrap64(T4-T1), d = wrap64(T3-T2); delay must be c-d when that fits in i64,
//! otherwise only saturation in the right direction is demanded. localtime = T4.
//! One way: offset = wrap64(remote - local), localtime = local.
use std::sync::{Arc, Mutex, RwLock};

use super::common::{self, Ctx};
use crate::{
    ClockId,
    algorithm::{
        InternalMeasurement, InternalSourceController, InternalStateUpdate,
        InternalTimeSyncController, Measurement, ObservableSourceTimedata, SourceController,
        TimeSyncController, TimeSyncControllerWrapper,
    },
    clock::NtpClock,
    config::{SourceConfig, SynchronizationConfig},
    packet::NtpLeapIndicator,
    source::{NtpSource, NtpSourceAction, ProtocolVersion},
    time_types::{NtpDuration, NtpTimestamp, PollInterval},
};

// ---------------------------------------------------------------------------------
// recording stub controller
// ---------------------------------------------------------------------------------

#[derive(Clone, Copy, Debug, PartialEq)]
struct Rec {
    delay: Option<i64>,
    offset: i64,
    localtime: u64,
    root_delay: i64,
    root_dispersion: i64,
    leap: NtpLeapIndicator,
    precision: i8,
}

type Log = Arc<Mutex<Vec<Rec>>>;

fn raw(d: NtpDuration) -> i64 {
    i64::from_be_bytes((NtpTimestamp::default() + d).to_bits())
}
fn raw_ts(t: NtpTimestamp) -> u64 {
    u64::from_be_bytes(t.to_bits())
}
fn ts(x: u64) -> NtpTimestamp {
    NtpTimestamp::from_fixed_int(x)
}

#[derive(Clone)]
struct LogClock {
    log: Log,
}

impl NtpClock for LogClock {
    type Error = std::io::Error;
    fn now(&self) -> Result<NtpTimestamp, Self::Error> {
        Ok(NtpTimestamp::default())
    }
    fn set_frequency(&self, _f: f64) -> Result<NtpTimestamp, Self::Error> {
        Ok(NtpTimestamp::default())
    }
    fn get_frequency(&self) -> Result<f64, Self::Error> {
        Ok(0.0)
    }
    fn step_clock(&self, _o: NtpDuration) -> Result<NtpTimestamp, Self::Error> {
        Ok(NtpTimestamp::default())
    }
    fn disable_ntp_algorithm(&self) -> Result<(), Self::Error> {
        Ok(())
    }
    fn error_estimate_update(&self, _e: NtpDuration, _m: NtpDuration) -> Result<(), Self::Error> {
        Ok(())
    }
    fn status_update(&self, _l: NtpLeapIndicator) -> Result<(), Self::Error> {
        Ok(())
    }
}

struct RecTwoWay {
    log: Log,
}
struct RecOneWay {
    log: Log,
}

impl InternalSourceController for RecTwoWay {
    type ControllerMessage = ();
    type SourceMessage = ();
    type MeasurementDelay = NtpDuration;
    fn handle_message(&mut self, _m: ()) {}
    fn handle_measurement(&mut self, m: InternalMeasurement<NtpDuration>) -> Option<()> {
        self.log.lock().unwrap().push(Rec {
            delay: Some(raw(m.delay)),
            offset: raw(m.offset),
            localtime: raw_ts(m.localtime),
            root_delay: raw(m.root_delay),
            root_dispersion: raw(m.root_dispersion),
            leap: m.leap,
            precision: m.precision,
        });
        None
    }
    fn desired_poll_interval(&self) -> PollInterval {
        PollInterval::default()
    }
    fn observe(&self) -> ObservableSourceTimedata {
        ObservableSourceTimedata::default()
    }
}

impl InternalSourceController for RecOneWay {
    type ControllerMessage = ();
    type SourceMessage = ();
    type MeasurementDelay = ();
    fn handle_message(&mut self, _m: ()) {}
    fn handle_measurement(&mut self, m: InternalMeasurement<()>) -> Option<()> {
        self.log.lock().unwrap().push(Rec {
            delay: None,
            offset: raw(m.offset),
            localtime: raw_ts(m.localtime),
            root_delay: raw(m.root_delay),
            root_dispersion: raw(m.root_dispersion),
            leap: m.leap,
            precision: m.precision,
        });
        None
    }
    fn desired_poll_interval(&self) -> PollInterval {
        PollInterval::default()
    }
    fn observe(&self) -> ObservableSourceTimedata {
        ObservableSourceTimedata::default()
    }
}

struct Stub {
    log: Log,
}

impl InternalTimeSyncController for Stub {
    type Clock = LogClock;
    type AlgorithmConfig = ();
    type ControllerMessage = ();
    type SourceMessage = ();
    type NtpSourceController = RecTwoWay;
    type OneWaySourceController = RecOneWay;

    fn new(clock: LogClock, _s: SynchronizationConfig, _a: ()) -> Result<Self, std::io::Error> {
        Ok(Stub {
            log: clock.log.clone(),
        })
    }
    fn take_control(&mut self) -> Result<(), std::io::Error> {
        Ok(())
    }
    fn add_source(&mut self, _id: ClockId, _c: SourceConfig) -> RecTwoWay {
        RecTwoWay {
            log: self.log.clone(),
        }
    }
    fn add_one_way_source(
        &mut self,
        _id: ClockId,
        _c: SourceConfig,
        _n: f64,
        _a: f64,
        _p: Option<f64>,
    ) -> RecOneWay {
        RecOneWay {
            log: self.log.clone(),
        }
    }
    fn remove_source(&mut self, _id: ClockId) {}
    fn source_update(&mut self, _id: ClockId, _usable: bool) {}
    fn source_message(&mut self, _id: ClockId, _m: ()) -> InternalStateUpdate<()> {
        InternalStateUpdate::default()
    }
    fn time_update(&mut self) -> InternalStateUpdate<()> {
        InternalStateUpdate::default()
    }
}

type Wrapper = TimeSyncControllerWrapper<Stub>;
type TwoWay = <Wrapper as TimeSyncController>::NtpSourceController;
type OneWay = <Wrapper as TimeSyncController>::OneWaySourceController;

const SRC: ClockId = ClockId(7);

struct Rig {
    log: Log,
    _wrapper: Wrapper,
    two: TwoWay,
    one: OneWay,
}

fn rig() -> Rig {
    let log: Log = Arc::new(Mutex::new(Vec::new()));
    let wrapper = Wrapper::new(
        LogClock { log: log.clone() },
        SynchronizationConfig::default(),
        (),
    )
    .expect("wrapper");
    let two = wrapper.add_source(SRC, SourceConfig::default());
    let one = wrapper.add_one_way_source(ClockId(8), SourceConfig::default(), 0.0, 0.0, None);
    Rig {
        log,
        _wrapper: wrapper,
        two,
        one,
    }
}

fn meas(sender: ClockId, receiver: ClockId, s: u64, r: u64) -> Measurement {
    Measurement {
        sender_id: sender,
        receiver_id: receiver,
        sender_ts: ts(s),
        receiver_ts: ts(r),
        root_delay: NtpDuration::from_fixed_int(0x1234),
        root_dispersion: NtpDuration::from_fixed_int(0x5678),
        leap: NtpLeapIndicator::NoWarning,
        precision: -20,
    }
}

// ---------------------------------------------------------------------------------
// reference
// ---------------------------------------------------------------------------------

fn wrap(x: u64, y: u64) -> i128 {
    (x.wrapping_sub(y) as i64) as i128
}

struct Want {
    sum: i128,   // a + b
    delay: i128, // c - d
}

fn want(t: [u64; 4]) -> Want {
    let a = wrap(t[1], t[0]);
    let b = wrap(t[2], t[3]);
    let c = wrap(t[3], t[0]);
    let d = wrap(t[2], t[1]);
    Want {
        sum: a + b,
        delay: c - d,
    }
}

fn fits(x: i128) -> bool {
    x >= i64::MIN as i128 && x <= i64::MAX as i128
}

fn judge_two_way(t: [u64; 4], got: &[Rec]) -> Vec<(&'static str, String)> {
    let mut out = Vec::new();
    let w = want(t);
    if got.len() != 1 {
        out.push((
            "C05:exchange-not-delivered",
            format!("{} measurements delivered for one exchange", got.len()),
        ));
        return out;
    }
    let r = got[0];
    let g2 = 2 * r.offset as i128;
    if (g2 - w.sum).abs() > 1 {
        let class = if fits(w.sum) {
            "C05:offset-formula"
        } else {
            "C05:offset-sum-saturates"
        };
        out.push((
            class,
            format!(
                "offset {} (~{:.3} s) but ((T2-T1)+(T3-T4))/2 = {}/2 = {} (~{:.3} s) [units of 2^-32 s; the half sum always fits i64, the sum {}]",
                r.offset,
                r.offset as f64 / 4294967296.0,
                w.sum,
                w.sum / 2,
                (w.sum / 2) as f64 / 4294967296.0,
                if fits(w.sum) { "fits too" } else { "does not and is saturated first" }
            ),
        ));
    }
    match r.delay {
        None => out.push(("C05:delay-formula", "no delay delivered".to_string())),
        Some(d) => {
            if fits(w.delay) {
                if d as i128 != w.delay {
                    out.push((
                        "C05:delay-formula",
                        format!("delay {d} but (T4-T1)-(T3-T2) = {}", w.delay),
                    ));
                }
            } else if (w.delay > 0 && d != i64::MAX) || (w.delay < 0 && d != i64::MIN) {
                out.push(("C05:delay-saturation", format!("delay {d} but (T4-T1)-(T3-T2) = {} does not fit and must saturate towards its sign", w.delay)));
            }
        }
    }
    if r.localtime != t[3] {
        out.push((
            "C05:localtime",
            format!("localtime {:#x}, expected T4 {:#x}", r.localtime, t[3]),
        ));
    }
    out
}

fn judge_one_way(remote: u64, local: u64, got: &[Rec]) -> Vec<(&'static str, String)> {
    let mut out = Vec::new();
    if got.len() != 1 {
        out.push((
            "C05:exchange-not-delivered",
            format!("{} measurements delivered for one sample", got.len()),
        ));
        return out;
    }
    let r = got[0];
    if r.offset as i128 != wrap(remote, local) {
        out.push((
            "C05:one-way-offset",
            format!(
                "offset {} but remote-local = {}",
                r.offset,
                wrap(remote, local)
            ),
        ));
    }
    if r.localtime != local {
        out.push((
            "C05:localtime",
            format!(
                "localtime {:#x}, expected local receive time {:#x}",
                r.localtime, local
            ),
        ));
    }
    out
}

// ---------------------------------------------------------------------------------
// alphabets
// ---------------------------------------------------------------------------------

const EPOCH_1970: u64 = 2_208_988_800u64 << 32;
const NOW_2026: u64 = (3_999_000_000u64 << 32) | 0x8000_0001;

fn alphabet(quick: bool) -> Vec<u64> {
    let mut b = vec![
        0,
        1,
        2,
        1 << 32,
        1 << 62,
        (1 << 63) - 1,
        1 << 63,
        (1 << 63) + 1,
        u64::MAX - 1,
        u64::MAX,
        u64::MAX - (1 << 32) + 1, // one second before the era boundary
        EPOCH_1970,
        NOW_2026,
        NOW_2026 + 4_294_967,     // + 1 ms
        NOW_2026 + (3 << 32) + 5, // + 3 s, odd distance
        0x5555_5555_5555_5555,
    ];
    b.extend_from_slice(&[
        3,
        (1 << 32) - 1,
        (1 << 32) + 1,
        (1 << 63) - (1 << 32),
        (1 << 63) + (1 << 32),
        0xAAAA_AAAA_AAAA_AAAA,
        NOW_2026 - 1,
        (1 << 62) + 1,
    ]);
    if !quick {
        b.extend_from_slice(&[
            4,
            5,
            1 << 31,
            (1 << 32) | 1,
            1 << 61,
            3 << 62,
            (1 << 63) - 2,
            (1 << 63) + 2,
            u64::MAX - (1 << 32), // one second and one unit before the era boundary
            EPOCH_1970 + 1,
            NOW_2026 + (1 << 32),
            NOW_2026 - (1 << 32),
            NOW_2026 - (1_262_304_000u64 << 32), // 40 years earlier
            NOW_2026 - (946_728_000u64 << 32),   // 30 years earlier
            0x3333_3333_3333_3333,
            0xCCCC_CCCC_CCCC_CCCC,
        ]);
    }
    b
}

/// sub-alphabet for the real-source round trip
fn packet_alphabet(quick: bool) -> Vec<u64> {
    let mut b = vec![
        0,
        1,
        (1 << 63) - 1,
        1 << 63,
        u64::MAX,
        EPOCH_1970,
        NOW_2026,
        NOW_2026 + (3 << 32) + 5,
    ];
    b.extend_from_slice(&[2, 1 << 32, u64::MAX - (1 << 32) + 1, NOW_2026 + 4_294_967]);
    if !quick {
        b.extend_from_slice(&[(1 << 63) + 1, 1 << 62, NOW_2026 - 1, 0x5555_5555_5555_5555]);
    }
    b
}

fn quad_trace(kind: &str, t: [u64; 4]) -> String {
    format!(
        "{kind};{:016x},{:016x},{:016x},{:016x}",
        t[0], t[1], t[2], t[3]
    )
}

// ---------------------------------------------------------------------------------
// drivers
// ---------------------------------------------------------------------------------

fn two_way_once(r: &mut Rig, t: [u64; 4]) -> Vec<Rec> {
    r.log.lock().unwrap().clear();
    r.two
        .handle_measurement(meas(ClockId::SYSTEM, SRC, t[0], t[1]));
    r.two
        .handle_measurement(meas(SRC, ClockId::SYSTEM, t[2], t[3]));
    std::mem::take(&mut *r.log.lock().unwrap())
}

fn one_way_once(r: &mut Rig, remote: u64, local: u64) -> Vec<Rec> {
    r.log.lock().unwrap().clear();
    r.one
        .handle_measurement(meas(ClockId(8), ClockId::SYSTEM, remote, local));
    std::mem::take(&mut *r.log.lock().unwrap())
}

#[derive(Default)]
struct Stats {
    cases: u64,
    even: u64,
    odd_toward_zero: u64,
    odd_floor_negative: u64,
    sum_overflow: u64,
    delay_fits: u64,
    delay_sat_pos: u64,
    delay_sat_neg: u64,
    era_crossing: u64,
    negative_delay: u64,
}

impl Stats {
    fn note(&mut self, t: [u64; 4], got: &[Rec]) {
        self.cases += 1;
        let w = want(t);
        if !fits(w.sum) {
            self.sum_overflow += 1;
        } else if w.sum % 2 == 0 {
            self.even += 1;
        } else if let Some(r) = got.first() {
            // which way does the implementation round an odd sum?
            if w.sum > 0 || 2 * r.offset as i128 > w.sum {
                self.odd_toward_zero += 1;
            } else {
                self.odd_floor_negative += 1;
            }
        }
        if fits(w.delay) {
            self.delay_fits += 1;
            if w.delay < 0 {
                self.negative_delay += 1;
            }
        } else if w.delay > 0 {
            self.delay_sat_pos += 1;
        } else {
            self.delay_sat_neg += 1;
        }
        // the pair (T1,T2) or (T3,T4) straddles the era boundary: numerically "before" but later
        if (t[1] < t[0] && wrap(t[1], t[0]) > 0) || (t[3] < t[2] && wrap(t[3], t[2]) > 0) {
            self.era_crossing += 1;
        }
    }
    fn flush(&self, ctx: &Ctx, p: &str) {
        ctx.add("evaluations", self.cases);
        ctx.add(&format!("{p}_quadruples"), self.cases);
        ctx.add(&format!("{p}_offset_sum_even_exact"), self.even);
        ctx.add(
            &format!("{p}_offset_sum_odd_rounded_toward_zero"),
            self.odd_toward_zero,
        );
        ctx.add(
            &format!("{p}_offset_sum_odd_rounded_down"),
            self.odd_floor_negative,
        );
        ctx.add(&format!("{p}_offset_sum_exceeds_i64"), self.sum_overflow);
        ctx.add(&format!("{p}_delay_fits"), self.delay_fits);
        ctx.add(&format!("{p}_delay_negative"), self.negative_delay);
        ctx.add(&format!("{p}_delay_saturates_positive"), self.delay_sat_pos);
        ctx.add(&format!("{p}_delay_saturates_negative"), self.delay_sat_neg);
        ctx.add(
            &format!("{p}_pair_straddles_era_boundary"),
            self.era_crossing,
        );
    }
}

/// Named, realistic exchanges run first (so that a reported trace is a meaningful one).
/// They are a subset of / additions to the product below, not a replacement.
fn named_quadruples() -> Vec<(&'static str, [u64; 4])> {
    let ms = 4_294_967u64;
    vec![
        (
            "in sync, 20 ms round trip",
            [
                NOW_2026,
                NOW_2026 + 10 * ms,
                NOW_2026 + 11 * ms,
                NOW_2026 + 20 * ms,
            ],
        ),
        (
            "client clock at the Unix epoch (no RTC), server in 2026",
            [EPOCH_1970, NOW_2026, NOW_2026 + ms, EPOCH_1970 + 20 * ms],
        ),
        (
            "client in 2026, server at the Unix epoch",
            [NOW_2026, EPOCH_1970, EPOCH_1970 + ms, NOW_2026 + 20 * ms],
        ),
        (
            "client 40 years behind",
            [
                NOW_2026 - (1_262_304_000u64 << 32),
                NOW_2026,
                NOW_2026 + ms,
                NOW_2026 - (1_262_304_000u64 << 32) + 20 * ms,
            ],
        ),
        (
            "client 30 years behind",
            [
                NOW_2026 - (946_728_000u64 << 32),
                NOW_2026,
                NOW_2026 + ms,
                NOW_2026 - (946_728_000u64 << 32) + 20 * ms,
            ],
        ),
        (
            "exchange across the 2036 era boundary",
            [u64::MAX - 5 * ms, u64::MAX - ms, 3 * ms, 9 * ms],
        ),
        (
            "client just before, server just after the era boundary",
            [u64::MAX - 5 * ms, 5 * ms, 6 * ms, u64::MAX - ms],
        ),
    ]
}

fn run_named(ctx: &Ctx) {
    let mut r = rig();
    let mut st = Stats::default();
    for (name, t) in named_quadruples() {
        match common::catch(|| two_way_once(&mut r, t)) {
            Err(e) => {
                ctx.violation(
                    "C05:panic",
                    format!("wrapper panicked: {e}"),
                    quad_trace("w", t),
                );
                r = rig();
            }
            Ok(got) => {
                st.note(t, &got);
                for (class, what) in judge_two_way(t, &got) {
                    ctx.violation(class, format!("{name}: {what}"), quad_trace("w", t));
                }
                ctx.distinct(common::hash_of(&("w", t)));
                ctx.sample(format!(
                    "{name}: {} -> offset {:?} delay {:?}",
                    quad_trace("w", t),
                    got.first().map(|r| r.offset),
                    got.first().and_then(|r| r.delay)
                ));
            }
        }
    }
    ctx.add("impl_calls", 2 * st.cases);
    st.flush(ctx, "named");
}

fn run_two_way(ctx: &Ctx, b: &[u64]) {
    let k = b.len();
    let total = common::pow(k, 4);
    const CH: u64 = 4096;
    common::par_for(total.div_ceil(CH), 1, |c| {
        let mut r = rig();
        let mut st = Stats::default();
        let mut distinct = Vec::new();
        for x in c * CH..((c + 1) * CH).min(total) {
            let w = common::word_of(x, k, 4);
            let t = [b[w[0]], b[w[1]], b[w[2]], b[w[3]]];
            match common::catch(|| two_way_once(&mut r, t)) {
                Err(e) => {
                    ctx.violation(
                        "C05:panic",
                        format!("wrapper panicked: {e}"),
                        quad_trace("w", t),
                    );
                    r = rig();
                }
                Ok(got) => {
                    st.note(t, &got);
                    for (class, what) in judge_two_way(t, &got) {
                        ctx.violation(class, what, quad_trace("w", t));
                    }
                    if !(t[0] == t[1] && t[1] == t[2] && t[2] == t[3]) {
                        distinct.push(common::hash_of(&("w", t)));
                    }
                    if x % 60_013 == 1 {
                        ctx.sample(format!(
                            "two-way {} -> {:?}",
                            quad_trace("w", t),
                            got.first().map(|r| (r.offset, r.delay))
                        ));
                    }
                }
            }
        }
        ctx.add("impl_calls", 2 * st.cases);
        st.flush(ctx, "wrapper");
        ctx.distinct_many(distinct);
    });
}

fn run_one_way(ctx: &Ctx, b: &[u64]) {
    let mut r = rig();
    let mut n = 0u64;
    let mut negative = 0u64;
    for &remote in b {
        for &local in b {
            match common::catch(|| one_way_once(&mut r, remote, local)) {
                Err(e) => {
                    ctx.violation(
                        "C05:panic",
                        format!("one-way wrapper panicked: {e}"),
                        format!("o;{remote:016x},{local:016x}"),
                    );
                    r = rig();
                }
                Ok(got) => {
                    n += 1;
                    if wrap(remote, local) < 0 {
                        negative += 1;
                    }
                    for (class, what) in judge_one_way(remote, local, &got) {
                        ctx.violation(class, what, format!("o;{remote:016x},{local:016x}"));
                    }
                    if remote != local {
                        ctx.distinct(common::hash_of(&("o", remote, local)));
                    }
                }
            }
        }
    }
    ctx.add("evaluations", n);
    ctx.add("impl_calls", n);
    ctx.add("oneway_pairs", n);
    ctx.add("oneway_negative_offsets", negative);
}

/// A real `NtpSource` (plain NTPv4) on top of the real two-way wrapper.
struct PacketRig {
    log: Log,
    _wrapper: Wrapper,
    source: NtpSource<TwoWay>,
}

fn packet_rig() -> PacketRig {
    let log: Log = Arc::new(Mutex::new(Vec::new()));
    let wrapper = Wrapper::new(
        LogClock { log: log.clone() },
        SynchronizationConfig::default(),
        (),
    )
    .expect("wrapper");
    let two = wrapper.add_source(SRC, SourceConfig::default());
    let (source, _actions) = NtpSource::new(
        "192.0.2.7:123".parse().unwrap(),
        SourceConfig::default(),
        ProtocolVersion::V4,
        two,
        None,
        SRC,
        Arc::new(RwLock::new(Default::default())),
        Arc::new(Mutex::new(Default::default())),
    );
    PacketRig {
        log,
        _wrapper: wrapper,
        source,
    }
}

const ROOT_DELAY_SHORT: [u8; 4] = [0, 1, 0x80, 0];
const ROOT_DISP_SHORT: [u8; 4] = [0, 0, 0x40, 0];

fn packet_once(r: &mut PacketRig, t: [u64; 4]) -> Result<Vec<Rec>, String> {
    r.log.lock().unwrap().clear();
    let mut request = None;
    for a in r.source.handle_timer() {
        match a {
            NtpSourceAction::Send(buf) => request = Some(buf),
            NtpSourceAction::SetTimer(_) => {}
            other => return Err(format!("harness: unexpected action {other:?}")),
        }
    }
    let request = request.ok_or("harness: no poll sent")?;
    if request.len() < 48 {
        return Err("harness: short request".into());
    }
    // server answer, byte level: LI=0 VN=4 mode=4, stratum 2, echo poll, precision -20
    let mut resp = [0u8; 48];
    resp[0] = (4 << 3) | 4;
    resp[1] = 2;
    resp[2] = request[2];
    resp[3] = (-20i8) as u8;
    resp[4..8].copy_from_slice(&ROOT_DELAY_SHORT);
    resp[8..12].copy_from_slice(&ROOT_DISP_SHORT);
    resp[12..16].copy_from_slice(&[10, 0, 0, 1]);
    resp[16..24].copy_from_slice(&NOW_2026.to_be_bytes());
    resp[24..32].copy_from_slice(&request[40..48]); // origin = request transmit timestamp
    resp[32..40].copy_from_slice(&t[1].to_be_bytes()); // receive timestamp T2
    resp[40..48].copy_from_slice(&t[2].to_be_bytes()); // transmit timestamp T3
    for a in r.source.handle_incoming(&resp, ts(t[0]), ts(t[3])) {
        return Err(format!("harness: unexpected action on answer {a:?}"));
    }
    Ok(std::mem::take(&mut *r.log.lock().unwrap()))
}

fn judge_packet(t: [u64; 4], got: &[Rec]) -> Vec<(&'static str, String)> {
    let mut out = judge_two_way(t, got);
    if let Some(r) = got.first() {
        let rd = (u32::from_be_bytes(ROOT_DELAY_SHORT) as i64) << 16;
        let rp = (u32::from_be_bytes(ROOT_DISP_SHORT) as i64) << 16;
        if r.root_delay != rd
            || r.root_dispersion != rp
            || r.leap != NtpLeapIndicator::NoWarning
            || r.precision != -20
        {
            out.push((
                "C05:packet-fields",
                format!("root delay/dispersion/leap/precision not taken from the answer: {r:?}"),
            ));
        }
    }
    out
}

fn run_packet(ctx: &Ctx, b: &[u64]) {
    let k = b.len();
    let total = common::pow(k, 4);
    const CH: u64 = 512;
    common::par_for(total.div_ceil(CH), 1, |c| {
        super::block_on_paused(async {
            let mut r = packet_rig();
            let mut st = Stats::default();
            let mut distinct = Vec::new();
            for x in c * CH..((c + 1) * CH).min(total) {
                let w = common::word_of(x, k, 4);
                let t = [b[w[0]], b[w[1]], b[w[2]], b[w[3]]];
                match common::catch(|| packet_once(&mut r, t)) {
                    Err(e) => {
                        ctx.violation(
                            "C05:panic",
                            format!("source panicked: {e}"),
                            quad_trace("p", t),
                        );
                        r = packet_rig();
                    }
                    Ok(Err(e)) => {
                        // machinery problem, never a verdict
                        panic!("{e} at {}", quad_trace("p", t));
                    }
                    Ok(Ok(got)) => {
                        st.note(t, &got);
                        for (class, what) in judge_packet(t, &got) {
                            ctx.violation(class, what, quad_trace("p", t));
                        }
                        if !(t[0] == t[1] && t[1] == t[2] && t[2] == t[3]) {
                            distinct.push(common::hash_of(&("p", t)));
                        }
                        if x % 1_009 == 3 {
                            ctx.sample(format!(
                                "source round trip {} -> {:?}",
                                quad_trace("p", t),
                                got.first().map(|r| (r.offset, r.delay))
                            ));
                        }
                    }
                }
            }
            ctx.add("impl_calls", 2 * st.cases);
            st.flush(ctx, "source");
            ctx.distinct_many(distinct);
        });
    });
}

// ---------------------------------------------------------------------------------

fn replay(ctx: &Ctx, trace: &str) -> String {
    let (kind, rest) = trace.split_once(';').unwrap_or(("", ""));
    let vals: Vec<u64> = rest
        .split(',')
        .filter_map(|s| u64::from_str_radix(s.trim(), 16).ok())
        .collect();
    match (kind, vals.len()) {
        ("w", 4) => {
            let t = [vals[0], vals[1], vals[2], vals[3]];
            let mut r = rig();
            match common::catch(|| two_way_once(&mut r, t)) {
                Err(e) => {
                    ctx.violation("C05:panic", e.clone(), trace);
                    format!("panic {e}")
                }
                Ok(got) => {
                    let v = judge_two_way(t, &got);
                    for (c, w) in &v {
                        ctx.violation(c, w.clone(), trace);
                    }
                    format!(
                        "{got:?} violations={:?}",
                        v.iter().map(|x| x.0).collect::<Vec<_>>()
                    )
                }
            }
        }
        ("p", 4) => {
            let t = [vals[0], vals[1], vals[2], vals[3]];
            super::block_on_paused(async {
                let mut r = packet_rig();
                match common::catch(|| packet_once(&mut r, t)) {
                    Err(e) => {
                        ctx.violation("C05:panic", e.clone(), trace);
                        format!("panic {e}")
                    }
                    Ok(Err(e)) => e,
                    Ok(Ok(got)) => {
                        let v = judge_packet(t, &got);
                        for (c, w) in &v {
                            ctx.violation(c, w.clone(), trace);
                        }
                        format!(
                            "{got:?} violations={:?}",
                            v.iter().map(|x| x.0).collect::<Vec<_>>()
                        )
                    }
                }
            })
        }
        ("o", 2) => {
            let mut r = rig();
            match common::catch(|| one_way_once(&mut r, vals[0], vals[1])) {
                Err(e) => {
                    ctx.violation("C05:panic", e.clone(), trace);
                    format!("panic {e}")
                }
                Ok(got) => {
                    let v = judge_one_way(vals[0], vals[1], &got);
                    for (c, w) in &v {
                        ctx.violation(c, w.clone(), trace);
                    }
                    format!(
                        "{got:?} violations={:?}",
                        v.iter().map(|x| x.0).collect::<Vec<_>>()
                    )
                }
            }
        }
        _ => "bad trace".to_string(),
    }
}

#[test]
fn check() {
    let ctx = Ctx::new("C05");
    if let Some(t) = common::replay_trace() {
        let a = replay(&ctx, &t);
        let b = replay(&ctx, &t);
        common::report_replay("C05", &a, &b, ctx.violation_count() > 0);
        return;
    }
    let b = alphabet(ctx.quick());
    let pb = packet_alphabet(ctx.quick());
    ctx.rule(&format!(
        "(n) 7 named realistic exchanges; (w) every (T1,T2,T3,T4) in B^4, |B|={} boundary timestamps (0,1,2,1s,2^62,2^63-1,2^63,2^63+1,2^64-2,2^64-1,era end-1s,1970,2026,+1ms,+3s odd,0x5555..; \
         +8 more; thorough adds 16 more) through the real TwoWaySourceControllerWrapper; (o) every (remote,local) in B^2 through the real OneWaySourceControllerWrapper; \
         (p) every quadruple over a {}-value sub-alphabet through a real NtpSource (handle_timer -> hand-built v4 answer -> handle_incoming). \
         Non-trivial & distinct = quadruple / pair whose timestamps are not all equal.",
        b.len(),
        pb.len()
    ));
    ctx.assume("T1..T4 are taken modulo 2^64 and a difference is read as the signed 64-bit value of the wrapped subtraction (the representable interpretation across an era boundary)");
    ctx.assume("the halving may round an odd sum either way (|2*offset - sum| <= 1)");
    ctx.note(
        "alphabet",
        &b.iter()
            .map(|x| format!("{x:#x}"))
            .collect::<Vec<_>>()
            .join(" "),
    );
    run_named(&ctx);
    run_two_way(&ctx, &b);
    run_one_way(&ctx, &b);
    run_packet(&ctx, &pb);
    ctx.exhaustive(true);
    ctx.finish();
}
