//! C05: not implemented yet.
