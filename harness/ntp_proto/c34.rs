//! C34 — NTPv5 Bloom filters are transferred faithfully.
//!
//! Engine E-SEQ (explicit-state BFS over the real `RemoteBloomFilter`) + E-IN.
//!
//!  1. `RemoteBloomFilter::new` over all 65 536 chunk sizes (valid = the 8 multiples of 4
//!     that divide 512).
//!  2. BFS to fixpoint, per valid chunk size and per server filter (a synthetic filter whose
//!     4-byte words are pairwise distinct and non-zero, and real filters built from 1..3
//!     `ServerId`s): events `Request(new cookie)` and `Deliver(target, shape)` with target in
//!     {outstanding request, most recent stale request, very first request, never-issued
//!     cookie} and payload length in {exact, every length requested-8 ..= requested+8 (all
//!     residues modulo 4), empty, one byte, half, double}, the response value built with the
//!     wire decoder `ReferenceIdResponse::decode` (the constructor refuses unaligned lengths): every
//!     order, with duplicates and stale / mismatched answers, until the filter is complete
//!     and through the following rounds (the state graph is finite because cookies are
//!     canonicalised by role). After every transition the probe view of the real object is
//!     compared with the model.
//!  3. Membership: 4096 window ids (no false negatives, exactly 10 bits), every subset of
//!     size 1..3 of a pool of 12 structured ids (added => contained; not added => contained
//!     iff its indices are covered by the union), `add` / `union`.
//!  4. `ReferenceIdRequest::to_response` over payload length 0..=600 (+ huge) x offset
//!     0..=520 (+ huge): exact slice iff offset + length <= 512, otherwise nothing.
//!  5. End to end: a real NTPv5 `NtpSource` polled against a real `Server`; the base run of
//!     34 answered polls with every placement of <= 2 (quick) / <= 3 (thorough) deviations
//!     from {answer lost, stale answer replayed before the fresh one, fresh answer
//!     duplicated}; requests are read back from the emitted datagrams. Genuine server answers
//!     whose chunk field is re-framed by hand to carry 0, 1, 8..=24 (not 16) bytes are fed to
//!     the source at every poll position (alone and combined with the other deviations).
//!     Plus hand-framed chunk requests (offset x length) sent to the real server.
use std::collections::BTreeSet;
use std::net::{IpAddr, Ipv4Addr, Ipv6Addr, SocketAddr};
use std::sync::atomic::{AtomicU64, Ordering};
use std::sync::{Arc, RwLock};

use super::common::{self, Ctx};
use crate::algorithm::{Measurement, ObservableSourceTimedata, SourceController};
use crate::config::{SourceConfig, SynchronizationConfig};
use crate::packet::v5::extension_fields::{ReferenceIdRequest, ReferenceIdResponse};
use crate::packet::v5::server_reference_id::verif_probe::gk as pb;
use crate::packet::v5::server_reference_id::{BloomFilter, RemoteBloomFilter, ServerId};
use crate::server::{
    FilterAction, FilterList, IpSubnet, Server, ServerAction, ServerConfig, ServerReason,
    ServerResponse, ServerStatHandler,
};
use crate::source::verif_probe::gk as ps;
use crate::source::{NtpSource, NtpSourceAction, ProtocolVersion};
use crate::system::{NtpManager, NtpServerInfo, NtpSnapshot, TimeSnapshot};
use crate::time_types::{NtpDuration, NtpTimestamp, PollInterval};
use crate::{ClockId, KeySetProvider, NtpClock, NtpLeapIndicator, NtpVersion};

const VALID_SIZES: [u16; 8] = [4, 8, 16, 32, 64, 128, 256, 512];

// ---------------------------------------------------------------------------------
// server filters
// ---------------------------------------------------------------------------------

/// every aligned 4-byte word distinct and non-zero => every aligned chunk of any valid size
/// is distinct from every other and from the all-zero initial client content
fn synthetic_bytes() -> [u8; 512] {
    let mut b = [0u8; 512];
    for w in 0..128usize {
        b[4 * w] = w as u8 + 1;
        b[4 * w + 1] = !(w as u8);
        b[4 * w + 2] = (w as u8) ^ 0x5A;
        b[4 * w + 3] = 0x80 | w as u8;
    }
    b
}

const ID_A: [u16; 10] = [5, 100, 333, 777, 1024, 2047, 2048, 3000, 4000, 4095];
const ID_B: [u16; 10] = [6, 101, 334, 778, 1025, 2046, 2049, 3001, 4001, 4094];
const ID_C: [u16; 10] = [0, 1, 2, 3, 4, 7, 8, 9, 10, 11];

/// (name, filter, ids that were added)
fn server_filters() -> Vec<(&'static str, BloomFilter, Vec<[u16; 10]>)> {
    let mut v = vec![(
        "synthetic",
        pb::filter_from_bytes(synthetic_bytes()),
        vec![],
    )];
    for (name, ids) in [
        ("id1", vec![ID_A]),
        ("id2", vec![ID_A, ID_B]),
        ("id3", vec![ID_A, ID_B, ID_C]),
    ] {
        let mut f = BloomFilter::new();
        for i in &ids {
            f.add_id(&pb::server_id(*i));
        }
        v.push((name, f, ids));
    }
    v
}

// ---------------------------------------------------------------------------------
// 1. constructor
// ---------------------------------------------------------------------------------

fn part_new(ctx: &Ctx) {
    let mut valid = 0u64;
    for cs in 0..=u16::MAX {
        ctx.inc("evaluations");
        let want = cs >= 4 && cs <= 512 && cs % 4 == 0 && 512 % cs == 0;
        match common::catch(|| RemoteBloomFilter::new(cs).is_some()) {
            Ok(g) if g == want => valid += g as u64,
            Ok(g) => ctx.violation(
                "C34:chunk-size-validation",
                format!("RemoteBloomFilter::new({cs}) accepted={g}, expected {want}"),
                format!("N;{cs}"),
            ),
            Err(e) => ctx.violation(
                "C34:panic",
                format!("RemoteBloomFilter::new({cs}) panicked: {e}"),
                format!("N;{cs}"),
            ),
        }
    }
    ctx.set("valid_chunk_sizes", valid);
}

// ---------------------------------------------------------------------------------
// 2. explicit-state search
// ---------------------------------------------------------------------------------

#[derive(Clone, Debug, PartialEq, Eq, Hash)]
struct Req {
    offset: u16,
    cookie: u64,
}

#[derive(Clone)]
struct Model {
    next: u16,
    outstanding: Option<Req>,
    content: Vec<u8>,
    filled: bool,
    /// most recent request that is no longer outstanding (superseded or consumed)
    stale: Option<Req>,
    /// the very first request ever made
    first: Option<Req>,
    next_cookie: u64,
    accepted: u32,
}

struct S {
    real: RemoteBloomFilter,
    model: Model,
    hist: Vec<u8>,
}

const SHAPES: usize = 21; // see shape_len
const TARGETS: usize = 4; // current, stale, first, fresh

/// Payload length of an answer shape for requested chunk size `cs`:
/// 0 = exact; 1..=8 = cs-8 .. cs-1; 9..=16 = cs+1 .. cs+8 (every residue modulo 4 on both
/// sides); 17 = empty; 18 = one byte; 19 = half; 20 = double (17..20 only when they fall
/// outside the +-8 window, so no length is enumerated twice).
fn shape_len(shape: usize, cs: u16) -> Option<usize> {
    let cs = cs as isize;
    let l: isize = match shape {
        0 => cs,
        1..=8 => cs - 9 + shape as isize,
        9..=16 => cs + shape as isize - 8,
        17 => 0,
        18 => 1,
        19 => cs / 2,
        _ => cs * 2,
    };
    if l < 0 {
        return None;
    }
    if shape >= 17 && l >= cs - 8 && l <= cs + 8 {
        return None;
    }
    Some(l as usize)
}

fn shape_name(shape: usize) -> String {
    match shape {
        0 => "exact".to_string(),
        1..=8 => format!("{}", shape as isize - 9),
        9..=16 => format!("+{}", shape - 8),
        17 => "empty".to_string(),
        18 => "1byte".to_string(),
        19 => "half".to_string(),
        _ => "double".to_string(),
    }
}

fn event_name(e: u8) -> String {
    if e == 0 {
        "Req".to_string()
    } else {
        let t = ((e - 1) as usize) / SHAPES;
        let s = ((e - 1) as usize) % SHAPES;
        format!(
            "Deliver({},{})",
            ["current", "stale", "first", "fresh"][t],
            shape_name(s)
        )
    }
}

struct SearchCtx<'a> {
    ctx: &'a Ctx,
    cs: u16,
    server: &'a BloomFilter,
    fname: &'static str,
    transitions: AtomicU64,
    accepted: AtomicU64,
    rejected: AtomicU64,
    completions: AtomicU64,
}

impl SearchCtx<'_> {
    fn trace(&self, hist: &[u8]) -> String {
        format!("S;{};{};{}", self.cs, self.fname, common::hex(hist))
    }
}

/// Apply one event to (a clone of) the state; compare implementation and model. `None` =
/// event not applicable in this state or a violation was reported (not expanded further).
fn apply(sc: &SearchCtx, s: &S, e: u8, obs: Option<&mut Vec<String>>) -> Option<S> {
    let cs = sc.cs;
    let srv = sc.server.as_bytes();
    let mut real = pb::rbf_clone(&s.real);
    let mut m = s.model.clone();
    let mut hist = s.hist.clone();
    hist.push(e);
    let tr = || sc.trace(&hist);
    let mut note = String::new();
    if e == 0 {
        let cookie = m.next_cookie;
        m.next_cookie += 1;
        let r = match common::catch(|| real.next_request(pb::cookie(cookie))) {
            Ok(r) => r,
            Err(err) => {
                sc.ctx
                    .violation("C34:panic", format!("next_request panicked: {err}"), tr());
                return None;
            }
        };
        if r.offset() != m.next || r.payload_len() != cs {
            sc.ctx.violation(
                "C34:request-sequence",
                format!("chunk size {cs}: request asks for offset {} length {}, the next missing chunk is offset {} length {cs}", r.offset(), r.payload_len(), m.next),
                tr(),
            );
            return None;
        }
        if let Some(old) = m.outstanding.take() {
            m.stale = Some(old);
        }
        let rq = Req {
            offset: m.next,
            cookie,
        };
        if m.first.is_none() {
            m.first = Some(rq.clone());
        }
        m.outstanding = Some(rq);
        note = format!("req(off {} len {})", r.offset(), r.payload_len());
    } else {
        let t = ((e - 1) as usize) / SHAPES;
        let shape = ((e - 1) as usize) % SHAPES;
        let len = shape_len(shape, cs)?;
        let target: Req = match t {
            0 => m.outstanding.clone()?,
            1 => {
                let st = m.stale.clone()?;
                if Some(&st) == m.outstanding.as_ref() {
                    return None;
                }
                st
            }
            2 => {
                let f = m.first.clone()?;
                if Some(&f) == m.outstanding.as_ref() || Some(&f) == m.stale.as_ref() {
                    return None;
                }
                f
            }
            _ => Req {
                offset: 0,
                cookie: u64::MAX - 7,
            },
        };
        // an honest server's answer to `target`: the bytes at the target's offset
        let start = target.offset as usize;
        let mut bytes = vec![0xEEu8; len];
        for (i, b) in bytes.iter_mut().enumerate() {
            if start + i < 512 {
                *b = srv[start + i];
            }
        }
        let resp = ReferenceIdResponse::decode(&bytes);
        let expect_accept = t == 0 && shape == 0;
        let got = match common::catch(|| {
            real.handle_response(pb::cookie(target.cookie), &resp)
                .is_ok()
        }) {
            Ok(g) => g,
            Err(err) => {
                sc.ctx.violation(
                    "C34:panic",
                    format!("handle_response panicked: {err}"),
                    tr(),
                );
                return None;
            }
        };
        note = format!(
            "{} -> {}",
            event_name(e),
            if got { "accepted" } else { "rejected" }
        );
        let side = if got { &sc.accepted } else { &sc.rejected };
        side.fetch_add(1, Ordering::Relaxed);
        if got && !expect_accept {
            let class = if t != 0 {
                "C34:stale-answer-accepted"
            } else {
                "C34:wrong-size-accepted"
            };
            sc.ctx.violation(
                class,
                format!("chunk size {cs}: answer to the {} request with {len} bytes was accepted (outstanding: {:?})", ["current", "stale", "first", "never issued"][t], m.outstanding),
                tr(),
            );
            return None;
        }
        if !got && expect_accept {
            sc.ctx.violation("C34:valid-answer-rejected", format!("chunk size {cs}: the exact answer to the outstanding request {:?} was rejected", m.outstanding), tr());
            return None;
        }
        if expect_accept {
            let o = target.offset as usize;
            m.content[o..o + cs as usize].copy_from_slice(&srv[o..o + cs as usize]);
            m.accepted += 1;
            m.stale = m.outstanding.take();
            m.next = ((m.next as usize + cs as usize) % 512) as u16;
            if m.next == 0 {
                if !m.filled {
                    sc.completions.fetch_add(1, Ordering::Relaxed);
                }
                m.filled = true;
            }
        }
    }
    sc.transitions.fetch_add(1, Ordering::Relaxed);
    // compare the whole visible state
    let v = pb::rbf_view(&real);
    if v.filter != m.content {
        let pos = v
            .filter
            .iter()
            .zip(m.content.iter())
            .position(|(a, b)| a != b)
            .unwrap_or(0);
        sc.ctx.violation(
            "C34:chunk-written-wrongly",
            format!("chunk size {cs}: after {} the client's filter differs from what the accepted answers say (first difference at byte {pos})", event_name(e)),
            tr(),
        );
        return None;
    }
    if v.next_to_request != m.next
        || v.last_requested
            != m.outstanding
                .as_ref()
                .map(|r| (r.offset, r.cookie.to_be_bytes()))
    {
        sc.ctx.violation(
            "C34:request-sequence",
            format!(
                "chunk size {cs}: after {} cursor/outstanding = {}/{:?}, model {}/{:?}",
                event_name(e),
                v.next_to_request,
                v.last_requested,
                m.next,
                m.outstanding
            ),
            tr(),
        );
        return None;
    }
    let full = real.full_filter().map(|f| *f.as_bytes());
    match (&full, m.filled) {
        (Some(f), _) if f != srv => {
            sc.ctx.violation("C34:full-filter-wrong", format!("chunk size {cs}: full_filter() is Some but differs from the server's filter ({} chunks answered)", m.accepted), tr());
            return None;
        }
        (None, true) => {
            sc.ctx.violation(
                "C34:full-filter-missing",
                format!(
                    "chunk size {cs}: all {} chunks were answered but full_filter() is None",
                    512 / cs as usize
                ),
                tr(),
            );
            return None;
        }
        _ => {}
    }
    if let Some(o) = obs {
        o.push(format!(
            "{note} next={} filled={} full={}",
            v.next_to_request,
            v.is_filled,
            full.is_some()
        ));
    }
    Some(S {
        real,
        model: m,
        hist,
    })
}

#[derive(PartialEq, Eq, Hash)]
struct Key {
    view_next: u16,
    view_filled: bool,
    view_last: Option<(u16, u8)>,
    filter_hash: u64,
    m_next: u16,
    m_filled: bool,
    m_out: Option<u16>,
    m_stale: Option<u16>,
    m_first_live: bool,
    content_hash: u64,
}

fn key(s: &S) -> Key {
    let v = pb::rbf_view(&s.real);
    let m = &s.model;
    let role = |c: [u8; 8]| -> u8 {
        let c = u64::from_be_bytes(c);
        if m.outstanding.as_ref().map(|r| r.cookie) == Some(c) {
            1
        } else if m.stale.as_ref().map(|r| r.cookie) == Some(c) {
            2
        } else if m.first.as_ref().map(|r| r.cookie) == Some(c) {
            3
        } else {
            9
        }
    };
    let first_live = match &m.first {
        Some(f) => Some(f) != m.outstanding.as_ref() && Some(f) != m.stale.as_ref(),
        None => false,
    };
    Key {
        view_next: v.next_to_request,
        view_filled: v.is_filled,
        view_last: v.last_requested.map(|(o, c)| (o, role(c))),
        filter_hash: common::hash_of(&v.filter),
        m_next: m.next,
        m_filled: m.filled,
        m_out: m.outstanding.as_ref().map(|r| r.offset),
        m_stale: m.stale.as_ref().map(|r| r.offset),
        m_first_live: first_live,
        content_hash: common::hash_of(&m.content),
    }
}

fn initial(cs: u16) -> S {
    S {
        real: RemoteBloomFilter::new(cs).expect("valid chunk size"),
        model: Model {
            next: 0,
            outstanding: None,
            content: vec![0; 512],
            filled: false,
            stale: None,
            first: None,
            next_cookie: 1,
            accepted: 0,
        },
        hist: vec![],
    }
}

fn part_search(ctx: &Ctx) {
    let filters = server_filters();
    let sizes: Vec<u16> = VALID_SIZES.to_vec();
    let jobs: Vec<(u16, usize)> = sizes
        .iter()
        .flat_map(|cs| (0..filters.len()).map(move |f| (*cs, f)))
        .collect();
    let states = AtomicU64::new(0);
    let transitions = AtomicU64::new(0);
    let depth = AtomicU64::new(0);
    common::par_for(jobs.len() as u64, 1, |j| {
        let (cs, fi) = jobs[j as usize];
        let (fname, server, ids) = &filters[fi];
        let sc = SearchCtx {
            ctx,
            cs,
            server,
            fname,
            transitions: AtomicU64::new(0),
            accepted: AtomicU64::new(0),
            rejected: AtomicU64::new(0),
            completions: AtomicU64::new(0),
        };
        let stats = common::bfs(
            vec![initial(cs)],
            key,
            |s, _d| {
                let mut out = Vec::new();
                for e in 0..=(TARGETS * SHAPES) as u8 {
                    if let Some(n) = apply(&sc, s, e, None) {
                        // when the transfer is complete every added id must be reported
                        if n.model.filled && !s.model.filled {
                            if let Some(full) = n.real.full_filter() {
                                for id in ids {
                                    if !full.contains_id(&pb::server_id(*id)) {
                                        ctx.violation("C34:false-negative", format!("transferred filter does not contain the added id {id:?}"), sc.trace(&n.hist));
                                    }
                                }
                            }
                        }
                        out.push(n);
                    }
                }
                out
            },
            4096,
        );
        if !stats.fixpoint {
            ctx.cap_hit(&format!(
                "chunk size {cs}/{fname}: BFS stopped at depth 4096 without reaching the fixpoint"
            ));
        }
        states.fetch_add(stats.states, Ordering::Relaxed);
        transitions.fetch_add(sc.transitions.load(Ordering::Relaxed), Ordering::Relaxed);
        depth.fetch_max(stats.max_depth, Ordering::Relaxed);
        ctx.add("answers_accepted", sc.accepted.load(Ordering::Relaxed));
        ctx.add("answers_rejected", sc.rejected.load(Ordering::Relaxed));
        ctx.add(
            "transfers_completed_first_time",
            sc.completions.load(Ordering::Relaxed),
        );
        ctx.add(&format!("states_chunk_{cs}"), stats.states);
        ctx.distinct(common::hash_of(&("S", cs, fname)));
        if fi == 0 {
            ctx.sample(format!(
                "chunk size {cs}, {fname} filter: {} states, {} transitions, fixpoint at depth {}",
                stats.states,
                sc.transitions.load(Ordering::Relaxed),
                stats.max_depth
            ));
        }
    });
    ctx.add("states", states.load(Ordering::Relaxed));
    ctx.add("transitions", transitions.load(Ordering::Relaxed));
    ctx.set("bfs_transitions", transitions.load(Ordering::Relaxed));
    ctx.add("evaluations", transitions.load(Ordering::Relaxed));
    ctx.max("bfs_max_depth", depth.load(Ordering::Relaxed));
}

fn replay_search(ctx: &Ctx, cs: u16, fname: &str, events: &[u8]) -> String {
    let filters = server_filters();
    let Some((name, server, _)) = filters.iter().find(|f| f.0 == fname) else {
        return "unknown filter".into();
    };
    if !VALID_SIZES.contains(&cs) {
        return "invalid chunk size".into();
    }
    let sc = SearchCtx {
        ctx,
        cs,
        server,
        fname: name,
        transitions: AtomicU64::new(0),
        accepted: AtomicU64::new(0),
        rejected: AtomicU64::new(0),
        completions: AtomicU64::new(0),
    };
    let mut s = initial(cs);
    let mut obs = Vec::new();
    for &e in events {
        match apply(&sc, &s, e, Some(&mut obs)) {
            Some(n) => s = n,
            None => {
                obs.push(format!(
                    "{} -> stop (not applicable or violation)",
                    event_name(e)
                ));
                break;
            }
        }
    }
    obs.join(" | ")
}

// ---------------------------------------------------------------------------------
// 3. membership
// ---------------------------------------------------------------------------------

fn part_membership(ctx: &Ctx) {
    // (a) every index position: window ids i..i+9 (mod 4096)
    for i in 0..4096u32 {
        let idx: [u16; 10] = core::array::from_fn(|k| ((i + k as u32) % 4096) as u16);
        let next: [u16; 10] = core::array::from_fn(|k| ((i + 1 + k as u32) % 4096) as u16);
        let id = pb::server_id(idx);
        let mut f = BloomFilter::new();
        ctx.add("evaluations", 4);
        if f.contains_id(&id) {
            ctx.violation(
                "C34:membership-wrong",
                format!("empty filter reports id {idx:?}"),
                format!("M;{i}"),
            );
        }
        f.add_id(&id);
        if !f.contains_id(&id) {
            ctx.violation(
                "C34:false-negative",
                format!("filter does not report the id {idx:?} just added"),
                format!("M;{i}"),
            );
        }
        if f.count_ones() != 10 || f.as_bytes().iter().map(|b| b.count_ones()).sum::<u32>() != 10 {
            ctx.violation(
                "C34:membership-wrong",
                format!(
                    "adding an id with 10 distinct indices set {} bits",
                    f.count_ones()
                ),
                format!("M;{i}"),
            );
        }
        if f.contains_id(&pb::server_id(next)) {
            ctx.violation(
                "C34:membership-wrong",
                format!("filter with only {idx:?} reports {next:?}"),
                format!("M;{i}"),
            );
        }
    }
    // (b) subsets of a pool
    let pool: Vec<[u16; 10]> = vec![
        ID_A,
        ID_B,
        ID_C,
        [5, 100, 333, 777, 1024, 2047, 2048, 3000, 4000, 4092], // shares 9 indices with ID_A
        [5, 100, 333, 777, 1024, 2046, 2049, 3001, 4001, 4094], // half ID_A, half ID_B: covered by {A, B}
        [4086, 4087, 4088, 4089, 4090, 4091, 4092, 4093, 4094, 4095],
        [0, 2, 4, 6, 8, 10, 12, 14, 16, 18],
        [0, 1, 2, 3, 4, 5, 6, 7, 4088, 4095],
        [5, 5, 5, 5, 5, 5, 5, 5, 5, 5], // degenerate (never produced by ServerId::new)
        [7, 15, 23, 31, 39, 47, 55, 63, 71, 79], // top bit of ten consecutive bytes
        [8, 16, 24, 32, 40, 48, 56, 64, 72, 80], // bottom bit of ten consecutive bytes
        [1000, 1001, 1002, 1003, 1004, 1005, 1006, 1007, 1008, 1009],
    ];
    let n = pool.len();
    let mut subsets: Vec<Vec<usize>> = Vec::new();
    for a in 0..n {
        subsets.push(vec![a]);
        for b in a + 1..n {
            subsets.push(vec![a, b]);
            for c in b + 1..n {
                subsets.push(vec![a, b, c]);
            }
        }
    }
    ctx.set("membership_subsets", subsets.len() as u64);
    let mut contained = 0u64;
    let mut not_contained = 0u64;
    let mut legit_false_positive = 0u64;
    for sub in &subsets {
        let mut f = BloomFilter::new();
        let mut parts = Vec::new();
        let mut union: BTreeSet<u16> = BTreeSet::new();
        for &k in sub {
            f.add_id(&pb::server_id(pool[k]));
            let mut single = BloomFilter::new();
            single.add_id(&pb::server_id(pool[k]));
            parts.push(single);
            union.extend(pool[k].iter().copied());
        }
        let via_union = BloomFilter::union(parts.iter());
        let via_collect: BloomFilter = parts.iter().collect();
        let mut via_add = BloomFilter::new();
        for p_ in &parts {
            via_add.add(p_);
        }
        let tr = format!(
            "P;{}",
            sub.iter()
                .map(|k| k.to_string())
                .collect::<Vec<_>>()
                .join(",")
        );
        ctx.add("evaluations", 3 + n as u64);
        if via_union != f || via_collect != f || via_add != f {
            ctx.violation("C34:union-wrong", format!("union of the single-id filters of {sub:?} differs from adding the ids to one filter"), tr.clone());
        }
        if f.count_ones() as usize != union.len() {
            ctx.violation(
                "C34:membership-wrong",
                format!(
                    "ids {sub:?}: {} bits set for {} distinct indices",
                    f.count_ones(),
                    union.len()
                ),
                tr.clone(),
            );
        }
        for k in 0..n {
            let want = pool[k].iter().all(|i| union.contains(i));
            let got = f.contains_id(&pb::server_id(pool[k]));
            if sub.contains(&k) && !got {
                ctx.violation(
                    "C34:false-negative",
                    format!(
                        "filter built from pool ids {sub:?} does not report id {k} ({:?})",
                        pool[k]
                    ),
                    tr.clone(),
                );
            } else if got != want {
                ctx.violation("C34:membership-wrong", format!("filter built from pool ids {sub:?}: contains_id(pool {k}) = {got}, index cover says {want}"), tr.clone());
            }
            if got {
                contained += 1;
                if !sub.contains(&k) {
                    legit_false_positive += 1;
                }
            } else {
                not_contained += 1;
            }
        }
        ctx.distinct(common::hash_of(&("P", sub)));
    }
    ctx.set("membership_reported", contained);
    ctx.set("membership_not_reported", not_contained);
    ctx.set("membership_covered_but_not_added", legit_false_positive);
    // (c) ids from the crate's own generator: sorted, distinct, < 4096, contained after add
    for _ in 0..64 {
        let id = ServerId::default();
        let idx = pb::server_id_indices(&id);
        ctx.add("evaluations", 1);
        let mut f = BloomFilter::new();
        f.add_id(&id);
        let distinct: BTreeSet<u16> = idx.iter().copied().collect();
        if !f.contains_id(&id)
            || distinct.len() != 10
            || idx.iter().any(|v| *v > 4095)
            || f.count_ones() != 10
        {
            ctx.violation(
                "C34:false-negative",
                format!("generated id {idx:?}: not reported after add / malformed"),
                "G;0",
            );
        }
    }
}

// ---------------------------------------------------------------------------------
// 4. server side slice
// ---------------------------------------------------------------------------------

fn part_to_response(ctx: &Ctx) {
    let filter = pb::filter_from_bytes(synthetic_bytes());
    let bytes = synthetic_bytes();
    let mut lens: Vec<usize> = (0..=600).collect();
    lens.extend([1024, 4096, 32768, 65532, 65535]);
    let mut offs: Vec<u16> = (0..=520).collect();
    offs.extend([600, 1000, 1024, 32767, 32768, 65024, 65532, 65535]);
    let some = AtomicU64::new(0);
    let none = AtomicU64::new(0);
    let ctor_some = AtomicU64::new(0);
    common::par_for(lens.len() as u64, 8, |li| {
        let len = lens[li as usize];
        let mut msg = vec![0u8; len];
        for &off in &offs {
            let want: Option<&[u8]> = if off as usize + len <= 512 {
                Some(&bytes[off as usize..off as usize + len])
            } else {
                None
            };
            // request as the server sees it: decoded from the wire (needs the 2 offset bytes)
            if len >= 2 {
                msg[0..2].copy_from_slice(&off.to_be_bytes());
                match common::catch(|| {
                    ReferenceIdRequest::decode(&msg).ok().map(|r| {
                        (
                            r.offset(),
                            r.payload_len(),
                            r.to_response(&filter).map(|x| x.bytes().to_vec()),
                        )
                    })
                }) {
                    Ok(Some((o, l, got))) => {
                        if o != off || l as usize != len {
                            ctx.violation("C34:request-decode", format!("decoded request says offset {o} length {l}, wire says {off}/{len}"), format!("T;{len};{off}"));
                        }
                        if got.as_deref() != want {
                            ctx.violation(
                                "C34:server-slice-wrong",
                                format!("request offset {off} length {len}: answer {:?} bytes, expected {:?}", got.as_ref().map(|g| g.len()), want.map(|w| w.len())),
                                format!("T;{len};{off}"),
                            );
                        }
                        let side = if got.is_some() { &some } else { &none };
                        side.fetch_add(1, Ordering::Relaxed);
                    }
                    Ok(None) => ctx.violation(
                        "C34:request-decode",
                        format!("request body of {len} bytes not decodable"),
                        format!("T;{len};{off}"),
                    ),
                    Err(e) => ctx.violation(
                        "C34:panic",
                        format!("to_response(offset {off}, length {len}) panicked: {e}"),
                        format!("T;{len};{off}"),
                    ),
                }
            }
            // request as a client builds it
            if len <= u16::MAX as usize {
                match common::catch(|| {
                    ReferenceIdRequest::new(len as u16, off)
                        .map(|r| r.to_response(&filter).map(|x| x.bytes().to_vec()))
                }) {
                    Ok(Some(got)) => {
                        ctor_some.fetch_add(1, Ordering::Relaxed);
                        if got.as_deref() != want {
                            ctx.violation("C34:server-slice-wrong", format!("constructed request offset {off} length {len}: answer differs from the exact slice / nothing"), format!("T;{len};{off}"));
                        }
                    }
                    Ok(None) => {
                        // refusing to build a request is always safe; a valid chunk request must be constructible
                        if len % 4 == 0 && off as usize + len <= 512 {
                            ctx.violation("C34:request-constructor", format!("ReferenceIdRequest::new({len}, {off}) refused a valid chunk request"), format!("T;{len};{off}"));
                        }
                    }
                    Err(e) => ctx.violation(
                        "C34:panic",
                        format!("ReferenceIdRequest::new({len}, {off}) panicked: {e}"),
                        format!("T;{len};{off}"),
                    ),
                }
            }
        }
        ctx.add("evaluations", 2 * offs.len() as u64);
    });
    ctx.set("server_slices_answered", some.load(Ordering::Relaxed));
    ctx.set("server_slices_refused", none.load(Ordering::Relaxed));
    ctx.set(
        "client_requests_constructed",
        ctor_some.load(Ordering::Relaxed),
    );
}

// ---------------------------------------------------------------------------------
// 5. end to end
// ---------------------------------------------------------------------------------

#[derive(Default)]
struct NullCtl;
impl SourceController for NullCtl {
    fn handle_measurement(&mut self, _m: Measurement) {}
    fn set_usable(&mut self, _u: bool) {}
    fn desired_poll_interval(&self) -> PollInterval {
        PollInterval::default()
    }
    fn observe(&self) -> ObservableSourceTimedata {
        ObservableSourceTimedata::default()
    }
}

#[derive(Clone, Debug, Default)]
struct FixedClock;
impl NtpClock for FixedClock {
    type Error = std::io::Error;
    fn now(&self) -> Result<NtpTimestamp, Self::Error> {
        Ok(NtpTimestamp::from_fixed_int(0xE000_0000_0000_0300))
    }
    fn set_frequency(&self, _freq: f64) -> Result<NtpTimestamp, Self::Error> {
        unreachable!()
    }
    fn get_frequency(&self) -> Result<f64, Self::Error> {
        Ok(0.0)
    }
    fn step_clock(&self, _offset: NtpDuration) -> Result<NtpTimestamp, Self::Error> {
        unreachable!()
    }
    fn disable_ntp_algorithm(&self) -> Result<(), Self::Error> {
        Ok(())
    }
    fn error_estimate_update(&self, _e: NtpDuration, _m: NtpDuration) -> Result<(), Self::Error> {
        Ok(())
    }
    fn status_update(&self, _l: NtpLeapIndicator) -> Result<(), Self::Error> {
        Ok(())
    }
}

struct NoStats;
impl ServerStatHandler for NoStats {
    fn register(&mut self, _v: u8, _n: bool, _r: ServerReason, _s: ServerResponse) {}
}

fn make_server(filter: BloomFilter) -> Server<FixedClock> {
    let info = Arc::new(RwLock::new(NtpServerInfo {
        time_snapshot: TimeSnapshot {
            leap_indicator: NtpLeapIndicator::NoWarning,
            ..TimeSnapshot::default()
        },
        ntp_snapshot: NtpSnapshot {
            stratum: 2,
            reference_id: crate::identifiers::ReferenceId::NONE,
            bloom_filter: filter,
        },
    }));
    let config = ServerConfig {
        denylist: FilterList {
            filter: vec![],
            action: FilterAction::Deny,
        },
        allowlist: FilterList {
            filter: vec![
                IpSubnet {
                    addr: IpAddr::V4(Ipv4Addr::UNSPECIFIED),
                    mask: 0,
                },
                IpSubnet {
                    addr: IpAddr::V6(Ipv6Addr::UNSPECIFIED),
                    mask: 0,
                },
            ],
            action: FilterAction::Ignore,
        },
        rate_limiting_cache_size: 0,
        rate_limiting_cutoff: std::time::Duration::from_secs(0),
        require_nts: None,
        accepted_versions: vec![NtpVersion::V4, NtpVersion::V5],
    };
    Server::new_internal(config, FixedClock, info, KeySetProvider::new(1).get())
}

/// Walk the extension fields after the 48-byte header: (type, body start, body end, field end).
fn walk_efs(d: &[u8]) -> Vec<(u16, usize, usize, usize)> {
    let mut v = Vec::new();
    let mut p = 48;
    while p + 4 <= d.len() {
        let ty = u16::from_be_bytes([d[p], d[p + 1]]);
        let len = u16::from_be_bytes([d[p + 2], d[p + 3]]) as usize;
        if len < 4 || p + len > d.len() {
            break;
        }
        let end = p + ((len + 3) & !3);
        v.push((ty, p + 4, p + len, end.min(d.len())));
        p = end;
    }
    v
}

const T_REQ: u16 = 0xF503;
const T_RESP: u16 = 0xF504;

fn poll_request(src: &mut NtpSource<NullCtl>) -> Option<Vec<u8>> {
    let mut req = None;
    for a in src.handle_timer() {
        if let NtpSourceAction::Send(b) = a {
            req = Some(b);
        }
    }
    req
}

fn serve(server: &mut Server<FixedClock>, req: &[u8]) -> Option<Vec<u8>> {
    let mut buf = vec![0u8; req.len().max(48)];
    match server.handle(
        IpAddr::V4(Ipv4Addr::new(192, 0, 2, 17)),
        NtpTimestamp::from_fixed_int(0xE000_0000_0000_0200),
        req,
        &mut buf,
        &mut NoStats,
    ) {
        ServerAction::Respond { message } => Some(message.to_vec()),
        ServerAction::Ignore => None,
    }
}

fn deliver_raw(src: &mut NtpSource<NullCtl>, resp: &[u8]) {
    for _ in src.handle_incoming(
        resp,
        NtpTimestamp::from_fixed_int(0xE000_0000_0000_0100),
        NtpTimestamp::from_fixed_int(0xE000_0000_0000_0400),
    ) {}
}

std::thread_local! {
    /// first panic of the code under test during the current end-to-end run
    static E2E_PANIC: std::cell::RefCell<Option<String>> = const { std::cell::RefCell::new(None) };
}

/// Deliver a datagram to the source; a panic of the source is remembered (a datagram from the
/// network that panics the source aborts the daemon) and reported by `run_e2e`.
fn deliver(src: &mut NtpSource<NullCtl>, resp: &[u8]) {
    if let Err(e) = common::catch(|| deliver_raw(src, resp)) {
        E2E_PANIC.with(|p_| {
            let mut p_ = p_.borrow_mut();
            if p_.is_none() {
                *p_ = Some(e);
            }
        });
    }
}

/// Re-frame the chunk field of a genuine NTPv5 server answer so that its value has `len`
/// bytes (bytes of the filter from `off` on; NTPv5 field lengths exclude the zero padding).
fn resize_chunk(resp: &[u8], off: usize, len: usize) -> Option<Vec<u8>> {
    let f = walk_efs(resp).into_iter().find(|e| e.0 == T_RESP)?;
    let src = synthetic_bytes();
    let mut out = resp[..f.1 - 4].to_vec();
    out.extend_from_slice(&T_RESP.to_be_bytes());
    out.extend_from_slice(&((len + 4) as u16).to_be_bytes());
    for i in 0..len {
        out.push(if off + i < 512 { src[off + i] } else { 0xEE });
    }
    while out.len() % 4 != 0 {
        out.push(0);
    }
    out.extend_from_slice(&resp[f.3..]);
    Some(out)
}

/// lengths used for resized chunk answers (requested: 16): 0, 1 and 8..=24 without 16
fn resize_lengths() -> Vec<usize> {
    let mut v = vec![0usize, 1];
    v.extend((8..=24).filter(|l| *l != 16));
    v
}

/// deviation kinds at a poll position: 1 = answer lost, 2 = previous answer replayed before
/// the fresh one, 3 = fresh answer delivered twice, 100 + L = the fresh answer's chunk field
/// re-framed to carry L bytes instead of 16 (the rest of the datagram is genuine)
fn run_e2e(ctx: &Ctx, devs: &[(usize, u8)], polls: usize) -> String {
    let trace = format!(
        "E;{polls};{}",
        devs.iter()
            .map(|(p_, k)| format!("{p_}:{k}"))
            .collect::<Vec<_>>()
            .join(",")
    );
    let filter = pb::filter_from_bytes(synthetic_bytes());
    let mut server = make_server(filter);
    let mgr = NtpManager::new(
        SynchronizationConfig::default(),
        vec![IpAddr::V4(Ipv4Addr::new(192, 0, 2, 17))].into(),
    );
    let (mut src, _) = mgr.new_source(
        SocketAddr::new(IpAddr::V4(Ipv4Addr::new(198, 51, 100, 9)), 123),
        SourceConfig::default(),
        ProtocolVersion::V5,
        NullCtl,
        None,
        ClockId::new(),
    );
    let mut answered = 0usize;
    let mut prev_resp: Option<Vec<u8>> = None;
    let mut obs = String::new();
    let mut last_resized: Option<usize> = None;
    E2E_PANIC.with(|p_| *p_.borrow_mut() = None);
    for i in 0..polls {
        let kind = devs
            .iter()
            .find(|(p_, _)| *p_ == i)
            .map(|(_, k)| *k)
            .unwrap_or(0);
        let Some(req) = poll_request(&mut src) else {
            obs.push('R');
            break;
        };
        ctx.inc("transitions");
        // the chunk request on the wire: the next missing chunk
        let efs = walk_efs(&req);
        let rq: Vec<_> = efs.iter().filter(|e| e.0 == T_REQ).collect();
        let want_off = (16 * (answered % 32)) as u16;
        if let (Some(l), 1) = (last_resized, rq.len()) {
            let got_off = u16::from_be_bytes([req[rq[0].1], req[rq[0].1 + 1]]);
            if got_off != want_off {
                ctx.violation(
                    "C34:wrong-size-accepted",
                    format!("poll {}: an answer whose chunk field carried {l} bytes instead of 16 was accepted: the next request asks for offset {got_off} instead of repeating offset {want_off}", i - 1),
                    &trace,
                );
                return obs;
            }
        }
        last_resized = None;
        if rq.len() != 1
            || rq[0].2 - rq[0].1 != 16
            || u16::from_be_bytes([req[rq[0].1], req[rq[0].1 + 1]]) != want_off
        {
            ctx.violation(
                "C34:request-sequence",
                format!("poll {i}: datagram carries {} chunk requests{}; expected one for offset {want_off} length 16", rq.len(), rq.first().map(|r| format!(" (offset {} length {})", u16::from_be_bytes([req[r.1], req[r.1 + 1]]), r.2 - r.1)).unwrap_or_default()),
                &trace,
            );
            return obs;
        }
        let resp = serve(&mut server, &req);
        match (&resp, kind) {
            (None, _) => {
                ctx.violation(
                    "C34:server-refuses-valid-chunk",
                    format!("poll {i}: the server ignored a well-formed NTPv5 poll"),
                    &trace,
                );
                return obs;
            }
            (Some(_), 1) => obs.push('l'),
            (Some(r), 2) => {
                if let Some(p_) = &prev_resp {
                    deliver(&mut src, p_);
                }
                deliver(&mut src, r);
                answered += 1;
                obs.push('s');
            }
            (Some(r), 3) => {
                deliver(&mut src, r);
                deliver(&mut src, r);
                answered += 1;
                obs.push('d');
            }
            (Some(r), k) if k >= 100 => {
                let l = (k - 100) as usize;
                match resize_chunk(r, want_off as usize, l) {
                    Some(m) => deliver(&mut src, &m),
                    None => {
                        ctx.violation(
                            "C34:server-slice-wrong",
                            format!("poll {i}: answer carries no chunk field"),
                            &trace,
                        );
                        return obs;
                    }
                }
                last_resized = Some(l);
                obs.push('z');
            }
            (Some(r), _) => {
                deliver(&mut src, r);
                answered += 1;
                obs.push('a');
            }
        }
        if let Some(r) = &resp {
            // the server's answer carries exactly the requested slice
            let chunk: Vec<_> = walk_efs(r).into_iter().filter(|e| e.0 == T_RESP).collect();
            let o = want_off as usize;
            if chunk.len() != 1 || r[chunk[0].1..chunk[0].2] != synthetic_bytes()[o..o + 16] {
                ctx.violation(
                    "C34:server-slice-wrong",
                    format!(
                        "poll {i}: answer does not carry exactly bytes {o}..{} of the filter",
                        o + 16
                    ),
                    &trace,
                );
                return obs;
            }
        }
        prev_resp = resp;
        if let Some(e) = E2E_PANIC.with(|p_| p_.borrow_mut().take()) {
            ctx.violation(
                "C34:panic",
                format!("poll {i}: the source panicked while handling a server answer: {e}"),
                &trace,
            );
            return obs;
        }
        let v = ps::view(&src);
        ctx.inc("evaluations");
        match (&v.bloom_full, answered >= 32) {
            (Some(f), _) if f[..] != synthetic_bytes()[..] => {
                ctx.violation("C34:full-filter-wrong", format!("poll {i}: the source holds a complete filter that differs from the server's ({answered} chunks answered)"), &trace);
                return obs;
            }
            (None, true) => {
                ctx.violation("C34:full-filter-missing", format!("poll {i}: {answered} chunk answers delivered but the source has no complete filter"), &trace);
                return obs;
            }
            (Some(_), true) => obs.push('F'),
            _ => {}
        }
    }
    obs
}

fn part_e2e(ctx: &Ctx) {
    let polls = 36usize;
    let maxdev = if ctx.quick() { 2 } else { 3 };
    let slots: Vec<(usize, u8)> = (0..polls)
        .flat_map(|p_| (1..=3u8).map(move |k| (p_, k)))
        .collect();
    let mut runs: Vec<Vec<(usize, u8)>> = vec![vec![]];
    for a in 0..slots.len() {
        runs.push(vec![slots[a]]);
        if maxdev >= 2 {
            for b in a + 1..slots.len() {
                if slots[b].0 == slots[a].0 {
                    continue;
                }
                runs.push(vec![slots[a], slots[b]]);
                if maxdev >= 3 {
                    for c in b + 1..slots.len() {
                        if slots[c].0 == slots[b].0 {
                            continue;
                        }
                        runs.push(vec![slots[a], slots[b], slots[c]]);
                    }
                }
            }
        }
    }
    // resized chunk fields: every position x every length alone; combined with one other deviation
    // next to it (quick) / anywhere (thorough); thorough also every pair of resized answers
    let lens = resize_lengths();
    let mut resized_runs = 0u64;
    for p_ in 0..polls {
        for &l in &lens {
            let z = (p_, 100 + l as u8);
            runs.push(vec![z]);
            resized_runs += 1;
            for q in 0..polls {
                if q == p_ || (ctx.quick() && q.abs_diff(p_) > 1) {
                    continue;
                }
                for k in 1..=3u8 {
                    runs.push(vec![z, (q, k)]);
                    resized_runs += 1;
                }
                if !ctx.quick() && q > p_ {
                    for &l2 in &lens {
                        runs.push(vec![z, (q, 100 + l2 as u8)]);
                        resized_runs += 1;
                    }
                }
            }
        }
    }
    ctx.set("e2e_runs_with_resized_chunk_answers", resized_runs);
    ctx.set("e2e_runs", runs.len() as u64);
    let completed = AtomicU64::new(0);
    common::par_for_with(
        runs.len() as u64,
        16,
        || {
            tokio::runtime::Builder::new_current_thread()
                .enable_time()
                .start_paused(true)
                .build()
                .expect("runtime")
        },
        |rt, i| {
            let devs = &runs[i as usize];
            let o = rt.block_on(async { run_e2e(ctx, devs, polls) });
            if o.contains('F') {
                completed.fetch_add(1, Ordering::Relaxed);
            }
            ctx.distinct(common::hash_of(&("E", devs)));
            if i % 1499 == 3 {
                ctx.sample(format!("deviations {devs:?}: {o}"));
            }
        },
    );
    ctx.set(
        "e2e_runs_reaching_full_filter",
        completed.load(Ordering::Relaxed),
    );
}

/// hand-framed chunk requests sent to the real server
fn part_server_wire(ctx: &Ctx) {
    let filter = pb::filter_from_bytes(synthetic_bytes());
    let bytes = synthetic_bytes();
    // a genuine NTPv5 poll as template; its chunk request is the last extension field
    let template = super::block_on_paused(async {
        let mgr = NtpManager::new(
            SynchronizationConfig::default(),
            vec![IpAddr::V4(Ipv4Addr::new(192, 0, 2, 17))].into(),
        );
        let (mut src, _) = mgr.new_source(
            SocketAddr::new(IpAddr::V4(Ipv4Addr::new(198, 51, 100, 9)), 123),
            SourceConfig::default(),
            ProtocolVersion::V5,
            NullCtl,
            None,
            ClockId::new(),
        );
        poll_request(&mut src).expect("poll")
    });
    let efs = walk_efs(&template);
    let Some(last) = efs.last().filter(|e| e.0 == T_REQ && e.3 == template.len()) else {
        ctx.violation("C34:request-sequence", "the chunk request is not the last extension field of an NTPv5 poll (harness template assumption)", "W;0;0");
        return;
    };
    let head = template[..last.1 - 4].to_vec();
    let mut offs: Vec<u16> = (0..=512).step_by(4).collect();
    offs.extend([1, 2, 3, 17, 510, 511, 513, 516, 1024, 65535]);
    let lens: Vec<usize> = (4..=516).step_by(4).collect();
    let exact = AtomicU64::new(0);
    let without = AtomicU64::new(0);
    let ignored = AtomicU64::new(0);
    common::par_for(offs.len() as u64, 1, |oi| {
        let off = offs[oi as usize];
        let mut server = make_server(filter);
        for &len in &lens {
            let mut req = head.clone();
            req.extend_from_slice(&T_REQ.to_be_bytes());
            req.extend_from_slice(&((len + 4) as u16).to_be_bytes());
            let mut body = vec![0u8; len];
            body[0..2].copy_from_slice(&off.to_be_bytes());
            req.extend_from_slice(&body);
            ctx.add("evaluations", 1);
            let tr = format!("W;{len};{off}");
            let in_range = off as usize + len <= 512;
            match common::catch(|| serve(&mut server, &req)) {
                Err(e) => ctx.violation(
                    "C34:panic",
                    format!("server panicked on a chunk request offset {off} length {len}: {e}"),
                    tr,
                ),
                Ok(None) => {
                    ignored.fetch_add(1, Ordering::Relaxed);
                    // extension fields shorter than 16 octets are not valid NTP extension fields at all
                    if in_range && len + 4 >= 16 {
                        ctx.violation(
                            "C34:server-refuses-valid-chunk",
                            format!("server ignored a poll asking for offset {off} length {len}"),
                            tr,
                        );
                    }
                }
                Ok(Some(r)) => {
                    let chunk: Vec<_> =
                        walk_efs(&r).into_iter().filter(|e| e.0 == T_RESP).collect();
                    match chunk.len() {
                        0 => {
                            without.fetch_add(1, Ordering::Relaxed);
                            if in_range {
                                ctx.violation("C34:server-refuses-valid-chunk", format!("server answered the poll but left out the chunk offset {off} length {len}"), tr);
                            }
                        }
                        1 => {
                            let got = &r[chunk[0].1..chunk[0].2];
                            if !in_range || got != &bytes[off as usize..off as usize + len] {
                                ctx.violation("C34:server-slice-wrong", format!("server answered offset {off} length {len} with {} bytes that are not the requested slice", got.len()), tr);
                            } else {
                                exact.fetch_add(1, Ordering::Relaxed);
                            }
                        }
                        k => ctx.violation(
                            "C34:server-slice-wrong",
                            format!("server answered one chunk request with {k} chunk fields"),
                            tr,
                        ),
                    }
                }
            }
        }
    });
    ctx.set(
        "wire_requests_answered_exact",
        exact.load(Ordering::Relaxed),
    );
    ctx.set(
        "wire_requests_answered_without_chunk",
        without.load(Ordering::Relaxed),
    );
    ctx.set("wire_requests_ignored", ignored.load(Ordering::Relaxed));
}

// ---------------------------------------------------------------------------------

fn replay(ctx: &Ctx, trace: &str) -> String {
    let p: Vec<&str> = trace.split(';').collect();
    match p[0] {
        "S" => {
            let cs: u16 = p.get(1).and_then(|s| s.parse().ok()).unwrap_or(16);
            let ev = common::unhex(p.get(3).copied().unwrap_or("")).unwrap_or_default();
            replay_search(ctx, cs, p.get(2).copied().unwrap_or("synthetic"), &ev)
        }
        "E" => {
            let polls: usize = p.get(1).and_then(|s| s.parse().ok()).unwrap_or(36);
            let devs: Vec<(usize, u8)> = p
                .get(2)
                .map(|s| {
                    s.split(',')
                        .filter_map(|d| d.split_once(':'))
                        .filter_map(|(a, b)| Some((a.parse().ok()?, b.parse().ok()?)))
                        .collect()
                })
                .unwrap_or_default();
            super::block_on_paused(async { run_e2e(ctx, &devs, polls) })
        }
        "N" => {
            let cs: u16 = p.get(1).and_then(|s| s.parse().ok()).unwrap_or(0);
            format!(
                "new({cs}) = {:?}",
                common::catch(|| RemoteBloomFilter::new(cs).is_some())
            )
        }
        "T" => {
            let len: usize = p.get(1).and_then(|s| s.parse().ok()).unwrap_or(0);
            let off: u16 = p.get(2).and_then(|s| s.parse().ok()).unwrap_or(0);
            let filter = pb::filter_from_bytes(synthetic_bytes());
            let mut msg = vec![0u8; len.max(2)];
            msg[0..2].copy_from_slice(&off.to_be_bytes());
            let r = common::catch(|| {
                ReferenceIdRequest::decode(&msg)
                    .ok()
                    .map(|r| r.to_response(&filter).map(|x| x.bytes().to_vec()))
            });
            let want = if off as usize + len <= 512 {
                Some(synthetic_bytes()[off as usize..off as usize + len].to_vec())
            } else {
                None
            };
            if r != Ok(Some(want.clone())) {
                ctx.violation(
                    "C34:server-slice-wrong",
                    format!("offset {off} length {len}"),
                    trace,
                );
            }
            format!(
                "got={:?} want={:?}",
                r.map(|x| x.map(|y| y.map(|z| z.len()))),
                want.map(|w| w.len())
            )
        }
        _ => {
            // M, P, G, W: re-run the (cheap) whole part deterministically
            part_membership(ctx);
            part_server_wire(ctx);
            format!(
                "membership + wire parts re-run, violations={}",
                ctx.violation_count()
            )
        }
    }
}

#[test]
fn check() {
    let ctx = Ctx::new("C34");
    if let Some(t) = common::replay_trace() {
        let a = replay(&ctx, &t);
        let b = replay(&ctx, &t);
        common::report_replay("C34", &a, &b, ctx.violation_count() > 0);
        return;
    }
    ctx.rule(
        "BFS to fixpoint over the real RemoteBloomFilter for each of the 8 valid chunk sizes x 4 server filters (synthetic with pairwise distinct non-zero words; real filters of 1, 2, 3 ids): \
         events Request(new cookie) and Deliver(target in {outstanding, most recent stale, first ever, never issued} x payload length in {exact, requested-8..=requested+8, empty, 1 byte, half, double}, value built by ReferenceIdResponse::decode); states deduplicated on the probe view of \
         the real object + model with cookies canonicalised by role. Plus: new() over all u16; membership over 4096 window ids and all 298 subsets (size 1..3) of 12 pool ids; to_response over 606 lengths x 529 offsets; \
         end to end source<->server runs of 36 polls with every placement of <=2 (quick) / <=3 (thorough) deviations {lost, stale replay, duplicate} plus answers whose chunk field is re-framed to 0, 1, 8..=24 (!= 16) bytes at every position; 129 lengths x 139 offsets of hand-framed requests to the real server. \
         Distinct & non-trivial = (chunk size, filter) searches, membership subsets, e2e deviation sets.",
    );
    ctx.assume("the server's filter does not change during a transfer; cookies of different requests differ (they are random 64-bit values in the real client)");
    ctx.assume("an honest server answers a request with the bytes at the requested offset; answers of other lengths are modelled as slices starting at the same offset");
    part_new(&ctx);
    part_search(&ctx);
    part_membership(&ctx);
    part_to_response(&ctx);
    part_server_wire(&ctx);
    part_e2e(&ctx);
    ctx.exhaustive(true);
    ctx.finish();
}
