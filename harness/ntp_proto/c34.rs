//! C34: not implemented yet.
