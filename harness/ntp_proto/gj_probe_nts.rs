//! Group gj probe, child of `crate::nts` (reachable as `crate::nts::verif_probe::gj`).
//!
//! `nts::messages` and `nts::record` are private modules of `nts`, and `NextProtocol`
//! is a private enum, so the harness (a child of the crate root) cannot name
//! `Request`, `KeyExchangeResponse`, `NtsRecord`. This probe only *calls* their parse /
//! serialize functions and turns the values into canonical strings; plus the TLS rig
//! (the same construction the crate's own KE tests use) shared by C28 and C29 and an
//! independent, deliberately dumb TLV codec used as the harness' view of the wire.
//! Nothing here changes behaviour of the code under test.
#![allow(dead_code, unused_imports, clippy::all, clippy::pedantic)]

use std::borrow::Cow;
use std::future::Future;
use std::pin::{Pin, pin};
use std::sync::Arc;
use std::task::{Context, Poll, Waker};

use tokio::io::{AsyncRead, AsyncReadExt, AsyncWrite, AsyncWriteExt, ReadBuf};
use tokio_rustls::{TlsAcceptor, TlsConnector};

use super::super::messages::{KeyExchangeResponse, Request};
use super::super::record::NtsRecord;
use super::super::{
    AeadAlgorithm, KeyExchangeClient, KeyExchangeServer, NextProtocol, NtsClientConfig, NtsError,
    NtsServerConfig,
};
use crate::generic::NtpVersion;
use crate::source::ProtocolVersion;
use crate::tls_utils::{self, Certificate, PrivateKey, ServerName, TLS13};

// ---------------------------------------------------------------------------------
// independent wire view: a message is a sequence of (type incl. critical bit, body)
// ---------------------------------------------------------------------------------

#[derive(Clone, Debug, PartialEq, Eq, Hash)]
pub(crate) struct Rec {
    /// 16-bit type field as on the wire (bit 15 = critical)
    pub ty: u16,
    pub body: Vec<u8>,
}

impl Rec {
    pub fn new(ty: u16, body: &[u8]) -> Rec {
        Rec {
            ty,
            body: body.to_vec(),
        }
    }
    pub fn kind(&self) -> u16 {
        self.ty & 0x7fff
    }
    pub fn u16s(&self) -> Option<Vec<u16>> {
        if self.body.len() % 2 != 0 {
            return None;
        }
        Some(
            self.body
                .chunks(2)
                .map(|c| u16::from_be_bytes([c[0], c[1]]))
                .collect(),
        )
    }
}

pub(crate) fn u16s_body(ids: &[u16]) -> Vec<u8> {
    ids.iter().flat_map(|i| i.to_be_bytes()).collect()
}

pub(crate) fn enc(recs: &[Rec]) -> Vec<u8> {
    let mut out = Vec::new();
    for r in recs {
        out.extend_from_slice(&r.ty.to_be_bytes());
        out.extend_from_slice(&(r.body.len() as u16).to_be_bytes());
        out.extend_from_slice(&r.body);
    }
    out
}

/// Strict framing decode of a whole buffer. `None` if the buffer is not a whole number
/// of records.
pub(crate) fn dec(mut b: &[u8]) -> Option<Vec<Rec>> {
    let mut out = Vec::new();
    while !b.is_empty() {
        if b.len() < 4 {
            return None;
        }
        let ty = u16::from_be_bytes([b[0], b[1]]);
        let len = u16::from_be_bytes([b[2], b[3]]) as usize;
        if b.len() < 4 + len {
            return None;
        }
        out.push(Rec {
            ty,
            body: b[4..4 + len].to_vec(),
        });
        b = &b[4 + len..];
    }
    Some(out)
}

/// Read one message (records up to and including the first End-Of-Message record) from
/// a stream with the harness' own framing code. `Err(partial)` on EOF / IO error.
pub(crate) async fn read_message<R: AsyncRead + Unpin>(
    r: &mut R,
) -> Result<Vec<Rec>, (Vec<Rec>, String)> {
    let mut out = Vec::new();
    loop {
        let mut h = [0u8; 4];
        if let Err(e) = r.read_exact(&mut h).await {
            return Err((out, format!("{:?}", e.kind())));
        }
        let ty = u16::from_be_bytes([h[0], h[1]]);
        let len = u16::from_be_bytes([h[2], h[3]]) as usize;
        let mut body = vec![0u8; len];
        if let Err(e) = r.read_exact(&mut body).await {
            return Err((out, format!("{:?}", e.kind())));
        }
        let eom = ty & 0x7fff == 0;
        out.push(Rec { ty, body });
        if eom {
            return Ok(out);
        }
    }
}

// ---------------------------------------------------------------------------------
// TLS rig (as in the crate's own tests: real rustls at both ends, test-keys/ PKI)
// ---------------------------------------------------------------------------------

fn ca() -> Arc<[Certificate]> {
    tls_utils::pemfile::certs(
        &mut include_bytes!(concat!(env!("CARGO_MANIFEST_DIR"), "/test-keys/testca.pem"))
            .as_slice(),
    )
    .collect::<Result<Arc<_>, _>>()
    .unwrap()
}

fn chain() -> Vec<Certificate> {
    tls_utils::pemfile::certs(
        &mut include_bytes!(concat!(
            env!("CARGO_MANIFEST_DIR"),
            "/test-keys/end.fullchain.pem"
        ))
        .as_slice(),
    )
    .collect::<Result<Vec<_>, _>>()
    .unwrap()
}

fn key() -> PrivateKey {
    tls_utils::pemfile::private_key(
        &mut include_bytes!(concat!(env!("CARGO_MANIFEST_DIR"), "/test-keys/end.key")).as_slice(),
    )
    .unwrap()
}

fn provider() {
    #[cfg(feature = "openssl")]
    let _ = rustls_openssl::default_provider().install_default();
}

/// The real key-exchange server.
pub(crate) fn server(accepted_versions: Vec<NtpVersion>, tokens: Vec<String>) -> KeyExchangeServer {
    provider();
    KeyExchangeServer::new(NtsServerConfig {
        certificate_chain: chain(),
        private_key: key(),
        accepted_versions,
        server: None,
        port: None,
        pool_authentication_tokens: tokens,
    })
    .unwrap()
}

/// The real key-exchange client.
pub(crate) fn client(protocol_version: ProtocolVersion) -> KeyExchangeClient {
    provider();
    KeyExchangeClient::new(&NtsClientConfig {
        certificates: ca(),
        protocol_version,
    })
    .unwrap()
}

/// What the real client is configured to offer (read from its private fields), as wire ids.
pub(crate) fn client_offer(c: &KeyExchangeClient) -> (Vec<u16>, Vec<u16>) {
    (
        c.protocols.iter().map(|p| u16::from(*p)).collect(),
        c.algorithms.iter().map(|a| u16::from(*a)).collect(),
    )
}

/// Harness TLS client end (raw records are written by the harness).
pub(crate) fn raw_connector() -> TlsConnector {
    provider();
    let builder = tls_utils::client_config_builder_with_protocol_versions(&[&TLS13]);
    let verifier = tls_utils::PlatformVerifier::new_with_extra_roots(ca().iter().cloned())
        .unwrap()
        .with_provider(builder.crypto_provider().clone());
    let mut cfg = builder
        .dangerous()
        .with_custom_certificate_verifier(Arc::new(verifier))
        .with_no_client_auth();
    cfg.alpn_protocols = vec![b"ntske/1".to_vec()];
    cfg.resumption = rustls23::client::Resumption::disabled();
    TlsConnector::from(Arc::new(cfg))
}

/// Harness TLS server end (scripted responses are written by the harness).
pub(crate) fn raw_acceptor() -> TlsAcceptor {
    provider();
    let mut cfg = tls_utils::server_config_builder_with_protocol_versions(&[&TLS13])
        .with_no_client_auth()
        .with_single_cert(chain(), key())
        .unwrap();
    cfg.alpn_protocols = vec![b"ntske/1".to_vec()];
    TlsAcceptor::from(Arc::new(cfg))
}

pub(crate) fn localhost() -> ServerName<'static> {
    ServerName::try_from("localhost").unwrap()
}

/// RFC 8915 section 5.1 key export, written out independently of `NtsKeys`:
/// label "EXPORTER-network-time-security", context = protocol id (2, BE) ||
/// algorithm id (2, BE) || 0x00 (C2S) / 0x01 (S2C); key length 32 for AEAD 15, 64 for 17.
/// Returns `(c2s, s2c)`.
pub(crate) fn export<T>(
    conn: &tls_utils::ConnectionCommon<T>,
    protocol: u16,
    algorithm: u16,
) -> Option<(Vec<u8>, Vec<u8>)> {
    let len = match algorithm {
        15 => 32,
        17 => 64,
        _ => return None,
    };
    let mut out = Vec::new();
    for dir in [0u8, 1u8] {
        let p = protocol.to_be_bytes();
        let a = algorithm.to_be_bytes();
        let context = [p[0], p[1], a[0], a[1], dir];
        let key = conn
            .export_keying_material(
                vec![0u8; len],
                b"EXPORTER-network-time-security",
                Some(&context),
            )
            .ok()?;
        out.push(key);
    }
    let s2c = out.pop().unwrap();
    let c2s = out.pop().unwrap();
    Some((c2s, s2c))
}

pub(crate) fn aead_id(a: AeadAlgorithm) -> u16 {
    a.into()
}

pub(crate) fn err_name(e: &NtsError) -> String {
    match e {
        NtsError::IO(e) => format!("IO({:?})", e.kind()),
        NtsError::Tls(_) => "Tls".to_string(),
        NtsError::Dns(_) => "Dns".to_string(),
        other => format!("{other:?}"),
    }
}

// ---------------------------------------------------------------------------------
// C30: parse / serialise wrappers returning canonical values
// ---------------------------------------------------------------------------------

/// Busy-poll executor for I/O-free futures (the harness reader wakes itself when it
/// returns `Pending`). Returns `None` if the future is still pending after `max_polls`.
pub(crate) fn run_sync<F: Future>(f: F, max_polls: usize) -> Option<F::Output> {
    let mut f = pin!(f);
    let mut cx = Context::from_waker(Waker::noop());
    for _ in 0..max_polls {
        if let Poll::Ready(v) = f.as_mut().poll(&mut cx) {
            return Some(v);
        }
    }
    None
}

/// `Ok((canonical value, its serialisation))` or `Err(canonical error)`.
pub(crate) type Parsed = Result<(String, Vec<u8>), String>;

fn io_err(e: &std::io::Error) -> String {
    format!("IO({:?})", e.kind())
}

pub(crate) async fn parse_record<R: AsyncRead + Unpin>(r: R) -> Parsed {
    match NtsRecord::parse(r).await {
        Ok(rec) => {
            let mut out = Vec::new();
            match rec.serialize(&mut out).await {
                Ok(()) => Ok((format!("{rec:?}"), out)),
                Err(e) => Ok((
                    format!("{rec:?}"),
                    format!("!serialize:{:?}", e.kind()).into_bytes(),
                )),
            }
        }
        Err(e) => Err(io_err(&e)),
    }
}

fn canon_request(r: &Request<'_>) -> String {
    match r {
        Request::KeyExchange {
            algorithms,
            protocols,
            denied_servers,
        } => format!(
            "KeyExchange{{algorithms:{:?},protocols:{:?},denied:{:?}}}",
            algorithms.iter().map(|a| u16::from(*a)).collect::<Vec<_>>(),
            protocols.iter().map(|p| u16::from(*p)).collect::<Vec<_>>(),
            denied_servers
                .iter()
                .map(|d| d.to_string())
                .collect::<Vec<_>>(),
        ),
        Request::FixedKey {
            authentication,
            c2s_key,
            s2c_key,
            algorithm,
            protocol,
            keep_alive,
        } => format!(
            "FixedKey{{auth:{:?},c2s:{:?},s2c:{:?},algorithm:{},protocol:{},keep_alive:{}}}",
            authentication,
            c2s_key.key_bytes(),
            s2c_key.key_bytes(),
            u16::from(*algorithm),
            u16::from(*protocol),
            keep_alive
        ),
        Request::Support {
            authentication,
            wants_protocols,
            wants_algorithms,
            keep_alive,
        } => format!(
            "Support{{auth:{authentication:?},wants_protocols:{wants_protocols},wants_algorithms:{wants_algorithms},keep_alive:{keep_alive}}}"
        ),
    }
}

pub(crate) async fn parse_request<R: AsyncRead + Unpin>(r: R) -> Parsed {
    match Request::parse(r).await {
        Ok(req) => {
            let c = canon_request(&req);
            let mut out = Vec::new();
            match req.serialize(&mut out).await {
                Ok(()) => Ok((c, out)),
                Err(e) => Ok((c, format!("!serialize:{:?}", e.kind()).into_bytes())),
            }
        }
        Err(e) => Err(err_name(&e)),
    }
}

fn canon_response(r: &KeyExchangeResponse<'_>) -> String {
    format!(
        "Response{{protocol:{},algorithm:{},cookies:{:?},server:{:?},port:{:?},keep_alive:{}}}",
        u16::from(r.protocol),
        u16::from(r.algorithm),
        r.cookies.iter().map(|c| c.to_vec()).collect::<Vec<_>>(),
        r.server,
        r.port,
        r.keep_alive
    )
}

pub(crate) async fn parse_response<R: AsyncRead + Unpin>(r: R) -> Parsed {
    match KeyExchangeResponse::parse(r).await {
        Ok(resp) => {
            let c = canon_response(&resp);
            let mut out = Vec::new();
            match resp.serialize(&mut out).await {
                Ok(()) => Ok((c, out)),
                Err(e) => Ok((c, format!("!serialize:{:?}", e.kind()).into_bytes())),
            }
        }
        Err(e) => Err(err_name(&e)),
    }
}
