
#[cfg(any(not(verif_select), verif_gk))] #[path = "/verif/harness/ntp_proto/gk_probe_system.rs"] pub(crate) mod gk;
