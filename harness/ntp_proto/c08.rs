//! C08 — A source only accepts fresh answers to its own pending request.
//!
//! Engine E-SEQ: breadth-first explicit-state search over the REAL `NtpSource`, every event
//! sequence up to depth 6 (quick) / 10 (thorough), merged on a canonical key, for plain
//! sources in modes V4, V5, automatic upgrade and NTS sources with negotiated V4 / V5.
//!
//! Events
//! * `T` timer (emits the next request), `W4900` / `W200` virtual time passes (4.9 s keeps an
//!   answer inside the 5 s poll window, 4.9 + 0.2 s puts it outside);
//! * plain answers: identifier {matching the most recent request, that of the previous
//!   request, zero, unrelated} x {v3, v4, v4+upgrade marker, v5} x mode {server, client,
//!   symmetric active} x {stratum 1, 16, 17, KISS DENY, KISS RATE, KISS "XXXX"} = 288 datagrams, each
//!   assembled at byte level from the request the source emitted. Delivering the same symbol
//!   twice is a byte-identical duplicate up to the receive/transmit timestamps; delivering
//!   "previous request" after a timer is a replay / reordered late answer; zero and unrelated
//!   identifiers are forged origin fields;
//! * NTS answers: {authenticated} x identifier {matching, previous, unrelated} x unique
//!   identifier {matching, wrong, absent} x {v4, v5} x {usable, stratum 17, KISS} + two
//!   unauthenticated ones.
//!
//! Oracle (from the statement): an answer yields a measurement IFF it answers the most
//! recent request (identifier, and for NTS the unique identifier inside an authentic
//! packet), that request has not yielded a measurement yet, it arrives less than 5 s after
//! the request, has the version the reference automaton of C12 currently expects, is in
//! server mode, is not a KISS code and has stratum <= 16. A measurement is exactly one
//! (outgoing, incoming) pair carrying *this* datagram's receive / transmit timestamps; the
//! reach bit is set iff a measurement was delivered; an answer that is not fresh (wrong
//! identifier, late, duplicate, unexpected version) changes nothing at all.
use std::collections::BTreeMap;

use super::c12::{Facts, SpecSet};
use super::common::{self, Ctx};
use crate::source::verif_probe::gd::{self as rig, Ans, IdSel, Kiss, Mode, Rig, UidSel, View};

const WINDOW_NS: u128 = 5_000_000_000;

#[derive(Clone, Copy, Debug, PartialEq, Eq)]
enum Ev {
    Timer,
    Wait(u64), // ms
    Ans(Ans),
}

impl Ev {
    fn code(&self) -> String {
        match self {
            Ev::Timer => "T".into(),
            Ev::Wait(ms) => format!("W{ms}"),
            Ev::Ans(a) => a.code(),
        }
    }
    fn parse(s: &str) -> Option<Ev> {
        if s == "T" {
            Some(Ev::Timer)
        } else if let Some(ms) = s.strip_prefix('W') {
            ms.parse().ok().map(Ev::Wait)
        } else {
            Ans::parse(s).map(Ev::Ans)
        }
    }
}

fn alphabet(mode: Mode) -> Vec<Ev> {
    let mut v = vec![Ev::Timer, Ev::Wait(4900), Ev::Wait(200)];
    if !mode.nts() {
        for id in [IdSel::Match, IdSel::Stale, IdSel::Zero, IdSel::Random] {
            for (ver, marker) in [(4u8, false), (4, true), (5, false), (3, false)] {
                for m in [4u8, 3, 1] {
                    for (s, kiss) in [
                        (1u8, Kiss::Unknown),
                        (16, Kiss::Unknown),
                        (17, Kiss::Unknown),
                        (0, Kiss::Deny),
                        (0, Kiss::Rate),
                        (0, Kiss::Unknown),
                    ] {
                        v.push(Ev::Ans(Ans::plain(id, ver, marker, m, s, kiss)));
                    }
                }
            }
        }
    } else {
        for id in [IdSel::Match, IdSel::Stale, IdSel::Random] {
            for uid in [UidSel::Match, UidSel::Wrong, UidSel::Absent] {
                for ver in [4u8, 5] {
                    for (s, kiss) in [
                        (1u8, Kiss::Unknown),
                        (17, Kiss::Unknown),
                        (0, Kiss::Unknown),
                    ] {
                        v.push(Ev::Ans(Ans {
                            id,
                            version: ver,
                            marker: false,
                            mode: 4,
                            stratum: s,
                            kiss,
                            auth: true,
                            uid,
                        }));
                    }
                }
            }
        }
        for ver in [4u8, 5] {
            v.push(Ev::Ans(Ans {
                id: IdSel::Match,
                version: ver,
                marker: false,
                mode: 4,
                stratum: 1,
                kiss: Kiss::Unknown,
                auth: false,
                uid: UidSel::Match,
            }));
        }
    }
    v
}

#[derive(Default)]
struct Local(BTreeMap<&'static str, u64>);
impl Local {
    fn inc(&mut self, k: &'static str) {
        *self.0.entry(k).or_insert(0) += 1;
    }
    fn flush(self, ctx: &Ctx) {
        for (k, v) in self.0 {
            ctx.add(k, v);
        }
    }
}

/// The real source + everything the oracle remembers.
struct World {
    mode: Mode,
    rig: Rig,
    spec: SpecSet,
    /// measurements attributed to each emitted request
    per_request: Vec<u32>,
}

impl World {
    fn new(mode: Mode) -> World {
        World {
            mode,
            rig: Rig::new(mode),
            spec: SpecSet::initial(mode),
            per_request: Vec::new(),
        }
    }
    /// ns since the most recent request was emitted
    fn elapsed(&self) -> Option<u128> {
        self.rig.requests.last().map(|r| {
            tokio::time::Instant::now()
                .duration_since(r.sent_at)
                .as_nanos()
        })
    }
}

enum Step {
    NotApplicable,
    Ok(String),
    Violation(&'static str, String),
}

async fn step(w: &mut World, ev: &Ev, st: &mut Local) -> Step {
    match ev {
        Ev::Wait(ms) => {
            tokio::time::advance(std::time::Duration::from_millis(*ms)).await;
            Step::Ok("waited".into())
        }
        Ev::Timer => {
            let obs = w.rig.timer();
            match obs.sent {
                Some(i) => {
                    w.per_request.push(0);
                    let (ver, marker) = (w.rig.requests[i].version, w.rig.requests[i].marker);
                    if let Err(e) = w.spec.poll(ver, marker) {
                        // C12's subject; without a reference state C08 cannot continue
                        return Step::Violation("C08:sent-version", e);
                    }
                    st.inc("requests_sent");
                    Step::Ok(format!("sent v{ver}"))
                }
                None => {
                    st.inc("timers_without_request");
                    Step::Ok(format!("{:?}", obs.acts))
                }
            }
        }
        Ev::Ans(a) => {
            let Some(elapsed) = w.elapsed() else {
                return Step::NotApplicable;
            };
            if elapsed == WINDOW_NS {
                // exactly on the boundary: the statement does not say which side it is on
                return Step::NotApplicable;
            }
            let in_window = elapsed < WINDOW_NS;
            let id_ok =
                a.id == IdSel::Match && (!w.mode.nts() || (a.uid == UidSel::Match && a.auth));
            let before: View = w.rig.view();
            let spec_before = w.spec.clone();
            let Some((_bytes, obs)) = w.rig.deliver(a) else {
                return Step::NotApplicable;
            };
            let after: View = w.rig.view();
            let accepted = obs.accepted();
            let f = Facts {
                fresh: id_ok && in_window,
                version: a.version,
                marker: a.marker,
                usable: a.usable_fields(),
            };
            let open = spec_before.any_open();
            let version_ok = spec_before.expects(a.version);
            let version_maybe = version_ok || (a.version == 3 && spec_before.expects(4));

            // vacuity bookkeeping: which conjunct decided
            if accepted {
                st.inc("accepted");
                if a.version == 3 {
                    st.inc("accepted_v3_answer_to_v4_source");
                }
                if elapsed > 0 {
                    st.inc("accepted_late_but_in_window");
                }
            } else if !id_ok {
                st.inc("rejected_identifier");
            } else if !in_window {
                st.inc("rejected_late");
            } else if !open {
                st.inc("rejected_duplicate");
            } else if !version_ok {
                st.inc("rejected_version");
            } else if a.mode != 4 {
                st.inc("rejected_mode");
            } else if a.stratum == 0 {
                st.inc("rejected_kiss");
            } else if a.stratum > 16 {
                st.inc("rejected_stratum");
            } else {
                st.inc("rejected_other");
            }

            if let Err(e) = w.spec.answer(&f, accepted) {
                let class = if !accepted {
                    "C08:rejected-fresh-answer"
                } else if !id_ok {
                    "C08:accepted-wrong-identifier"
                } else if !in_window {
                    "C08:accepted-late"
                } else if !open {
                    "C08:accepted-duplicate"
                } else if !version_maybe {
                    "C08:accepted-unexpected-version"
                } else if a.mode != 4 {
                    "C08:accepted-non-server-mode"
                } else if a.stratum == 0 {
                    "C08:accepted-kiss"
                } else if a.stratum > 16 {
                    "C08:accepted-stratum"
                } else {
                    "C08:accepted-other"
                };
                return Step::Violation(
                    class,
                    format!("{} after {} ms: {e}", a.code(), elapsed / 1_000_000),
                );
            }
            if accepted {
                if obs.meas_calls != 2 || !obs.linked {
                    return Step::Violation(
                        "C08:measurement-shape",
                        format!(
                            "{}: {} handle_measurement calls, pair carries this datagram's timestamps: {}",
                            a.code(),
                            obs.meas_calls,
                            obs.linked
                        ),
                    );
                }
                let n = w.per_request.len();
                w.per_request[n - 1] += 1;
                if w.per_request[n - 1] > 1 {
                    return Step::Violation(
                        "C08:two-measurements-one-request",
                        format!("request #{n} yielded {} measurements", w.per_request[n - 1]),
                    );
                }
                if after.reach & 1 != 1 {
                    return Step::Violation(
                        "C08:reach-bit",
                        "measurement delivered but the reach bit is not set".to_string(),
                    );
                }
                if !obs.acts.is_empty() {
                    return Step::Violation(
                        "C08:answer-actions",
                        format!("accepted answer returned actions {:?}", obs.acts),
                    );
                }
            } else {
                if after.reach != before.reach {
                    return Step::Violation(
                        "C08:reach-bit",
                        format!(
                            "no measurement but reach changed {:#b} -> {:#b}",
                            before.reach, after.reach
                        ),
                    );
                }
                let not_fresh = !id_ok || !in_window || !open || !version_maybe;
                if not_fresh && (after != before || !obs.acts.is_empty()) {
                    return Step::Violation(
                        "C08:nonfresh-changes-state",
                        format!(
                            "{} is not a fresh answer (id_ok={id_ok} in_window={in_window} request_open={open} version_expected={version_maybe}) but changed the source: {:?} -> {:?}, actions {:?}",
                            a.code(),
                            before,
                            after,
                            obs.acts
                        ),
                    );
                }
                if not_fresh {
                    st.inc("nonfresh_left_state_untouched");
                }
            }
            Step::Ok(format!(
                "{}{:?}",
                if accepted { "accepted " } else { "not-used " },
                obs.acts
            ))
        }
    }
}

/// Canonical key. Components and abstractions:
/// * `view`: complete behavioural private state of the source (see C12's key for what is
///   left out and why). `tries` saturated at 3 (only `tries >= 3` is evaluated). The pending
///   request's validity is kept as exact remaining nanoseconds while valid and collapsed to
///   "expired" afterwards (the code only evaluates `validity >= now`; an expired request can
///   never become valid again because time is monotone).
/// * `spec`: set of reference states (expected version, request open).
/// * `elapsed`: time since the most recent request, exact inside the window, collapsed to
///   "outside" beyond it (the oracle only compares it with the window).
/// * `nreq` (0, 1, >= 2): which identifier selectors are applicable.
/// * `used`: whether the most recent request already yielded a measurement (oracle counter).
#[derive(Clone, Debug, PartialEq, Eq, Hash)]
struct Key {
    view: View,
    spec: SpecSet,
    elapsed: Option<u128>,
    nreq: u8,
    used: u32,
}

fn key_of(w: &World) -> Key {
    let mut view = w.rig.view();
    view.tries = view.tries.min(3);
    view.pending = view.pending.map(|ns| if ns < 0 { -1 } else { ns });
    Key {
        view,
        spec: w.spec.clone(),
        elapsed: w
            .elapsed()
            .map(|e| if e > WINDOW_NS { u128::MAX } else { e }),
        nreq: w.rig.requests.len().min(2) as u8,
        used: w.per_request.last().copied().unwrap_or(0),
    }
}

fn trace_of(mode: Mode, alpha: &[Ev], hist: &[u16], last: Option<&Ev>) -> String {
    let mut codes: Vec<String> = hist.iter().map(|e| alpha[*e as usize].code()).collect();
    if let Some(e) = last {
        codes.push(e.code());
    }
    format!("{};{}", mode.name(), codes.join(","))
}

async fn replay_prefix(mode: Mode, alpha: &[Ev], hist: &[u16]) -> World {
    let mut w = World::new(mode);
    let mut sink = Local::default();
    for e in hist {
        let _ = step(&mut w, &alpha[*e as usize], &mut sink).await;
    }
    w
}

fn explore(ctx: &Ctx, mode: Mode, max_depth: u64) -> (rig::LevelStats, bool) {
    let alpha = alphabet(mode);
    let capped = std::sync::atomic::AtomicBool::new(false);
    let init_key = super::block_on_paused(async { key_of(&World::new(mode)) });
    let alpha_ref = &alpha;
    let stats = rig::level_bfs(
        init_key,
        max_depth,
        |rt, hist| {
            rt.block_on(async {
                let mut st = Local::default();
                let mut out = Vec::new();
                let w0 = replay_prefix(mode, alpha_ref, hist).await;
                let base = key_of(&w0);
                let mut cur = Some(w0);
                for (ei, ev) in alpha_ref.iter().enumerate() {
                    if cur.is_none() {
                        cur = Some(replay_prefix(mode, alpha_ref, hist).await);
                    }
                    let w = cur.as_mut().unwrap();
                    match step(w, ev, &mut st).await {
                        Step::NotApplicable => {}
                        Step::Violation(class, what) => {
                            ctx.violation(class, what, trace_of(mode, alpha_ref, hist, Some(ev)));
                            st.inc("transitions_violating");
                            cur = None;
                        }
                        Step::Ok(_) => {
                            let k = key_of(w);
                            if k != base {
                                ctx.distinct(common::hash_of(&(mode, &k)));
                                cur = None;
                            } else {
                                st.inc("self_loops");
                            }
                            out.push((ei as u16, k));
                        }
                    }
                }
                st.flush(ctx);
                out
            })
        },
        |depth, width| {
            if ctx.over_budget() {
                ctx.cap_hit(&format!(
                    "mode {}: budget used up before depth {} (frontier {}); complete below",
                    mode.name(),
                    depth,
                    width
                ));
                capped.store(true, std::sync::atomic::Ordering::Relaxed);
                return false;
            }
            true
        },
    );
    ctx.add("states", stats.states);
    ctx.add("transitions", stats.transitions);
    ctx.add("evaluations", stats.transitions);
    ctx.max("max_depth", stats.max_depth);
    ctx.note(
        &format!("mode_{}", mode.name()),
        &format!(
            "alphabet {} events, {} states, {} transitions, depth {}, fixpoint {}",
            alpha.len(),
            stats.states,
            stats.transitions,
            stats.max_depth,
            stats.fixpoint
        ),
    );
    (stats, capped.load(std::sync::atomic::Ordering::Relaxed))
}

fn replay(ctx: &Ctx, trace: &str) -> String {
    let Some((m, evs)) = trace.split_once(';') else {
        return "bad trace".into();
    };
    let Some(mode) = Mode::parse(m) else {
        return "bad mode".into();
    };
    super::block_on_paused(async {
        let mut w = World::new(mode);
        let mut st = Local::default();
        let mut obs = Vec::new();
        for code in evs.split(',').filter(|s| !s.is_empty()) {
            let Some(ev) = Ev::parse(code) else {
                obs.push(format!("{code}=?"));
                continue;
            };
            match step(&mut w, &ev, &mut st).await {
                Step::NotApplicable => obs.push(format!("{code}=n/a")),
                Step::Ok(o) => obs.push(format!(
                    "{code}={o}|meas={}",
                    w.rig.total_measurement_calls()
                )),
                Step::Violation(class, what) => {
                    ctx.violation(class, what.clone(), trace);
                    obs.push(format!("{code}=VIOLATION {class}: {what}"));
                    break;
                }
            }
        }
        obs.join(" ; ")
    })
}

#[test]
fn check() {
    let ctx = Ctx::new("C08");
    if let Some(t) = common::replay_trace() {
        let a = replay(&ctx, &t);
        let b = replay(&ctx, &t);
        common::report_replay("C08", &a, &b, ctx.violation_count() > 0);
        return;
    }
    let depth = if ctx.quick() { 6 } else { 10 };
    ctx.rule(&format!(
        "Every event sequence of length <= {depth} (merged on a canonical key) over the real NtpSource in modes plain V4, V5, \
         automatic, NTS-V4, NTS-V5. Events: timer, wait 4.9 s, wait 0.2 s; plain: 288 answer datagrams = identifier \
         {{matching, previous request, zero, unrelated}} x {{v3, v4, v4+marker, v5}} x mode {{server, client, symmetric}} x \
         {{stratum 1, 16, 17, KISS DENY, KISS RATE, KISS XXXX}}; NTS: 54 authenticated answers = identifier {{matching, previous, \
         unrelated}} x UID {{matching, wrong, absent}} x {{v4, v5}} x {{usable, stratum 17, KISS}} + 2 unauthenticated. \
         Distinct & non-trivial = a (mode, canonical state) reached by a state-changing transition."
    ));
    ctx.assume("the poll window is 5 s (the statement gives no number); elapsed times used are 0, 0.2 k, 4.9 + 0.2 k s — never exactly 5 s");
    ctx.assume("'expected protocol version' is the one the reference automaton of C12 (written from the C12 statement) expects; an NTPv3 answer to a source expecting NTPv4 may be used or ignored (statement silent; observed: plain-V4 state uses it, upgrade state ignores it)");
    ctx.assume("a measurement = one (outgoing, incoming) pair of handle_measurement calls");
    let mut complete = true;
    for mode in Mode::ALL {
        let (_s, capped) = explore(&ctx, mode, depth);
        complete &= !capped;
    }
    ctx.sample("v4;T,A:M:4:-:4:1:X:-:-,A:M:4:-:4:1:X:-:- -> first accepted, byte-identical duplicate ignored");
    ctx.sample("v4;T,W4900,W200,A:M:4:-:4:1:X:-:- -> 5.1 s after the request: ignored");
    ctx.sample("v4;T,T,A:S:4:-:4:1:X:-:- -> answer to the previous request: ignored");
    ctx.sample("auto;T,A:M:4:m:4:0:D:-:-,A:M:5:-:4:1:X:-:- -> KISS with marker switches to v5; the v5 answer to the still-open request is then the expected version");
    ctx.exhaustive(complete);
    ctx.finish();
}
