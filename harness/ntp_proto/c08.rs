//! C08: not implemented yet.
