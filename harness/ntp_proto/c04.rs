//! C04: not implemented yet.
