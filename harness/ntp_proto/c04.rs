//! C04 — leap-second announcements follow a strict majority of the selected sources.
//!
//! Engine E-IN, three drivers:
//!
//! (v) **vote**: every leap vector over {NoWarning, Leap61, Leap59, Unknown}^n, n <= 7
//!     (quick) / 9 (thorough), handed as the *selection* to the real `combine` (which calls
//!     the private `vote_leap`) through the kalman probe.
//! (s) **select + vote**: every vector of n <= 4 (quick) / 5 (thorough) candidates over
//!     {5 leap values} x {agreeing group, outlier group} through the real `select` then
//!     `combine`: the vote must be a function of the selected sources only.
//! (e) **end to end**: fresh `KalmanClockController` over a recording clock; the previous
//!     indicator (initial Unknown / NoWarning / Leap61 / Leap59) is first established
//!     through the API with a separate source that is then removed; then n <= 4 (quick) /
//!     5 (thorough) sources over {5 leap values} x {agreeing, outlier, agreeing but flagged
//!     unusable}, one real measurement each through the real source controllers, and one
//!     deciding `source_message`. Observed: the `status_update` calls on the clock (what
//!     the kernel gets) and `TimeSnapshot.leap_indicator` (what clients are told).
//!
//! Oracle (from the statement): selected = the larger of the usable synchronised groups
//! (none on a draw); known = selected sources whose leap is not Unknown; an indicator l in
//! {NoWarning, Leap61, Leap59} wins iff 2*votes(l) > known. Winner => exactly one
//! `status_update(l)` and snapshot = l; no winner => no call and the previous value kept.
use super::c03::{
    Call, Ctl, OneWay, RecClock, Snap, TwoWay, steering_calls, t0, two_way_message, whole_seconds,
};
use super::common::{self, Ctx};
use crate::{
    ClockId,
    algorithm::{AlgorithmConfig, InternalTimeSyncController, KalmanSourceMessage},
    config::SynchronizationConfig,
    packet::NtpLeapIndicator,
};

const LEAPS: [NtpLeapIndicator; 5] = [
    NtpLeapIndicator::NoWarning,
    NtpLeapIndicator::Leap61,
    NtpLeapIndicator::Leap59,
    NtpLeapIndicator::Unknown,
    NtpLeapIndicator::Unsynchronized,
];
const UNKNOWN: usize = 3;
const UNSYNC: usize = 4;

fn code(l: NtpLeapIndicator) -> usize {
    LEAPS.iter().position(|x| *x == l).unwrap()
}

/// The statement's vote over the leap codes of the selected sources.
fn winner(selected: &[usize]) -> Option<usize> {
    let known = selected.iter().filter(|l| **l != UNKNOWN).count();
    let mut w = None;
    for l in 0..3 {
        let votes = selected.iter().filter(|x| **x == l).count();
        if 2 * votes > known {
            assert!(w.is_none(), "two strict majorities");
            w = Some(l);
        }
    }
    w
}

fn words(xs: &[usize]) -> String {
    xs.iter()
        .map(|x| x.to_string())
        .collect::<Vec<_>>()
        .join(",")
}

// ---------------------------------------------------------------------------------
// (v) vote on a given selection
// ---------------------------------------------------------------------------------

fn v_case(
    leaps: &[usize],
) -> (
    Option<usize>,
    Result<(bool, Option<usize>), String>,
    Vec<(&'static str, String)>,
) {
    let want = winner(leaps);
    let sel: Vec<Snap> = leaps
        .iter()
        .enumerate()
        .map(|(i, l)| (i as u64, 0.0, 1.0 / 1024.0, 1.0 / 1024.0, None, LEAPS[*l]))
        .collect();
    let algo = AlgorithmConfig::default();
    let got =
        common::catch(|| algo.verif_gb_combine_leap(&sel)).map(|(some, l)| (some, l.map(code)));
    let mut viol = Vec::new();
    match &got {
        Err(e) => viol.push(("C04:vote-panic", format!("combine panicked: {e}"))),
        Ok((some, l)) => {
            if *some == leaps.is_empty() {
                viol.push((
                    "C04:wrong-indicator",
                    "combine() result presence does not match a non-empty selection".to_string(),
                ));
            }
            if *l != want {
                let class = if want.is_none() {
                    "C04:no-majority-indicator-set"
                } else {
                    "C04:wrong-indicator"
                };
                viol.push((
                    class,
                    format!(
                        "vote over {:?} gives {:?}, strict majority of the known ones says {:?}",
                        leaps, l, want
                    ),
                ));
            }
        }
    }
    (want, got, viol)
}

fn run_vote(ctx: &Ctx, n: usize) {
    let total = common::pow(4, n);
    let mut by_outcome = [0u64; 4];
    for x in 0..total {
        let leaps = common::word_of(x, 4, n);
        let (want, _got, viol) = v_case(&leaps);
        ctx.inc("evaluations");
        ctx.inc("vote_cases");
        ctx.inc("impl_calls");
        by_outcome[want.unwrap_or(3)] += 1;
        if n >= 2 {
            ctx.distinct(common::hash_of(&("v", &leaps)));
        }
        for (class, what) in viol {
            ctx.violation(
                class,
                format!("vote n={n}: {what}"),
                format!("v;leaps={}", words(&leaps)),
            );
        }
        if n == 5 && x % 211 == 7 {
            ctx.sample(format!(
                "vote over {:?} -> {:?}",
                leaps.iter().map(|l| LEAPS[*l]).collect::<Vec<_>>(),
                want.map(|l| LEAPS[l])
            ));
        }
    }
    ctx.add("vote_expect_nowarning", by_outcome[0]);
    ctx.add("vote_expect_leap61", by_outcome[1]);
    ctx.add("vote_expect_leap59", by_outcome[2]);
    ctx.add("vote_expect_no_majority", by_outcome[3]);
}

// ---------------------------------------------------------------------------------
// (s) select + vote
// ---------------------------------------------------------------------------------

/// symbol = leap * 2 + group (0 = agreeing around 0, 1 = outlier around 100/1024 s)
fn s_expected(word: &[usize]) -> (Vec<usize>, Option<usize>) {
    let synced = |g: usize| -> Vec<usize> {
        word.iter()
            .enumerate()
            .filter(|(_, s)| **s % 2 == g && **s / 2 != UNSYNC)
            .map(|(i, _)| i)
            .collect()
    };
    let (a, o) = (synced(0), synced(1));
    let sel = if a.len() > o.len() {
        a
    } else if o.len() > a.len() {
        o
    } else {
        vec![]
    };
    let leaps: Vec<usize> = sel.iter().map(|i| word[*i] / 2).collect();
    let w = if sel.is_empty() { None } else { winner(&leaps) };
    (sel, w)
}

fn s_case(
    word: &[usize],
) -> (
    Vec<usize>,
    Option<usize>,
    String,
    Vec<(&'static str, String)>,
) {
    let (want_sel, want) = s_expected(word);
    let cands: Vec<Snap> = word
        .iter()
        .enumerate()
        .map(|(i, s)| {
            let off = if s % 2 == 0 { 0.0 } else { 100.0 / 1024.0 };
            (
                i as u64,
                off,
                2.0 / 1024.0,
                16.0 / 1024.0,
                None,
                LEAPS[s / 2],
            )
        })
        .collect();
    let algo = AlgorithmConfig::default();
    let got = common::catch(|| algo.verif_gb_select_combine(1, &cands));
    let mut viol = Vec::new();
    let obs;
    match got {
        Err(e) => {
            obs = format!("panic {e}");
            viol.push(("C04:vote-panic", format!("select/combine panicked: {e}")));
        }
        Ok((selected, used, leap)) => {
            let mut sel: Vec<usize> = selected.iter().map(|x| *x as usize).collect();
            sel.sort_unstable();
            let leap = leap.map(code);
            obs = format!("selected={sel:?} used={used:?} leap={leap:?}");
            if sel != want_sel {
                viol.push((
                    "C04:selection-mismatch",
                    format!("selected {sel:?}, the larger synchronised group is {want_sel:?}"),
                ));
            } else if leap != want {
                let class = if want.is_none() {
                    "C04:no-majority-indicator-set"
                } else {
                    "C04:wrong-indicator"
                };
                viol.push((
                    class,
                    format!(
                        "indicator {leap:?} but the selected sources {want_sel:?} vote {want:?}"
                    ),
                ));
            }
        }
    }
    (want_sel, want, obs, viol)
}

fn run_select_vote(ctx: &Ctx, n: usize) {
    let total = common::pow(10, n);
    const CH: u64 = 1024;
    common::par_for(total.div_ceil(CH), 1, |c| {
        let mut cases = 0u64;
        let mut with_unselected = 0u64;
        let mut winners = 0u64;
        let mut distinct = Vec::new();
        for x in c * CH..((c + 1) * CH).min(total) {
            let word = common::word_of(x, 10, n);
            let (sel, want, _obs, viol) = s_case(&word);
            cases += 1;
            if !sel.is_empty() && sel.len() < n {
                with_unselected += 1;
                distinct.push(common::hash_of(&("s", &word)));
            }
            if want.is_some() {
                winners += 1;
            }
            for (class, what) in viol {
                ctx.violation(
                    class,
                    format!("select+vote n={n}: {what}"),
                    format!("s;syms={}", words(&word)),
                );
            }
        }
        ctx.add("evaluations", cases);
        ctx.add("impl_calls", 2 * cases);
        ctx.add("selectvote_cases", cases);
        ctx.add("selectvote_cases_with_unselected_sources", with_unselected);
        ctx.add("selectvote_expect_majority", winners);
        ctx.distinct_many(distinct);
    });
}

// ---------------------------------------------------------------------------------
// (e) end to end
// ---------------------------------------------------------------------------------

/// symbol = leap * 3 + role; role 0 = agreeing (offset 0 s), 1 = outlier (offset 30 s),
/// 2 = agreeing but flagged unusable
const ROLES: usize = 3;
/// previous indicator: 0 = initial (Unknown after take_control), 1..=3 established NoWarning/Leap61/Leap59
const PREVS: usize = 4;

fn e_expected(word: &[usize]) -> (Vec<u64>, Option<usize>) {
    let group = |role: usize| -> Vec<u64> {
        word.iter()
            .enumerate()
            .filter(|(_, s)| **s % ROLES == role && **s / ROLES != UNSYNC)
            .map(|(i, _)| i as u64)
            .collect()
    };
    let (a, o) = (group(0), group(1));
    let sel = if a.len() > o.len() {
        a
    } else if o.len() > a.len() {
        o
    } else {
        vec![]
    };
    let leaps: Vec<usize> = sel.iter().map(|i| word[*i as usize] / ROLES).collect();
    let w = if sel.is_empty() { None } else { winner(&leaps) };
    (sel, w)
}

fn e_algo() -> AlgorithmConfig {
    AlgorithmConfig {
        maximum_source_uncertainty: 4.0,
        range_statistical_weight: 0.0,
        range_delay_weight: 1.0,
        ..AlgorithmConfig::default()
    }
}

#[derive(Debug, Clone, PartialEq)]
struct EObs {
    prev_established: usize,
    early_status: usize,
    early_leap: usize,
    status: Vec<usize>,
    snapshot_leap: usize,
    controller_leap: usize,
    used: Option<Vec<u64>>,
    steered: bool,
}

fn e_run(word: &[usize], prev: usize, trigger: usize) -> EObs {
    let clock = RecClock::new(t0());
    let sync = SynchronizationConfig {
        minimum_agreeing_sources: 1,
        ..SynchronizationConfig::default()
    };
    let mut ctl = Ctl::new(clock.clone(), sync, e_algo()).expect("controller");
    ctl.take_control().expect("take_control");
    // establish the previous indicator through the API, with a source that then goes away
    if prev > 0 {
        let (src, m) = two_way_message(&mut ctl, 1000, 0, 1, LEAPS[prev - 1]);
        ctl.source_update(ClockId(1000), true);
        ctl.source_message(ClockId(1000), m.expect("snapshot"));
        ctl.remove_source(ClockId(1000));
        drop(src);
    }
    let prev_established = code(ctl.verif_gb_timedata().leap_indicator);
    clock.take();
    let mut keep: Vec<TwoWay> = Vec::new();
    let mut msgs: Vec<KalmanSourceMessage> = Vec::new();
    for (i, s) in word.iter().enumerate() {
        let off = if s % ROLES == 1 { 30 } else { 0 };
        let (src, m) = two_way_message(&mut ctl, i as u64, off, 1, LEAPS[s / ROLES]);
        keep.push(src);
        msgs.push(m.expect("snapshot"));
    }
    for i in 0..word.len() {
        ctl.source_update(ClockId(i as u64), false);
    }
    for (i, m) in msgs.iter().enumerate() {
        ctl.source_message(ClockId(i as u64), *m);
    }
    let early = clock.take();
    let early_leap = code(ctl.verif_gb_timedata().leap_indicator);
    for (i, s) in word.iter().enumerate() {
        ctl.source_update(ClockId(i as u64), s % ROLES != 2);
    }
    let u = ctl.source_message(ClockId(trigger as u64), msgs[trigger]);
    let log = clock.take();
    EObs {
        prev_established,
        early_status: early
            .iter()
            .filter(|c| matches!(c, Call::Status(_)))
            .count(),
        early_leap,
        status: log
            .iter()
            .filter_map(|c| {
                if let Call::Status(l) = c {
                    Some(code(*l))
                } else {
                    None
                }
            })
            .collect(),
        snapshot_leap: u
            .time_snapshot
            .map(|t| code(t.leap_indicator))
            .unwrap_or(usize::MAX),
        controller_leap: code(ctl.verif_gb_timedata().leap_indicator),
        used: u.used_sources.map(|v| {
            let mut v: Vec<u64> = v.iter().map(|c| c.0).collect();
            v.sort_unstable();
            v
        }),
        steered: steering_calls(&log) > 0,
    }
}

fn e_judge(word: &[usize], prev: usize, o: &EObs) -> Vec<(&'static str, String)> {
    let mut out = Vec::new();
    let prev_code = if prev == 0 { UNKNOWN } else { prev - 1 };
    assert_eq!(
        o.prev_established, prev_code,
        "harness: could not establish the previous indicator"
    );
    let (want_sel, want) = e_expected(word);
    if o.early_status > 0 || o.early_leap != prev_code {
        out.push((
            "C04:unselected-source-influence",
            format!("indicator touched ({} status_update calls, snapshot {:?}) while every source was flagged unusable", o.early_status, LEAPS[o.early_leap]),
        ));
    }
    if o.used.clone().unwrap_or_default() != want_sel {
        out.push((
            "C04:selection-mismatch",
            format!(
                "used {:?}, the larger usable synchronised group is {want_sel:?}",
                o.used
            ),
        ));
        return out;
    }
    if o.snapshot_leap != o.controller_leap {
        out.push((
            "C04:kernel-advertised-differ",
            "returned time snapshot and controller state disagree".to_string(),
        ));
    }
    match want {
        Some(l) => {
            if o.status != [l] {
                out.push((
                    "C04:wrong-indicator",
                    format!(
                        "selected {want_sel:?} vote {:?} but status_update calls were {:?}",
                        LEAPS[l],
                        o.status.iter().map(|x| LEAPS[*x]).collect::<Vec<_>>()
                    ),
                ));
            }
            if o.snapshot_leap != l && o.status == [l] {
                out.push((
                    "C04:kernel-advertised-differ",
                    format!(
                        "selected {want_sel:?} vote {:?} but the advertised snapshot says {:?}",
                        LEAPS[l],
                        LEAPS.get(o.snapshot_leap)
                    ),
                ));
            }
        }
        None => {
            if !o.status.is_empty() {
                out.push((
                    "C04:no-majority-indicator-set",
                    format!("no strict majority among selected {want_sel:?} but status_update({:?}) was called", o.status.iter().map(|x| LEAPS[*x]).collect::<Vec<_>>()),
                ));
            }
            if o.snapshot_leap != prev_code {
                out.push((
                    "C04:previous-not-kept",
                    format!("no strict majority among selected {want_sel:?}: advertised indicator changed from {:?} to {:?}", LEAPS[prev_code], LEAPS.get(o.snapshot_leap)),
                ));
            }
        }
    }
    out
}

fn e_trace(word: &[usize], prev: usize, trigger: usize) -> String {
    format!("e;prev={prev};trig={trigger};syms={}", words(word))
}

fn run_e2e(ctx: &Ctx, n: usize) {
    let k = LEAPS.len() * ROLES;
    let total = common::pow(k, n);
    const CH: u64 = 128;
    common::par_for(total.div_ceil(CH), 1, |c| {
        super::block_on_paused(async {
            let mut cases = 0u64;
            let mut set = [0u64; 3];
            let mut kept = 0u64;
            let mut kept_with_selection = 0u64;
            let mut steered_too = 0u64;
            let mut calls = 0u64;
            let mut distinct = Vec::new();
            for x in c * CH..((c + 1) * CH).min(total) {
                let word = common::word_of(x, k, n);
                let (want_sel, want) = e_expected(&word);
                for prev in 0..PREVS {
                    for trigger in 0..n {
                        cases += 1;
                        calls += 3 * n as u64 + 6;
                        match common::catch(|| e_run(&word, prev, trigger)) {
                            Err(e) => ctx.violation(
                                "C04:vote-panic",
                                format!("controller panicked (daemon would abort): {e}"),
                                e_trace(&word, prev, trigger),
                            ),
                            Ok(o) => {
                                match want {
                                    Some(l) => set[l] += 1,
                                    None => {
                                        kept += 1;
                                        if !want_sel.is_empty() {
                                            kept_with_selection += 1;
                                        }
                                    }
                                }
                                if o.steered && want.is_some() {
                                    steered_too += 1;
                                }
                                for (class, what) in e_judge(&word, prev, &o) {
                                    ctx.violation(
                                        class,
                                        format!("end-to-end n={n}: {what}"),
                                        e_trace(&word, prev, trigger),
                                    );
                                }
                                if x % 7919 == 11
                                    && trigger == 0
                                    && prev == (x as usize / 7919) % PREVS
                                {
                                    ctx.sample(format!(
                                        "e2e {} -> used {:?}, status_update {:?}, advertised {:?}",
                                        e_trace(&word, prev, trigger),
                                        o.used,
                                        o.status.iter().map(|x| LEAPS[*x]).collect::<Vec<_>>(),
                                        LEAPS.get(o.snapshot_leap)
                                    ));
                                }
                            }
                        }
                    }
                    if !want_sel.is_empty() && want_sel.len() < n {
                        distinct.push(common::hash_of(&("e", &word, prev)));
                    }
                }
            }
            ctx.add("evaluations", cases);
            ctx.add("impl_calls", calls);
            ctx.add("e2e_cases", cases);
            ctx.add("e2e_expect_set_nowarning", set[0]);
            ctx.add("e2e_expect_set_leap61", set[1]);
            ctx.add("e2e_expect_set_leap59", set[2]);
            ctx.add("e2e_expect_previous_kept", kept);
            ctx.add(
                "e2e_expect_previous_kept_despite_selection",
                kept_with_selection,
            );
            ctx.add(
                "e2e_indicator_set_and_clock_steered_same_update",
                steered_too,
            );
            ctx.distinct_many(distinct);
        });
    });
}

// ---------------------------------------------------------------------------------

fn field<'a>(parts: &'a [&'a str], key: &str) -> Option<&'a str> {
    parts
        .iter()
        .find_map(|p| p.strip_prefix(key).and_then(|r| r.strip_prefix('=')))
}

fn replay(ctx: &Ctx, trace: &str) -> String {
    let parts: Vec<&str> = trace.split(';').collect();
    let list = |key: &str| -> Vec<usize> {
        field(&parts, key)
            .unwrap_or("")
            .split(',')
            .filter_map(|s| s.parse().ok())
            .collect()
    };
    match parts[0] {
        "v" => {
            let leaps = list("leaps");
            if leaps.iter().any(|l| *l > 3) {
                return "bad trace".into();
            }
            let (want, got, viol) = v_case(&leaps);
            for (c, w) in &viol {
                ctx.violation(c, w.clone(), trace);
            }
            format!("got={got:?} want={want:?}")
        }
        "s" => {
            let word = list("syms");
            if word.iter().any(|s| *s >= 10) {
                return "bad trace".into();
            }
            let (sel, want, obs, viol) = s_case(&word);
            for (c, w) in &viol {
                ctx.violation(c, w.clone(), trace);
            }
            format!("{obs} want_selected={sel:?} want={want:?}")
        }
        _ => {
            let word = list("syms");
            let prev: usize = field(&parts, "prev")
                .and_then(|s| s.parse().ok())
                .unwrap_or(0);
            let trigger: usize = field(&parts, "trig")
                .and_then(|s| s.parse().ok())
                .unwrap_or(0);
            if word.is_empty()
                || word.iter().any(|s| *s >= LEAPS.len() * ROLES)
                || prev >= PREVS
                || trigger >= word.len()
            {
                return "bad trace".into();
            }
            match super::block_on_paused(async { common::catch(|| e_run(&word, prev, trigger)) }) {
                Err(e) => {
                    ctx.violation("C04:vote-panic", e.clone(), trace);
                    format!("panic {e}")
                }
                Ok(o) => {
                    let viol = e_judge(&word, prev, &o);
                    for (c, w) in &viol {
                        ctx.violation(c, w.clone(), trace);
                    }
                    format!(
                        "{o:?} violations={:?}",
                        viol.iter().map(|v| v.0).collect::<Vec<_>>()
                    )
                }
            }
        }
    }
}

#[test]
fn check() {
    let ctx = Ctx::new("C04");
    if let Some(t) = common::replay_trace() {
        let a = replay(&ctx, &t);
        let b = replay(&ctx, &t);
        common::report_replay("C04", &a, &b, ctx.violation_count() > 0);
        return;
    }
    ctx.rule(
        "(v) every leap vector over {NoWarning,Leap61,Leap59,Unknown}^n, n<=7 quick / 9 thorough, as the selection handed to the real combine()/vote_leap; \
         (s) every vector of n<=4 quick / 5 thorough candidates over {5 leap values} x {agreeing, outlier} through the real select()+combine(); \
         (e) every vector of n<=4 quick / 5 thorough sources over {5 leap values} x {agreeing, outlier, agreeing-but-unusable} x previous indicator \
         {initial Unknown, NoWarning, Leap61, Leap59} x which source's message triggers the decision, through a fresh KalmanClockController with a \
         recording clock. Non-trivial & distinct = leap vector of >= 2 sources (v) / case in which some but not all sources are selected (s, e).",
    );
    ctx.assume("'sources used for synchronisation' = the selection of C03 (the larger usable synchronised agreeing group; the two groups are far apart so there are no interval ties)");
    ctx.assume("the previous indicator can only be one the controller can reach through its API: Unknown (start) or a voted NoWarning/Leap61/Leap59");
    let vmax = if ctx.quick() { 7 } else { 9 };
    for n in 0..=vmax {
        run_vote(&ctx, n);
    }
    ctx.set("vote_max_sources", vmax as u64);
    let smax = if ctx.quick() { 4 } else { 5 };
    for n in 1..=smax {
        run_select_vote(&ctx, n);
    }
    ctx.set("selectvote_max_sources", smax as u64);
    let emax = if ctx.quick() { 4 } else { 5 };
    let mut done = 0;
    for n in 1..=emax {
        if ctx.over_budget() {
            ctx.cap_hit(&format!("end-to-end n={n} not started; n<={done} complete"));
            break;
        }
        run_e2e(&ctx, n);
        done = n;
    }
    ctx.set("e2e_max_sources", done as u64);
    ctx.exhaustive(true);
    ctx.finish();
}
