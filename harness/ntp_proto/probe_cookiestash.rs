#[cfg(any(not(verif_select), verif_gc))]
#[path = "/verif/harness/ntp_proto/gc_probe_cookiestash.rs"]
pub(crate) mod gc;
