//! C14: not implemented yet.
