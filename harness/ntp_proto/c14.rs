//! C14 — Building a poll request never fails.
//!
//! Engine E-IN, fully exhaustive over the stated finite space: cookie length 0..=1024
//! (the cookie that is about to be sent) x stash fill 0..=8 x {AES-SIV-CMAC-256, -512}
//! x the four `ProtocolVersion`s x poll exponent {min, max}, plus the 8 non-NTS cases
//! (version x poll). Each case is one call of the real `NtpSource::handle_timer` on a
//! fresh source; a panic is caught (= the daemon would abort).
//!
//! Oracle (from the statement): the result is either exactly `Reset`, or `Send(b)` +
//! `SetTimer` with `b.len() <= 1024` where `b` is a well-formed request: checked at byte
//! level by the harness (header version/mode/poll, extension fields framed to the end,
//! exactly one cookie field carrying the cookie, authenticator verifying under C2S) and,
//! as a second opinion, by the crate's own decoder and the real `Server`.
use std::sync::Mutex;

use super::c07::rig::*;
use super::common::{self, Ctx};
use crate::packet::NtpPacket;
use crate::source::ProtocolVersion;
use crate::time_types::{PollInterval, PollIntervalLimits};

#[derive(Clone, Copy, Debug)]
struct Case {
    cfg: Cfg,
    nts: bool,
    poll_max: bool,
    fill: usize,
    len: usize,
}

fn trace_of(c: &Case) -> String {
    format!(
        "{}|{}|{}|{}|{}",
        c.cfg.name(),
        if c.nts { "nts" } else { "plain" },
        if c.poll_max { "max" } else { "min" },
        c.fill,
        c.len
    )
}
fn parse_case(t: &str) -> Option<Case> {
    let p: Vec<&str> = t.split('|').collect();
    if p.len() != 5 {
        return None;
    }
    Some(Case {
        cfg: Cfg::parse(p[0])?,
        nts: p[1] == "nts",
        poll_max: p[2] == "max",
        fill: p[3].parse().ok()?,
        len: p[4].parse().ok()?,
    })
}

fn cookie_of(len: usize) -> Vec<u8> {
    (0..len).map(|i| (i % 251) as u8 ^ 0x5c).collect()
}

#[derive(Debug, PartialEq, Eq, Clone)]
enum Res {
    Send(usize),
    Reset,
    Bad(String, String),
}

fn run_case(c: &Case) -> Res {
    let limits = PollIntervalLimits::default();
    let desired = if c.poll_max { limits.max } else { limits.min };
    let cookie = cookie_of(c.len);
    let cookies = if c.nts {
        let mut v = Vec::new();
        if c.fill > 0 {
            v.push(cookie.clone());
            for i in 1..c.fill {
                v.push(vec![i as u8; 100]);
            }
        }
        Some(v)
    } else {
        None
    };
    super::block_on_paused(async {
        let mut rig = Rig::with_cookies(c.cfg, cookies, limits, desired);
        match rig.timer() {
            Out::Panic(e) => Res::Bad("C14:panic".into(), format!("handle_timer panicked: {e}")),
            Out::Reset => {
                if !c.nts {
                    return Res::Bad(
                        "C14:unexpected-action".into(),
                        "a non-NTS source asked for a reset on its first poll".into(),
                    );
                }
                Res::Reset
            }
            Out::Demobilize => Res::Bad(
                "C14:unexpected-action".into(),
                "Demobilize from handle_timer on a fresh source".into(),
            ),
            Out::Other(s) => Res::Bad(
                "C14:unexpected-action".into(),
                format!("unexpected action list {s}"),
            ),
            Out::Send(b, timer) => {
                if c.nts && c.fill == 0 {
                    return Res::Bad(
                        "C14:malformed-request".into(),
                        "request sent without holding a cookie".into(),
                    );
                }
                if b.len() > 1024 {
                    return Res::Bad(
                        "C14:oversize".into(),
                        format!("request of {} bytes", b.len()),
                    );
                }
                if let Err(e) = well_formed(&rig, c, &b, desired, &cookie) {
                    return Res::Bad("C14:malformed-request".into(), e);
                }
                let secs = timer.as_secs_f64() / (1u64 << desired.as_log()) as f64;
                if !(1.0..=1.06).contains(&secs) {
                    return Res::Bad(
                        "C14:malformed-request".into(),
                        format!("timer {timer:?} for poll exponent {}", desired.as_log()),
                    );
                }
                // second opinions: crate decoder and the real server
                let dec = if c.nts {
                    NtpPacket::deserialize(&b, rig.c2s.as_ref()).is_ok()
                } else {
                    NtpPacket::deserialize(&b, &crate::packet::NoCipher).is_ok()
                };
                if !dec {
                    return Res::Bad(
                        "C14:machinery".into(),
                        "harness walker accepts the request but the crate's decoder rejects it"
                            .into(),
                    );
                }
                if rig
                    .exchanges
                    .last()
                    .and_then(|x| x.genuine.as_ref())
                    .is_none()
                {
                    return Res::Bad(
                        "C14:machinery".into(),
                        "the real server ignored the request".into(),
                    );
                }
                Res::Send(b.len())
            }
        }
    })
}

fn well_formed(
    rig: &Rig,
    c: &Case,
    b: &[u8],
    desired: PollInterval,
    cookie: &[u8],
) -> Result<(), String> {
    if b.len() < 48 {
        return Err(format!("{} bytes", b.len()));
    }
    let vn = (b[0] >> 3) & 7;
    let mode = b[0] & 7;
    // which of the two framings is used is a matter of version negotiation (C12), e.g. a
    // fresh `UpgradedToV5` source falls back to NTPv4 before its first poll
    if !(vn == 4 || vn == 5) || mode != 3 {
        return Err(format!(
            "version {vn} mode {mode}, expected a version 4 or 5 client request"
        ));
    }
    if b[2] != desired.as_byte() {
        return Err(format!(
            "poll byte {} but the poll interval is {}",
            b[2],
            desired.as_byte()
        ));
    }
    let (fields, end) = walk(b, 48);
    if end != b.len() {
        return Err(format!(
            "extension fields stop at {end}, datagram has {} bytes",
            b.len()
        ));
    }
    if !c.nts {
        if fields.iter().any(|f| f.ty == T_COOKIE || f.ty == T_AUTH) {
            return Err("NTS fields in a plain request".into());
        }
        return Ok(());
    }
    let ck: Vec<&Field> = fields.iter().filter(|f| f.ty == T_COOKIE).collect();
    if ck.len() != 1 {
        return Err(format!("{} cookie fields", ck.len()));
    }
    let body = &ck[0].body;
    if body.len() < cookie.len()
        || &body[..cookie.len()] != cookie
        || body[cookie.len()..].iter().any(|x| *x != 0)
    {
        return Err("cookie field does not carry the cookie".into());
    }
    let auth = fields
        .iter()
        .find(|f| f.ty == T_AUTH)
        .ok_or("no authenticator")?;
    if open_at(&*rig.c2s, b, auth.off).is_none() {
        return Err("authenticator does not verify under C2S".into());
    }
    let ph = fields.iter().filter(|f| f.ty == T_PLACEHOLDER).count();
    if ph + 1 > 8usize.saturating_sub(c.fill - 1) {
        return Err(format!(
            "{ph} placeholders with {} cookies held",
            c.fill - 1
        ));
    }
    Ok(())
}

fn all_cfgs() -> Vec<Cfg> {
    let mut v = Vec::new();
    for k512 in [false, true] {
        for pv in [
            ProtocolVersion::V4,
            ProtocolVersion::v4_upgrading_to_v5_with_default_tries(),
            ProtocolVersion::UpgradedToV5,
            ProtocolVersion::V5,
        ] {
            v.push(Cfg { pv, k512 });
        }
    }
    v
}

fn replay(ctx: &Ctx, trace: &str) -> String {
    let Some(c) = parse_case(trace) else {
        return "bad trace".into();
    };
    let r = run_case(&c);
    if let Res::Bad(class, what) = &r {
        ctx.violation(class, what.clone(), trace.to_string());
    }
    format!("{r:?}")
}

#[test]
fn check() {
    let ctx = Ctx::new("C14");
    if let Some(t) = common::replay_trace() {
        let a = replay(&ctx, &t);
        let b = replay(&ctx, &t);
        common::report_replay("C14", &a, &b, ctx.violation_count() > 0);
        return;
    }
    ctx.rule(
        "every (cookie length 0..=1024 of the cookie about to be sent) x (stash fill 0..=8) x (256/512-bit session keys) x \
         (ProtocolVersion V4, V4UpgradingToV5, UpgradedToV5, V5) x (poll exponent min 4 / max 10) for NTS sources, plus version x \
         poll for non-NTS sources; one handle_timer call each on a fresh source. Extra (outside the exhaustive claim): lengths \
         1025..=1100, 2048, 4096, 65531..=65540, 70000 at fill 1 and 8. distinct non-trivial = every case (each is a different \
         size computation); outcome classes are counted.",
    );
    ctx.assume("the other held cookies (100 bytes each) only matter through their number");
    let mut cases: Vec<Case> = Vec::new();
    for cfg in all_cfgs() {
        for poll_max in [false, true] {
            for fill in 0..=8usize {
                for len in 0..=1024usize {
                    cases.push(Case {
                        cfg,
                        nts: true,
                        poll_max,
                        fill,
                        len,
                    });
                }
            }
        }
    }
    let exhaustive_n = cases.len();
    for cfg in all_cfgs().into_iter().filter(|c| !c.k512) {
        for poll_max in [false, true] {
            cases.push(Case {
                cfg,
                nts: false,
                poll_max,
                fill: 0,
                len: 0,
            });
        }
    }
    let core_n = cases.len();
    let extra: Vec<usize> = (1025..=1100)
        .chain([2048, 4096])
        .chain(65531..=65540)
        .chain([70000])
        .collect();
    for cfg in all_cfgs() {
        for fill in [1usize, 8] {
            for len in &extra {
                cases.push(Case {
                    cfg,
                    nts: true,
                    poll_max: false,
                    fill,
                    len: *len,
                });
            }
        }
    }
    // (sends, resets, resets with fill>0, max request, min len reset (fill>0), max len send, resets where a 1-cookie request would fit)
    let st = Mutex::new((0u64, 0u64, 0u64, 0usize, usize::MAX, 0usize, 0u64));
    common::par_for(cases.len() as u64, 256, |i| {
        let c = &cases[i as usize];
        let r = run_case(c);
        let mut s = st.lock().unwrap();
        match &r {
            Res::Send(n) => {
                s.0 += 1;
                s.3 = s.3.max(*n);
                if c.nts {
                    s.5 = s.5.max(c.len);
                }
            }
            Res::Reset => {
                s.1 += 1;
                if c.fill > 0 {
                    s.2 += 1;
                    s.4 = s.4.min(c.len);
                    // header 48 + uid 36 + cookie field + authenticator 40 (+ v5 draft id 28 and reference id request 20)
                    let one = 48
                        + 36
                        + 4
                        + pad4(c.len)
                        + 40
                        + if c.cfg.v5() && c.cfg.pv != ProtocolVersion::UpgradedToV5 {
                            48
                        } else {
                            0
                        };
                    if one <= 1024 {
                        s.6 += 1;
                    }
                }
            }
            Res::Bad(class, what) => {
                drop(s);
                ctx.violation(class, format!("[{}] {what}", trace_of(c)), trace_of(c));
                ctx.distinct(common::hash_of(&trace_of(c)));
                return;
            }
        }
        drop(s);
        ctx.distinct(common::hash_of(&trace_of(c)));
        if i % 14_983 == 5 {
            ctx.sample(format!("{} -> {r:?}", trace_of(c)));
        }
    });
    let s = st.lock().unwrap();
    ctx.set("evaluations", cases.len() as u64);
    ctx.set("transitions", cases.len() as u64);
    ctx.set("states", cases.len() as u64);
    ctx.set("cases_exhaustive_nts", exhaustive_n as u64);
    ctx.set("cases_plain", (core_n - exhaustive_n) as u64);
    ctx.set("cases_extra_lengths", (cases.len() - core_n) as u64);
    ctx.set("outcome_send", s.0);
    ctx.set("outcome_reset", s.1);
    ctx.set("outcome_reset_with_cookies_held", s.2);
    ctx.set("largest_request_bytes", s.3 as u64);
    ctx.set(
        "shortest_cookie_causing_reset",
        if s.4 == usize::MAX { 0 } else { s.4 as u64 },
    );
    ctx.set("longest_cookie_sent", s.5 as u64);
    ctx.set("resets_although_single_cookie_request_fits", s.6);
    ctx.exhaustive(true);
    ctx.finish();
}
