//! C30: not implemented yet.
