//! C30 — NTS-KE messages are parsed totally, boundedly and round-trip.
//!
//! Engine E-IN + read deviations. Streams come from a grammar (all record sequences up to
//! a length over a record alphabet, grammar-directed seed messages with every single
//! record insertion, oversize streams around the 4096-byte limit), every stream is
//! parsed by the three real parsers `NtsRecord::parse`, `Request::parse`,
//! `KeyExchangeResponse::parse` through a harness `AsyncRead` that delivers as much as
//! asked except at scripted read-call indices where it returns one byte only (short read)
//! or `Pending` (and wakes itself); every placement of <= 2 such deviations is enumerated
//! (bound 0, 1, 2), and every truncation (prefix) of the stream.
//!
//! Oracle (statement): never panics / always terminates; a message parser never pulls
//! more than 4096 bytes from the reader, and no parser pulls bytes beyond the end of
//! the record / the End-Of-Message record it parsed (wire framing); the result is the
//! same for every chunking; a truncated message is never accepted; an accepted value
//! serialises, and the serialisation parses back to the same value (and same bytes).
use std::pin::Pin;
use std::task::{Context, Poll};

use tokio::io::{AsyncRead, ReadBuf};

use super::common::{self, Ctx};
use crate::nts::verif_probe::gj::{self as rig, Parsed, Rec};

// ------------------------------------------------------------------ reader

#[derive(Clone, Copy, PartialEq, Eq, Debug)]
enum Dev {
    Short,
    Pending,
}

struct ChunkReader<'a> {
    data: &'a [u8],
    pos: usize,
    devs: [(u32, Dev); 2],
    ndev: usize,
    calls: u32,
    pulled: usize,
    /// bytes delivered per call (only kept when `log` is set)
    log: Option<Vec<u32>>,
}

impl<'a> ChunkReader<'a> {
    fn new(data: &'a [u8], devs: &[(u32, Dev)], log: bool) -> Self {
        let mut d = [(u32::MAX, Dev::Short); 2];
        for (i, x) in devs.iter().enumerate() {
            d[i] = *x;
        }
        ChunkReader {
            data,
            pos: 0,
            devs: d,
            ndev: devs.len(),
            calls: 0,
            pulled: 0,
            log: if log { Some(Vec::new()) } else { None },
        }
    }
}

impl AsyncRead for ChunkReader<'_> {
    fn poll_read(
        self: Pin<&mut Self>,
        cx: &mut Context<'_>,
        buf: &mut ReadBuf<'_>,
    ) -> Poll<std::io::Result<()>> {
        let me = self.get_mut();
        let call = me.calls;
        me.calls += 1;
        let mut dev = None;
        for i in 0..me.ndev {
            if me.devs[i].0 == call {
                dev = Some(me.devs[i].1);
            }
        }
        if dev == Some(Dev::Pending) {
            if let Some(l) = me.log.as_mut() {
                l.push(0);
            }
            cx.waker().wake_by_ref();
            return Poll::Pending;
        }
        let mut n = (me.data.len() - me.pos).min(buf.remaining());
        if dev == Some(Dev::Short) && n > 1 {
            n = 1;
        }
        buf.put_slice(&me.data[me.pos..me.pos + n]);
        me.pos += n;
        me.pulled += n;
        if let Some(l) = me.log.as_mut() {
            l.push(n as u32);
        }
        Poll::Ready(Ok(()))
    }
}

#[derive(Clone, Copy, PartialEq, Eq, Debug, Hash)]
enum Target {
    Record,
    Request,
    Response,
}
const TARGETS: [Target; 3] = [Target::Record, Target::Request, Target::Response];

struct Run {
    result: Result<Option<Parsed>, String>, // Err = panic, Ok(None) = no progress
    pulled: usize,
    calls: u32,
    log: Vec<u32>,
}

fn run(target: Target, data: &[u8], devs: &[(u32, Dev)], log: bool) -> Run {
    let mut reader = ChunkReader::new(data, devs, log);
    let result = common::catch(|| match target {
        Target::Record => rig::run_sync(rig::parse_record(&mut reader), 1 << 20),
        Target::Request => rig::run_sync(rig::parse_request(&mut reader), 1 << 20),
        Target::Response => rig::run_sync(rig::parse_response(&mut reader), 1 << 20),
    });
    Run {
        result,
        pulled: reader.pulled,
        calls: reader.calls,
        log: reader.log.take().unwrap_or_default(),
    }
}

// ------------------------------------------------------------------ framing reference

/// End offset (exclusive) of what a parser of `target` may touch in `stream`, by the wire
/// framing alone: the first record for `Record`; everything up to and including the
/// first End-Of-Message record for the message parsers, never more than 4096.
/// Second value: whether that unit is completely inside the stream.
fn unit_end(target: Target, stream: &[u8]) -> (usize, bool) {
    let mut off = 0usize;
    loop {
        if stream.len() < off + 4 {
            let e = stream.len();
            return (
                if target == Target::Record {
                    e
                } else {
                    e.min(4096)
                },
                false,
            );
        }
        let ty = u16::from_be_bytes([stream[off], stream[off + 1]]) & 0x7fff;
        let len = u16::from_be_bytes([stream[off + 2], stream[off + 3]]) as usize;
        let end = off + 4 + len;
        let complete = end <= stream.len();
        if target == Target::Record {
            return (end.min(stream.len()), complete);
        }
        if !complete {
            return (stream.len().min(4096), false);
        }
        if ty == 0 {
            return (end.min(4096), end <= 4096);
        }
        off = end;
        if off >= 4096 {
            return (4096, false);
        }
    }
}

// ------------------------------------------------------------------ per-thread accumulator

#[derive(Default)]
struct Counts {
    evaluations: u64,
    streams: u64,
    accepted: [u64; 3],
    rejected: [u64; 3],
    truncations: u64,
    dev1: u64,
    dev2: u64,
    roundtrips: u64,
    max_pulled_msg: u64,
    max_calls: u64,
    distinct: Vec<u64>,
    pending: u64,
}

struct Acc<'a> {
    ctx: &'a Ctx,
    n: Counts,
    /// violations reported by this worker per class: only the first few get their (possibly
    /// very long) description and trace rendered, `Ctx` keeps 3 per class anyway
    reported: std::collections::HashMap<&'static str, u32>,
}

impl<'a> std::ops::Deref for Acc<'a> {
    type Target = Counts;
    fn deref(&self) -> &Counts {
        &self.n
    }
}

impl<'a> std::ops::DerefMut for Acc<'a> {
    fn deref_mut(&mut self) -> &mut Counts {
        &mut self.n
    }
}

impl<'a> Acc<'a> {
    fn new(ctx: &'a Ctx) -> Self {
        Acc {
            ctx,
            n: Counts::default(),
            reported: std::collections::HashMap::new(),
        }
    }
    fn viol(
        &mut self,
        class: &'static str,
        what: impl FnOnce() -> String,
        trace: impl FnOnce() -> String,
    ) {
        let n = self.reported.entry(class).or_insert(0);
        *n += 1;
        if *n <= 4 {
            self.ctx.violation(class, what(), trace());
        } else {
            self.ctx.violation(class, "", "");
        }
    }
    fn flush(&mut self) {
        let c = self.ctx;
        let n = std::mem::take(&mut self.n);
        c.add("evaluations", n.evaluations);
        c.add("transitions", n.evaluations);
        c.add("streams", n.streams);
        for (i, name) in ["record", "request", "response"].iter().enumerate() {
            c.add(&format!("accepted_{name}"), n.accepted[i]);
            c.add(&format!("rejected_{name}"), n.rejected[i]);
        }
        c.add("truncation_runs", n.truncations);
        c.add("deviation1_runs", n.dev1);
        c.add("deviation2_runs", n.dev2);
        c.add("roundtrips", n.roundtrips);
        c.max("max_bytes_pulled_by_message_parser", n.max_pulled_msg);
        c.max("max_read_calls", n.max_calls);
        c.distinct_many(n.distinct);
    }
    fn tick(&mut self) {
        self.pending += 1;
        if self.pending >= 2048 {
            self.flush();
        }
    }
}

impl Drop for Acc<'_> {
    fn drop(&mut self) {
        self.flush();
    }
}

// ------------------------------------------------------------------ the check of one stream

#[derive(Clone, Copy)]
struct Plan {
    /// deviation bound on the full stream
    dev: u8,
    /// parse every proper prefix
    truncate: bool,
    /// deviation bound applied to every prefix as well
    trunc_dev: u8,
    /// count the stream as distinct only when something accepts it
    distinct_only_accepted: bool,
}

fn tidx(t: Target) -> usize {
    match t {
        Target::Record => 0,
        Target::Request => 1,
        Target::Response => 2,
    }
}

fn trace_of(target: Target, data: &[u8], devs: &[(u32, Dev)]) -> String {
    let d: Vec<String> = devs
        .iter()
        .map(|(k, d)| format!("{}{}", if *d == Dev::Short { "s" } else { "p" }, k))
        .collect();
    format!("{:?};{};{}", target, d.join("+"), common::hex(data))
}

fn show(p: &Option<Parsed>) -> String {
    match p {
        None => "<no progress>".to_string(),
        Some(Ok((v, _))) => {
            let mut s = v.clone();
            if s.len() > 160 {
                s.truncate(160);
                s.push('…');
            }
            format!("Ok({s})")
        }
        Some(Err(e)) => format!("Err({e})"),
    }
}

/// Oracles that apply to every single run. `full` is the whole stream the data is a
/// prefix of (for the framing reference). Returns the parse result (None on panic).
fn check_run(
    acc: &mut Acc<'_>,
    target: Target,
    data: &[u8],
    devs: &[(u32, Dev)],
    r: &Run,
) -> Option<Option<Parsed>> {
    acc.evaluations += 1;
    acc.max_calls = acc.max_calls.max(r.calls as u64);
    let res = match &r.result {
        Err(e) => {
            acc.viol(
                "C30:panic",
                || format!("{target:?} parser panicked: {e}"),
                || trace_of(target, data, devs),
            );
            return None;
        }
        Ok(v) => v.clone(),
    };
    if res.is_none() {
        acc.viol(
            "C30:no-progress",
            || format!("{target:?} parser still pending after 2^20 polls"),
            || trace_of(target, data, devs),
        );
    }
    let (end, complete) = unit_end(target, data);
    if target != Target::Record {
        acc.max_pulled_msg = acc.max_pulled_msg.max(r.pulled as u64);
        if r.pulled > 4096 {
            acc.viol(
                "C30:pulled-more-than-4096",
                || {
                    format!(
                        "{target:?} parser pulled {} bytes from the reader",
                        r.pulled
                    )
                },
                || trace_of(target, data, devs),
            );
        }
    }
    if r.pulled > end {
        acc.viol(
            "C30:overread",
            || {
                format!(
                    "{target:?} parser pulled {} bytes but its unit ends at offset {end}",
                    r.pulled
                )
            },
            || trace_of(target, data, devs),
        );
    }
    if let Some(Ok((v, _))) = &res {
        if !complete {
            acc.viol(
                "C30:accept-truncated",
                || format!("{target:?} parser accepted {} although the stream ends inside the unit / beyond 4096 bytes", show(&res)),
                || trace_of(target, data, devs));
        } else if r.pulled != end {
            acc.viol(
                "C30:underread",
                || format!("{target:?} parser accepted {v:.80} after pulling {} bytes; the unit is {end} bytes long (rest would be taken for the next message)", r.pulled),
                || trace_of(target, data, devs));
        }
    }
    Some(res)
}

fn roundtrip(acc: &mut Acc<'_>, target: Target, data: &[u8], value: &str, ser: &[u8]) {
    acc.roundtrips += 1;
    if ser.starts_with(b"!serialize") {
        acc.viol(
            "C30:accepted-not-serialisable",
            || {
                format!(
                    "{target:?}: accepted value {value:.120} fails to serialise ({})",
                    String::from_utf8_lossy(ser)
                )
            },
            || trace_of(target, data, &[]),
        );
        return;
    }
    let r = run(target, ser, &[], false);
    acc.evaluations += 1;
    match &r.result {
        Ok(Some(Ok((v2, ser2)))) if v2 == value && ser2 == ser => {}
        other => {
            let got = match other {
                Ok(p) => show(p),
                Err(e) => format!("panic {e}"),
            };
            acc.viol(
                "C30:roundtrip",
                || {
                    format!(
                        "{target:?}: accepted {value:.120}; serialised to {}; that parses to {got}",
                        common::hex(&ser[..ser.len().min(64)])
                    )
                },
                || trace_of(target, data, &[]),
            );
        }
    }
    if target != Target::Record && ser.len() > 4096 {
        acc.viol(
            "C30:roundtrip",
            || {
                format!(
                    "{target:?}: re-serialisation is {} bytes (> 4096)",
                    ser.len()
                )
            },
            || trace_of(target, data, &[]),
        );
    }
}

fn deviations(
    acc: &mut Acc<'_>,
    target: Target,
    data: &[u8],
    base: &Run,
    base_res: &Option<Parsed>,
    bound: u8,
) {
    if bound == 0 {
        return;
    }
    for k in 0..base.calls {
        for d in [Dev::Short, Dev::Pending] {
            if d == Dev::Short && base.log.get(k as usize).copied().unwrap_or(0) <= 1 {
                continue; // a one-byte read cannot be shorter
            }
            let devs1 = [(k, d)];
            let r1 = run(target, data, &devs1, bound >= 2);
            acc.dev1 += 1;
            if let Some(res1) = check_run(acc, target, data, &devs1, &r1) {
                if &res1 != base_res {
                    acc.viol(
                        "C30:chunking-dependent",
                        || format!("{target:?}: one read gives {}, with {:?} at read call {k} it gives {}", show(base_res), d, show(&res1)),
                        || trace_of(target, data, &devs1));
                }
            }
            if bound >= 2 {
                for k2 in (k + 1)..r1.calls {
                    for d2 in [Dev::Short, Dev::Pending] {
                        if d2 == Dev::Short && r1.log.get(k2 as usize).copied().unwrap_or(0) <= 1 {
                            continue;
                        }
                        let devs2 = [(k, d), (k2, d2)];
                        let r2 = run(target, data, &devs2, false);
                        acc.dev2 += 1;
                        if let Some(res2) = check_run(acc, target, data, &devs2, &r2) {
                            if &res2 != base_res {
                                acc.viol(
                                    "C30:chunking-dependent",
                                    || format!("{target:?}: one read gives {}, with {:?}@{k} and {:?}@{k2} it gives {}", show(base_res), d, d2, show(&res2)),
                                    || trace_of(target, data, &devs2));
                            }
                        }
                    }
                }
            }
        }
    }
}

/// `stream` = message bytes; a trailer is appended for the full-stream runs so that reading
/// past the end of the message is observable.
fn check_stream(acc: &mut Acc<'_>, stream: &[u8], plan: Plan, targets: &[Target]) -> [bool; 3] {
    const TRAILER: [u8; 8] = [0x80, 0x01, 0x00, 0x02, 0x00, 0x00, 0xee, 0xee];
    let mut full = stream.to_vec();
    full.extend_from_slice(&TRAILER);
    acc.streams += 1;
    let mut accepted = [false; 3];
    for &t in targets {
        let base = run(t, &full, &[], plan.dev > 0);
        let Some(base_res) = check_run(acc, t, &full, &[], &base) else {
            continue;
        };
        match &base_res {
            Some(Ok((v, ser))) => {
                acc.accepted[tidx(t)] += 1;
                accepted[tidx(t)] = true;
                roundtrip(acc, t, &full, v, ser);
            }
            _ => acc.rejected[tidx(t)] += 1,
        }
        deviations(acc, t, &full, &base, &base_res, plan.dev);
        if plan.truncate {
            // prefixes that end before the unit does (longer ones equal the full-stream run)
            let limit = unit_end(t, stream).0.min(stream.len());
            for cut in 0..limit {
                let data = &stream[..cut];
                let b = run(t, data, &[], plan.trunc_dev > 0);
                acc.truncations += 1;
                let Some(b_res) = check_run(acc, t, data, &[], &b) else {
                    continue;
                };
                if let Some(Ok((v, ser))) = &b_res {
                    // a prefix that is itself a complete unit (e.g. the first record)
                    roundtrip(acc, t, data, v, ser);
                }
                deviations(acc, t, data, &b, &b_res, plan.trunc_dev);
            }
        }
    }
    if !plan.distinct_only_accepted || accepted.iter().any(|a| *a) {
        acc.distinct.push(common::hash_of(&stream));
    }
    acc.tick();
    accepted
}

// ------------------------------------------------------------------ alphabet

#[derive(Clone, Copy, Debug)]
struct Sym {
    ty: u16, // 0..=15
    critical: bool,
    size: usize,
    fill: u8, // 0 = meaningful, 1 = 0xff
}

fn cyc(pat: &[u8], n: usize) -> Vec<u8> {
    (0..n).map(|i| pat[i % pat.len()]).collect()
}

fn body(ty: u16, size: usize, fill: u8) -> Vec<u8> {
    if fill == 1 {
        return vec![0xff; size];
    }
    match ty {
        1 | 9 => cyc(&[0x00, 0x00, 0x80, 0x01, 0x12, 0x34], size),
        2 => cyc(&[0, 1], size),
        3 => cyc(&[0, 7], size),
        4 => cyc(&[0, 15, 0, 17, 0, 99], size),
        10 => cyc(&[0, 15, 0, 32, 0, 17, 0, 64], size),
        7 => cyc(&[0x10, 0x1b], size),
        6 | 13 | 14 => cyc("a\u{e9}-ntp.org:".as_bytes(), size),
        _ => (0..size).map(|i| (i * 7 + 1) as u8).collect(),
    }
}

impl Sym {
    fn rec(&self) -> Rec {
        Rec {
            ty: self.ty | if self.critical { 0x8000 } else { 0 },
            body: body(self.ty, self.size, self.fill),
        }
    }
}

const SIZES: [usize; 6] = [0, 1, 2, 3, 4, 64];

fn alphabet_full() -> Vec<Sym> {
    let mut v = Vec::new();
    for ty in 0..16u16 {
        for critical in [false, true] {
            for size in SIZES {
                for fill in [0u8, 1] {
                    if size == 0 && fill == 1 {
                        continue;
                    }
                    v.push(Sym {
                        ty,
                        critical,
                        size,
                        fill,
                    });
                }
            }
        }
    }
    v
}

fn alphabet_reduced() -> Vec<Sym> {
    let mut v = Vec::new();
    for ty in 0..16u16 {
        for size in [0usize, 2, 4, 64] {
            v.push(Sym {
                ty,
                critical: true,
                size,
                fill: 0,
            });
        }
    }
    v
}

fn eom() -> Rec {
    Rec::new(0x8000, &[])
}

fn seq_stream(alpha: &[Sym], word: &[usize]) -> Vec<u8> {
    let mut recs: Vec<Rec> = word.iter().map(|i| alpha[*i].rec()).collect();
    recs.push(eom());
    rig::enc(&recs)
}

// ------------------------------------------------------------------ seeds

fn seeds() -> Vec<(&'static str, Vec<Rec>)> {
    let cookie = |i: u8| Rec::new(5, &vec![i; 100]);
    let mut full_resp = vec![Rec::new(0x8001, &[0, 0]), Rec::new(0x8004, &[0, 15])];
    for i in 0..8 {
        full_resp.push(cookie(i + 1));
    }
    full_resp.push(Rec::new(0x8006, b"ntp.example.org"));
    full_resp.push(Rec::new(0x8007, &[0, 123]));
    full_resp.push(Rec::new(8, &[]));
    full_resp.push(eom());
    let mut nine = vec![Rec::new(0x8001, &[0x80, 1]), Rec::new(0x8004, &[0, 17])];
    for i in 0..9 {
        nine.push(cookie(i + 1));
    }
    nine.push(eom());
    let k32: Vec<u8> = (0..64).collect();
    let k64: Vec<u8> = (0..128).collect();
    vec![
        (
            "req-ke",
            vec![
                Rec::new(0x8001, &[0x80, 1, 0, 0]),
                Rec::new(0x8004, &[0, 17, 0, 15]),
                Rec::new(13, b"a.example"),
                Rec::new(13, b"b"),
                eom(),
            ],
        ),
        (
            "req-fk256",
            vec![
                Rec::new(14, b"tok"),
                Rec::new(0x800c, &k32),
                Rec::new(0x8001, &[0, 0]),
                Rec::new(0x8004, &[0, 15]),
                Rec::new(8, &[]),
                eom(),
            ],
        ),
        (
            "req-fk512",
            vec![
                Rec::new(14, b"tok"),
                Rec::new(0x800c, &k64),
                Rec::new(0x8001, &[0x80, 1]),
                Rec::new(0x8004, &[0, 17]),
                eom(),
            ],
        ),
        (
            "req-support",
            vec![
                Rec::new(14, b"tok"),
                Rec::new(0x8009, &[]),
                Rec::new(0x800a, &[]),
                Rec::new(8, &[]),
                eom(),
            ],
        ),
        (
            "req-support-p",
            vec![Rec::new(14, b""), Rec::new(0x8009, &[0, 0]), eom()],
        ),
        ("resp-full", full_resp),
        ("resp-9cookies", nine),
        ("resp-error", vec![Rec::new(0x8002, &[0, 1]), eom()]),
        ("resp-warning", vec![Rec::new(0x8003, &[0, 9]), eom()]),
        ("resp-no-proto", vec![Rec::new(0x8001, &[]), eom()]),
        (
            "resp-no-alg",
            vec![Rec::new(0x8001, &[0, 0]), Rec::new(0x8004, &[]), eom()],
        ),
        (
            "resp-supports",
            vec![
                Rec::new(0x800a, &[0, 15, 0, 32, 0, 17, 0, 64]),
                Rec::new(0x8009, &[0, 0, 0x80, 1]),
                eom(),
            ],
        ),
    ]
}

// ------------------------------------------------------------------ oversize

/// Filler of exactly `n` bytes made of ignorable records. kind 0: one (or two) big unknown
/// records; 1: many 8-byte unknown records; 2: 104-byte cookies (response) ; 3: server-deny
/// records (request).
fn filler(kind: u8, n: usize) -> Option<Vec<Rec>> {
    let mut out = Vec::new();
    let mut left = n;
    let (ty, unit_body): (u16, Vec<u8>) = match kind {
        0 => (0x0020, vec![0xab; 65535]),
        1 => (0x0021, vec![1, 2, 3, 4]),
        2 => (5, vec![0xc0; 100]),
        _ => (13, b"denied.example.org".to_vec()),
    };
    while left > 0 {
        if left < 4 {
            return None;
        }
        let unit = 4 + unit_body.len();
        // never leave a remainder of 1..=3 bytes
        let take = if left >= unit && (left - unit == 0 || left - unit >= 4) {
            unit
        } else if left <= unit {
            left
        } else {
            left - 4
        };
        let b = take - 4;
        out.push(Rec {
            ty,
            body: unit_body[..b.min(unit_body.len())].to_vec(),
        });
        if b > unit_body.len() {
            return None;
        }
        left -= take;
    }
    Some(out)
}

struct Oversize {
    name: String,
    stream: Vec<u8>,
    target: Target,
    /// acceptance demanded iff the whole message fits in 4096 bytes
    total: usize,
    acceptable: bool,
}

fn oversize_streams() -> Vec<Oversize> {
    let mut v = Vec::new();
    let core = [Rec::new(0x8001, &[0, 0]), Rec::new(0x8004, &[0, 15])];
    for total in [4095usize, 4096, 4097, 4100, 70000] {
        let n = total - 16;
        for kind in 0..4u8 {
            for core_first in [true, false] {
                let Some(f) = filler(kind, n) else { continue };
                let mut recs = Vec::new();
                if core_first {
                    recs.extend_from_slice(&core);
                }
                recs.extend(f);
                if !core_first {
                    recs.extend_from_slice(&core);
                }
                recs.push(eom());
                let stream = rig::enc(&recs);
                assert_eq!(stream.len(), total);
                for target in [Target::Request, Target::Response] {
                    let ignorable = match (kind, target) {
                        (2, Target::Request) => false,  // cookies are not allowed in a request
                        (3, Target::Response) => false, // server-deny is not allowed in a response
                        _ => true,
                    };
                    v.push(Oversize {
                        name: format!("total={total} filler={kind} core_first={core_first}"),
                        stream: stream.clone(),
                        target,
                        total,
                        acceptable: ignorable,
                    });
                }
            }
        }
    }
    // no End-Of-Message at all, and an End-Of-Message whose body crosses the limit
    let endless = rig::enc(&filler(1, 70000).unwrap());
    let mut big_eom = core.to_vec();
    big_eom.push(Rec::new(0x8000, &vec![0; 5000]));
    for target in [Target::Request, Target::Response] {
        v.push(Oversize {
            name: "no-eom 70000".into(),
            stream: endless.clone(),
            target,
            total: 70000,
            acceptable: false,
        });
        v.push(Oversize {
            name: "eom body 5000".into(),
            stream: rig::enc(&big_eom),
            target,
            total: 5016,
            acceptable: true,
        });
    }
    v
}

// ------------------------------------------------------------------ driver

fn parse_devs(s: &str) -> Vec<(u32, Dev)> {
    s.split('+')
        .filter(|x| !x.is_empty())
        .filter_map(|x| {
            let d = if x.starts_with('s') {
                Dev::Short
            } else {
                Dev::Pending
            };
            x[1..].parse().ok().map(|k| (k, d))
        })
        .collect()
}

fn replay(ctx: &Ctx, trace: &str) -> String {
    // "<Target>;<devs>;<hex stream>"
    let parts: Vec<&str> = trace.split(';').collect();
    if parts.len() != 3 {
        return "bad trace".into();
    }
    let target = match parts[0] {
        "Record" => Target::Record,
        "Request" => Target::Request,
        _ => Target::Response,
    };
    let devs = parse_devs(parts[1]);
    let Some(data) = common::unhex(parts[2]) else {
        return "bad hex".into();
    };
    let mut acc = Acc::new(ctx);
    let base = run(target, &data, &[], false);
    let base_res = check_run(&mut acc, target, &data, &[], &base);
    let r = run(target, &data, &devs[..devs.len().min(2)], false);
    let res = check_run(&mut acc, target, &data, &devs[..devs.len().min(2)], &r);
    if let (Some(a), Some(b)) = (&base_res, &res) {
        if a != b {
            ctx.violation(
                "C30:chunking-dependent",
                format!(
                    "one read gives {}, scripted chunking gives {}",
                    show(a),
                    show(b)
                ),
                trace,
            );
        }
        if let Some(Ok((v, ser))) = a {
            roundtrip(&mut acc, target, &data, v, ser);
        }
    }
    format!(
        "whole: {} pulled={} | scripted: {} pulled={} calls={}",
        base_res.map(|r| show(&r)).unwrap_or("panic".into()),
        base.pulled,
        res.map(|r| show(&r)).unwrap_or("panic".into()),
        r.pulled,
        r.calls
    )
}

#[test]
fn check() {
    let ctx = Ctx::new("C30");
    if let Some(t) = common::replay_trace() {
        let a = replay(&ctx, &t);
        let b = replay(&ctx, &t);
        common::report_replay("C30", &a, &b, ctx.violation_count() > 0);
        return;
    }
    let quick = ctx.quick();
    ctx.rule(
        "record alphabet S = 16 types (0..=15; 11 and 15 unassigned) x critical bit x body size {0,1,2,3,4,64} x fill {meaningful, 0xff} \
         (352 symbols), reduced alphabet Sr = 16 types x size {0,2,4,64} (64 symbols). Streams: (1) every sequence of <=1 symbols of S + EOM \
         with every truncation, deviation bound 2 everywhere; (2) every sequence of 2 symbols of S + EOM, every truncation, deviation bound 1 \
         (thorough 2, truncations bound 1); (3) every sequence of 3 symbols of Sr (thorough: of S) + EOM, whole-buffer read (thorough: Sr also \
         with truncations and deviation bound 1); (4) 12 seed messages (KE / fixed-key 256+512 / support requests, full / 9-cookie / error / \
         warning / no-overlap / supports responses) with every truncation at deviation bound 2, and every insertion of one S symbol at every \
         position at bound 1; (5) oversize: totals {4095,4096,4097,4100,70000} x 4 filler shapes x core first/last, no-EOM, EOM body crossing \
         the limit, deviation bound 1 (thorough: + every truncation). Each stream goes through NtsRecord::parse, Request::parse and KeyExchangeResponse::parse. Deviation = \
         a read call returns 1 byte, or Pending. Distinct & non-trivial = distinct stream bytes (for (3): only streams some parser accepts).",
    );
    ctx.assume("bytes 'consumed' are observed as bytes delivered by the harness reader, which always offers everything it has (most adversarial for over-reading)");
    ctx.assume("value equality is equality of a canonical rendering of all fields (Debug of NtsRecord; field-wise for Request/KeyExchangeResponse incl. key bytes)");
    ctx.assume("the per-message limit applies to Request::parse and KeyExchangeResponse::parse; a single record may be up to 4+65535 bytes when parsed on its own");

    let full = alphabet_full();
    let reduced = alphabet_reduced();
    ctx.set("alphabet_full", full.len() as u64);
    ctx.set("alphabet_reduced", reduced.len() as u64);

    // (1) length <= 1
    {
        let plan = Plan {
            dev: 2,
            truncate: true,
            trunc_dev: 2,
            distinct_only_accepted: false,
        };
        let n = 1 + full.len() as u64;
        common::par_for_with(
            n,
            4,
            || Acc::new(&ctx),
            |acc, i| {
                let word: Vec<usize> = if i == 0 { vec![] } else { vec![i as usize - 1] };
                check_stream(acc, &seq_stream(&full, &word), plan, &TARGETS);
            },
        );
        ctx.set("len1_sequences", n);
    }
    // (2) length 2
    {
        let plan = if quick {
            Plan {
                dev: 1,
                truncate: true,
                trunc_dev: 0,
                distinct_only_accepted: false,
            }
        } else {
            Plan {
                dev: 2,
                truncate: true,
                trunc_dev: 1,
                distinct_only_accepted: false,
            }
        };
        let k = full.len();
        let n = common::pow(k, 2);
        common::par_for_with(
            n,
            64,
            || Acc::new(&ctx),
            |acc, i| {
                let word = common::word_of(i, k, 2);
                let acc3 = check_stream(acc, &seq_stream(&full, &word), plan, &TARGETS);
                if i % 20011 == 1234 {
                    ctx.sample(format!(
                        "seq {:?} {:?}: accepted by record/request/response = {:?}",
                        full[word[0]], full[word[1]], acc3
                    ));
                }
            },
        );
        ctx.set("len2_sequences", n);
    }
    // (3) length 3
    {
        let alpha = if quick { &reduced } else { &full };
        let plan = Plan {
            dev: 0,
            truncate: false,
            trunc_dev: 0,
            distinct_only_accepted: true,
        };
        let k = alpha.len();
        let n = common::pow(k, 3);
        common::par_for_with(
            n,
            512,
            || Acc::new(&ctx),
            |acc, i| {
                let word = common::word_of(i, k, 3);
                // the first record alone was covered by (1); only the message parsers see more than it
                check_stream(
                    acc,
                    &seq_stream(alpha, &word),
                    plan,
                    &[Target::Request, Target::Response],
                );
            },
        );
        ctx.set("len3_sequences", n);
        if !quick {
            if ctx.over_budget() {
                ctx.cap_hit("length-3 sequences over the reduced alphabet with truncations and deviation bound 1 not started; whole-buffer pass over the full alphabet complete");
            } else {
                let plan = Plan {
                    dev: 1,
                    truncate: true,
                    trunc_dev: 0,
                    distinct_only_accepted: true,
                };
                let k = reduced.len();
                let n = common::pow(k, 3);
                common::par_for_with(
                    n,
                    256,
                    || Acc::new(&ctx),
                    |acc, i| {
                        let word = common::word_of(i, k, 3);
                        check_stream(
                            acc,
                            &seq_stream(&reduced, &word),
                            plan,
                            &[Target::Request, Target::Response],
                        );
                    },
                );
                ctx.set("len3_reduced_deviation1_sequences", n);
            }
        }
    }
    // (4) seeds
    {
        let seeds = seeds();
        let plan = Plan {
            dev: 2,
            truncate: true,
            trunc_dev: if quick { 1 } else { 2 },
            distinct_only_accepted: false,
        };
        common::par_for_with(
            seeds.len() as u64,
            1,
            || Acc::new(&ctx),
            |acc, i| {
                let (name, recs) = &seeds[i as usize];
                let a = check_stream(acc, &rig::enc(recs), plan, &TARGETS);
                ctx.sample(format!(
                    "seed {name}: accepted by record/request/response = {a:?}"
                ));
            },
        );
        // insertions
        let mut jobs = Vec::new();
        for (si, (_, recs)) in seeds.iter().enumerate() {
            for pos in 0..recs.len() {
                for sym in 0..full.len() {
                    jobs.push((si, pos, sym));
                }
            }
        }
        let plan = Plan {
            dev: 1,
            truncate: false,
            trunc_dev: 0,
            distinct_only_accepted: false,
        };
        common::par_for_with(
            jobs.len() as u64,
            32,
            || Acc::new(&ctx),
            |acc, i| {
                let (si, pos, sym) = jobs[i as usize];
                let mut recs = seeds[si].1.clone();
                recs.insert(pos, full[sym].rec());
                check_stream(
                    acc,
                    &rig::enc(&recs),
                    plan,
                    &[Target::Request, Target::Response],
                );
            },
        );
        ctx.set("seed_insertion_streams", jobs.len() as u64);
    }
    // (5) oversize
    {
        let streams = oversize_streams();
        common::par_for_with(
            streams.len() as u64,
            1,
            || Acc::new(&ctx),
            |acc, i| {
                let o = &streams[i as usize];
                let plan = Plan {
                    dev: 1,
                    truncate: !quick,
                    trunc_dev: 0,
                    distinct_only_accepted: false,
                };
                let a = check_stream(acc, &o.stream, plan, &[o.target]);
                let accepted = a[tidx(o.target)];
                let fits = o.total <= 4096;
                if accepted && !fits {
                    ctx.violation(
                        "C30:oversize-accepted",
                        format!(
                            "{:?} accepted a {}-byte message ({})",
                            o.target, o.total, o.name
                        ),
                        format!("{:?};;{}", o.target, common::hex(&o.stream)),
                    );
                }
                if o.acceptable && fits && !accepted {
                    ctx.violation(
                        "C30:limit-below-4096",
                        format!(
                            "{:?} rejected a well-formed {}-byte message ({})",
                            o.target, o.total, o.name
                        ),
                        format!("{:?};;{}", o.target, common::hex(&o.stream)),
                    );
                }
                ctx.inc(if accepted {
                    "oversize_accepted"
                } else {
                    "oversize_rejected"
                });
                if o.total == 4096 || o.total == 4097 {
                    ctx.sample(format!(
                        "oversize {:?} {}: accepted={accepted}",
                        o.target, o.name
                    ));
                }
            },
        );
        ctx.set("oversize_streams", streams.len() as u64);
    }
    ctx.set("states", ctx.get("streams"));
    ctx.exhaustive(true);
    ctx.finish();
}
