#[cfg(any(not(verif_select), verif_gc))]
#[path = "/verif/harness/ntp_proto/gc_probe_source.rs"]
pub(crate) mod gc;
#[cfg(any(not(verif_select), verif_gd))]
#[path = "/verif/harness/ntp_proto/gd_probe_source.rs"]
pub(crate) mod gd;
#[cfg(any(not(verif_select), verif_ge))]
#[path = "/verif/harness/ntp_proto/ge_probe_source.rs"]
pub(crate) mod ge;
#[cfg(any(not(verif_select), verif_gk))]
#[path = "/verif/harness/ntp_proto/gk_probe_source.rs"]
pub(crate) mod gk;
