//! C18 — server answers echo the request correctly and reflect nothing else.
//!
//! Engine E-IN. The shared request grammar G (c16.rs) is built with *tagged* contents:
//! every header field and every extension-field body of the request carries bytes that
//! are unique to that position, so any copy of request material in the answer can be
//! attributed. Every request is handled by the real `Server::handle` (4096-byte buffer,
//! so that nothing is hidden by C17's size issue) under chosen synchronisation states and
//! configurations; the answer is taken apart by the independent walker of c16.rs
//! (authenticator opened with the client's s2c key) and compared with the statement:
//!
//! * every answer: server mode, the request's version, transmit timestamp / NTPv5 client
//!   cookie echoed (and occurring nowhere else);
//! * time answers: the request's poll; reception time = the time handed to `handle`;
//!   transmit time = the clock; stratum, leap bits, reference id, root delay, root
//!   dispersion (= sqrt of the root variance at reception time) and precision of the
//!   server's current snapshot; the remaining header bytes (reference timestamp, NTPv5
//!   timescale/era/flags) must equal those of the answer to a canonical poll in the same
//!   state, i.e. be independent of the request (exception, recorded as an assumption: the
//!   NTPv5 upgrade marker in the reference timestamp of a plain NTPv4 exchange);
//! * DENY / RATE / NTS-NAK answers: stratum 0, zero receive and transmit timestamps, every
//!   other header byte equal to the canonical answer of that kind;
//! * extension fields: only unique identifiers whose body is the body of a request
//!   identifier (plus zero padding), NTPv5 reference-id responses that equal the server's
//!   Bloom filter bytes at the requested window, the draft identification, zero padding,
//!   and — only for requests that carry a correct authenticator — the NTS authenticator
//!   whose plaintext contains cookies only;
//! * no 8-byte tag of any other request content (header garbage, unknown fields, cookie,
//!   nonce, ciphertext, encrypted-part plaintext, MAC) occurs anywhere in the answer or in
//!   its decrypted part;
//! * (reading of "echo correctly") for RFC-7822-clean requests every unique identifier
//!   of a plain request, resp. every identifier in front of the authenticator, is echoed.
use std::collections::BTreeMap;

use super::c16::{
    AField, Answer, AuthState, BIG_BUF, Built, CLOCK_TS, Cfg, DRAFT, Findings, Fld, Handled,
    KeyEnv, Kind, Local, MAX_DATAGRAM, Opened, Out, RECV_TS, Req, Session, Sync, T_AUTH, T_COOKIE,
    T_DRAFT, T_PAD, T_REFRESP, T_UID, UPGRADE_TS, Zone, bloom_byte, build, client_ip, find,
    grammar, key_env, kind_key, make_server, open_nts, run_handle, walk,
};
use super::common::{self, Ctx};
use crate::Server;

/// header bytes of the canonical answers of one (configuration, state): (version, kind) -> 48 bytes
type Baselines = BTreeMap<(u8, Kind), Vec<u8>>;

fn baselines(cfg: Cfg, sync: &Sync, keys: &KeyEnv) -> Baselines {
    let mut m = Baselines::new();
    let mut server = make_server(cfg, sync, &keys.server);
    let canon = [
        "v3.m3.p6.l0.g0.a0||m0",
        "v4.m3.p6.l0.g0.a0||m0",
        "v5.m3.p6.l0.g0.a0|d1|m0",
        "v4.m3.p6.l0.g0.a0|u32,cG0,Aok()|m0",
        "v5.m3.p6.l0.g0.a0|u32,cG0,d1,Aok()|m0",
        "v4.m3.p6.l0.g0.a0|u32,cC0,Aok()|m0",
        "v5.m3.p6.l0.g0.a0|u32,cC0,d1,Aok()|m0",
    ];
    for code in canon {
        let r = Req::parse(code).expect("canonical request");
        let mut b = build(&r, keys);
        // the canonical requests carry *other* header garbage than the grammar's requests, so
        // that a header byte copied from the request differs between the two (this breaks the
        // authenticator of the NTS ones on purpose: they are the NTS-NAK baselines)
        let garbage: Vec<usize> = if r.ver == 5 {
            [1usize, 3, 13]
                .into_iter()
                .chain(4..12)
                .chain(16..24)
                .chain(32..48)
                .collect()
        } else {
            [1usize, 3].into_iter().chain(4..24).chain(32..40).collect()
        };
        for i in garbage {
            b.bytes[i] ^= 0x5F;
        }
        if r.ver == 5 {
            b.bytes[12] = 1;
            b.bytes[15] = 0;
        }
        if cfg == Cfg::RateLimited {
            server = make_server(cfg, sync, &keys.server);
        }
        if let Ok(Handled {
            out: Out::Respond(a),
            ..
        }) = run_handle(&mut server, client_ip(0), &b.bytes, BIG_BUF)
        {
            if let Ok(w) = walk(&a) {
                m.entry((w.ver, w.kind()))
                    .or_insert_with(|| a[..48].to_vec());
            }
        }
    }
    m
}

struct Verdicts {
    v: Vec<(&'static str, String)>,
}

impl Verdicts {
    fn bad(&mut self, class: &'static str, msg: String) {
        self.v.push((class, msg));
    }
}

fn short_to_seconds(b: &[u8]) -> f64 {
    u32::from_be_bytes(b.try_into().unwrap()) as f64 / 65536.0
}

fn time32_to_seconds(b: &[u8]) -> f64 {
    u32::from_be_bytes(b.try_into().unwrap()) as f64 / (1u64 << 28) as f64
}

fn expected_root_delay(sync: &Sync) -> f64 {
    sync.root_delay_exp
        .map(|e| 2f64.powi(e as i32))
        .unwrap_or(0.0)
}

fn expected_root_dispersion(sync: &Sync) -> f64 {
    // the snapshot's variance polynomial starts 16 s before the reception time (c16::server_info)
    (sync.var_base + 16.0 * sync.var_linear).sqrt()
}

fn check_header(
    v: &mut Verdicts,
    ans: &Answer,
    req: &[u8],
    upgrade_req: bool,
    sync: &Sync,
    base: &Baselines,
) {
    let raw = &ans.raw;
    let req_ver = (req[0] >> 3) & 7;
    let kind = ans.kind();
    if ans.mode != 4 {
        v.bad("C18:mode", format!("answer mode {}", ans.mode));
    }
    if ans.ver != req_ver {
        v.bad(
            "C18:version",
            format!(
                "answer version {} to a version {} request",
                ans.ver, req_ver
            ),
        );
    }
    // the echoed identifier
    let (id_req, id_name) = if req_ver == 5 {
        (&req[24..32], "client cookie")
    } else {
        (&req[40..48], "transmit timestamp")
    };
    if &raw[24..32] != id_req {
        v.bad(
            "C18:origin",
            format!(
                "answer bytes 24..32 = {} but the request's {id_name} is {}",
                common::hex(&raw[24..32]),
                common::hex(id_req)
            ),
        );
    }
    let baseline = base.get(&(ans.ver, kind));
    // bytes that the statement does not pin to a value must not depend on the request
    let mut free: Vec<usize> = vec![];
    match kind {
        Kind::Time => {
            if ans.leap != sync.leap_bits() {
                v.bad(
                    "C18:leap",
                    format!(
                        "leap bits {} but the server's leap state is {}",
                        ans.leap,
                        sync.leap_bits()
                    ),
                );
            }
            if ans.stratum != sync.stratum {
                v.bad(
                    "C18:stratum",
                    format!(
                        "stratum {} but the server's is {}",
                        ans.stratum, sync.stratum
                    ),
                );
            }
            if ans.poll != req[2] {
                v.bad(
                    "C18:poll",
                    format!("poll {} but the request's is {}", ans.poll, req[2]),
                );
            }
            if raw[3] as i8 != sync.precision_exp {
                v.bad(
                    "C18:precision",
                    format!(
                        "precision {} but the server's is {}",
                        raw[3] as i8, sync.precision_exp
                    ),
                );
            }
            let (delay, disp, tol) = if ans.ver == 5 {
                (
                    time32_to_seconds(&raw[4..8]),
                    time32_to_seconds(&raw[8..12]),
                    2f64.powi(-26),
                )
            } else {
                (
                    short_to_seconds(&raw[4..8]),
                    short_to_seconds(&raw[8..12]),
                    2f64.powi(-15),
                )
            };
            if (delay - expected_root_delay(sync)).abs() > tol {
                v.bad(
                    "C18:root-delay",
                    format!(
                        "root delay {delay} s but the server's is {} s",
                        expected_root_delay(sync)
                    ),
                );
            }
            if (disp - expected_root_dispersion(sync)).abs() > tol {
                v.bad(
                    "C18:root-dispersion",
                    format!(
                        "root dispersion {disp} s but the server's is {} s",
                        expected_root_dispersion(sync)
                    ),
                );
            }
            if raw[32..40] != RECV_TS.to_be_bytes() {
                v.bad(
                    "C18:receive-timestamp",
                    format!(
                        "receive timestamp {} is not the reception time",
                        common::hex(&raw[32..40])
                    ),
                );
            }
            if raw[40..48] != CLOCK_TS.to_be_bytes() {
                v.bad(
                    "C18:transmit-timestamp",
                    format!(
                        "transmit timestamp {} is not the clock's time",
                        common::hex(&raw[40..48])
                    ),
                );
            }
            if ans.ver == 5 {
                free.extend(12..16); // timescale, era, flags
                if raw[16..24] == req[16..24] {
                    v.bad(
                        "C18:reflects-request-content",
                        "the request's server-cookie field came back".into(),
                    );
                }
            } else {
                if raw[12..16] != sync.refid.to_be_bytes() {
                    v.bad(
                        "C18:reference-id",
                        format!(
                            "reference id {} but the server's is {:08x}",
                            common::hex(&raw[12..16]),
                            sync.refid
                        ),
                    );
                }
                let marker_ok = ans.ver == 4 && upgrade_req && &raw[16..24] == UPGRADE_TS;
                if !marker_ok {
                    free.extend(16..24); // reference timestamp
                }
            }
        }
        Kind::Deny | Kind::Rate | Kind::Nak | Kind::OtherKiss => {
            if raw[32..40] != [0; 8] || raw[40..48] != [0; 8] {
                v.bad(
                    "C18:kiss-has-timestamps",
                    format!(
                        "{kind:?} answer carries receive {} transmit {}",
                        common::hex(&raw[32..40]),
                        common::hex(&raw[40..48])
                    ),
                );
            }
            if kind == Kind::OtherKiss {
                v.bad(
                    "C18:unknown-kiss",
                    format!("stratum 0 answer with code {}", common::hex(&raw[12..16])),
                );
            }
            free.push(0);
            free.extend(1..16);
            if ans.ver == 5 {
                if raw[16..24] == req[16..24] {
                    v.bad(
                        "C18:reflects-request-content",
                        "the request's server-cookie field came back".into(),
                    );
                }
            } else {
                free.extend(16..24);
            }
        }
    }
    if let Some(bl) = baseline {
        for i in free {
            let (a, b) = if i == 0 {
                (raw[0] & 0xC7, bl[0] & 0xC7)
            } else {
                (raw[i], bl[i])
            };
            if a != b {
                v.bad(
                    "C18:header-depends-on-request",
                    format!(
                        "{kind:?} answer header byte {i} is {a:#04x}, the canonical poll in the same state gets {b:#04x} (request byte {:#04x})",
                        req.get(i).copied().unwrap_or(0)
                    ),
                );
                break;
            }
        }
    }
}

/// multiset matching of answer identifiers against request identifiers
fn match_uid(body: &[u8], pool: &mut Vec<Option<Vec<u8>>>) -> bool {
    for slot in pool.iter_mut() {
        if let Some(req) = slot {
            if body.len() >= req.len()
                && body[..req.len()] == req[..]
                && body[req.len()..].iter().all(|b| *b == 0)
            {
                *slot = None;
                return true;
            }
        }
    }
    false
}

fn check_fields(
    v: &mut Verdicts,
    ans: &Answer,
    opened: &Result<Opened, String>,
    b: &Built,
    clean: bool,
) {
    let mut pool: Vec<Option<Vec<u8>>> = b
        .uids
        .iter()
        .map(|(body, _, _)| Some(body.clone()))
        .collect();
    let mut refpool: Vec<Option<(usize, usize)>> = b
        .refreqs
        .iter()
        .map(|(l, o, _, _)| Some((*l, *o)))
        .collect();
    let has_auth = ans.fields.iter().any(|f| f.ty == T_AUTH);
    let mut echoed: Vec<Vec<u8>> = vec![];
    let mut one = |v: &mut Verdicts, f: &AField, encrypted: bool| {
        if f.pad.iter().any(|x| *x != 0) {
            v.bad(
                "C18:padding-not-zero",
                format!(
                    "field {:04x} at {} has non-zero padding {}",
                    f.ty,
                    f.off,
                    common::hex(&f.pad)
                ),
            );
        }
        match f.ty {
            T_UID if !encrypted => {
                if match_uid(&f.body, &mut pool) {
                    echoed.push(f.body.clone());
                } else {
                    v.bad(
                        "C18:uid-not-from-request",
                        format!("unique identifier {} in the answer is not (one more copy of) an identifier of the request", common::hex(&f.body)),
                    );
                }
            }
            T_REFRESP if !encrypted && ans.ver == 5 => {
                let mut ok = false;
                for slot in refpool.iter_mut() {
                    if let Some((l, o)) = slot {
                        if *l == f.body.len()
                            && *o + *l <= 512
                            && f.body
                                .iter()
                                .enumerate()
                                .all(|(i, x)| *x == bloom_byte(*o + i))
                        {
                            *slot = None;
                            ok = true;
                            break;
                        }
                    }
                }
                if !ok {
                    v.bad(
                        "C18:refid-response-wrong",
                        format!("reference-id response of {} bytes does not equal a requested window of the server's filter", f.body.len()),
                    );
                }
            }
            T_DRAFT if !encrypted && ans.ver == 5 => {
                if f.body != DRAFT {
                    v.bad(
                        "C18:unexpected-field",
                        format!(
                            "draft identification {:?}",
                            String::from_utf8_lossy(&f.body)
                        ),
                    );
                }
            }
            T_PAD if !encrypted && ans.ver == 5 => {
                if f.body.iter().any(|x| *x != 0) {
                    v.bad(
                        "C18:padding-not-zero",
                        format!("padding field at {} is not zero", f.off),
                    );
                }
            }
            T_COOKIE if encrypted => {}
            T_AUTH if !encrypted => {
                if !matches!(b.auth, AuthState::Valid | AuthState::Ambiguous) {
                    v.bad(
                        "C18:unexpected-field",
                        format!("authenticator in the answer to a request whose authentication state is {:?}", b.auth),
                    );
                }
            }
            ty => v.bad(
                if encrypted {
                    "C18:unexpected-encrypted-field"
                } else {
                    "C18:unexpected-field"
                },
                format!(
                    "field type {ty:04x} ({} bytes, body {}) in the answer",
                    f.declared,
                    common::hex(&f.body[..f.body.len().min(24)])
                ),
            ),
        }
    };
    for f in &ans.fields {
        one(v, f, false);
    }
    if has_auth {
        match opened {
            Ok(o) => {
                for f in &o.inner {
                    one(v, f, true);
                }
            }
            Err(e) => v.bad(
                "C18:unopenable-authenticator",
                format!("the answer's authenticator cannot be inspected: {e}"),
            ),
        }
    }
    // lower bound: identifiers that must have been echoed
    if clean && b.auth != AuthState::Ambiguous {
        for (body, zone, _) in &b.uids {
            // only identifiers in front of the authenticator (or of a plain request): whether
            // unauthenticated trailing identifiers are echoed differs by answer type
            let must = matches!(zone, Zone::Pre);
            if must {
                if let Some(p) = echoed
                    .iter()
                    .position(|e| e.len() >= body.len() && e[..body.len()] == body[..])
                {
                    echoed.remove(p);
                } else {
                    v.bad(
                        "C18:uid-echo-missing",
                        format!(
                            "unique identifier {} of the request is not echoed",
                            common::hex(body)
                        ),
                    );
                }
            }
        }
    }
}

fn check_reflection(v: &mut Verdicts, ans: &Answer, opened: &Result<Opened, String>, b: &Built) {
    let mut views: Vec<&[u8]> = vec![&ans.raw];
    if let Ok(o) = opened {
        views.push(&o.plaintext);
    }
    for t in &b.forbidden {
        for view in &views {
            if let Some(p) = find(view, t) {
                v.bad(
                    "C18:reflects-request-content",
                    format!("request bytes {} (not an identifier field) occur at offset {p} of the answer{}", common::hex(t), if view.len() == ans.raw.len() { "" } else { "'s decrypted part" }),
                );
                return;
            }
        }
    }
    // the echoed identifier occurs exactly once (at 24..32)
    if b.bytes.len() >= 48 {
        let id = if (b.bytes[0] >> 3) & 7 == 5 {
            &b.bytes[24..32]
        } else {
            &b.bytes[40..48]
        };
        let n = ans.raw.windows(8).filter(|w| *w == id).count()
            + views
                .get(1)
                .map(|p| p.windows(8).filter(|w| *w == id).count())
                .unwrap_or(0);
        if n > 1 {
            v.bad(
                "C18:reflects-request-content",
                format!("the request's identifier occurs {n} times in the answer"),
            );
        }
    }
}

/// RFC 7822-clean: every field >= 16 bytes, the last one >= 28 when no MAC follows, MAC of
/// 0/20/24 bytes (v4); v5: no junk tail. Only for such requests is the set of fields the
/// server must have seen unambiguous.
fn is_clean(req: &Req, b: &Built) -> bool {
    match req.ver {
        5 => req.mac == 0,
        4 => {
            b.spans.iter().all(|s| s.wire >= 16)
                && matches!(req.mac, 0 | 20 | 24)
                && (req.mac != 0 || b.spans.last().map(|s| s.wire >= 28).unwrap_or(true))
        }
        _ => false,
    }
}

struct EnvC {
    cfg: Cfg,
    sync: Sync,
    keys: KeyEnv,
    base: Baselines,
}

fn judge(
    findings: &Findings,
    mut loc: Option<&mut Local>,
    env: &EnvC,
    server: &mut Server<super::c16::MockClock>,
    req: &Req,
    b: &Built,
    cut: usize,
    full_len: usize,
) -> String {
    let trace = || {
        format!(
            "{};{};k{};{};cut={}",
            env.cfg.code(),
            env.sync.code(),
            env.keys.rotated as u8,
            req.code(),
            cut
        )
    };
    let mut inc = |k: &'static str| {
        if let Some(l) = loc.as_deref_mut() {
            l.inc(k);
        }
    };
    inc("evaluations");
    let handled = match run_handle(server, client_ip(0), &b.bytes, BIG_BUF) {
        Ok(h) => h,
        Err(p) => {
            findings.report(
                "C18:panic",
                b.bytes.len(),
                || format!("Server::handle panicked: {p}"),
                trace,
            );
            return format!("panic {p}");
        }
    };
    let raw = match handled.out {
        Out::Ignore => {
            inc("ignored");
            return "ignored".into();
        }
        Out::Respond(a) => a,
    };
    inc("answered");
    let ans = match walk(&raw) {
        Ok(a) => a,
        Err(e) => {
            findings.report(
                "C18:answer-malformed",
                b.bytes.len(),
                || format!("answer cannot be walked ({e}): {}", common::hex(&raw)),
                trace,
            );
            return format!("malformed answer: {e}");
        }
    };
    let kind = ans.kind();
    inc(kind_key(kind));
    let has_auth = ans.fields.iter().any(|f| f.ty == T_AUTH);
    let sess = req.session();
    let opened = if has_auth {
        open_nts(&ans, sess.s2c().as_ref())
    } else {
        Err("no authenticator".into())
    };
    if has_auth {
        inc("answers_nts");
    }
    let mut v = Verdicts { v: vec![] };
    check_header(
        &mut v,
        &ans,
        &b.bytes,
        req.upgrade && req.ver == 4,
        &env.sync,
        &env.base,
    );
    let clean = cut == full_len && is_clean(req, b);
    if clean {
        inc("clean_requests_answered");
    }
    check_fields(&mut v, &ans, &opened, b, clean);
    check_reflection(&mut v, &ans, &opened, b);
    let n_uid = ans.fields.iter().filter(|f| f.ty == T_UID).count();
    if n_uid > 0 {
        inc("answers_echoing_uid");
    }
    if ans.fields.iter().any(|f| f.ty == T_REFRESP) {
        inc("answers_with_refid_response");
    }
    if req.upgrade && ans.ver == 4 && &raw[16..24] == UPGRADE_TS {
        inc("answers_with_upgrade_marker");
    }
    let obs = format!(
        "{kind:?} v{} {} bytes fields=[{}] inner=[{}] verdicts=[{}]",
        ans.ver,
        raw.len(),
        ans.fields
            .iter()
            .map(|f| format!("{:04x}:{}", f.ty, f.declared))
            .collect::<Vec<_>>()
            .join(","),
        opened
            .as_ref()
            .map(|o| o
                .inner
                .iter()
                .map(|f| format!("{:04x}:{}", f.ty, f.declared))
                .collect::<Vec<_>>()
                .join(","))
            .unwrap_or_default(),
        v.v.iter().map(|(c, _)| *c).collect::<Vec<_>>().join(",")
    );
    for (class, msg) in v.v {
        findings.report(
            class,
            b.bytes.len(),
            || {
                format!(
                    "{msg}; request {} = {}; answer = {}",
                    req.code(),
                    common::hex(&b.bytes),
                    common::hex(&raw)
                )
            },
            trace,
        );
    }
    obs
}

// ---- schedules: the snapshot is being replaced while a request is handled -------------------

/// Distinct, non-default snapshots (the default is stratum 16, leap unknown, reference id XNON,
/// zero root delay/dispersion, empty Bloom filter).
fn published_states() -> Vec<Sync> {
    let mk = |stratum, leap, refid: u32, d: i8, var_base, var_linear, p| Sync {
        stratum,
        leap,
        refid,
        root_delay_exp: Some(d),
        var_base,
        var_linear,
        precision_exp: p,
    };
    vec![
        mk(1, 0, u32::from_be_bytes(*b"GPS\0"), -6, 0.0625, 0.0, -20),
        mk(2, 1, 0x0A00_0001, -1, 0.25, 0.0, -18),
        mk(15, 2, 0xC0A8_0102, -3, 0.0, 1.0 / 64.0, -22),
        mk(1, 3, u32::from_be_bytes(*b"PPS\0"), -8, 1.0, 0.0, -24),
        mk(2, 4, 0x7F00_0001, -2, 0.0, 1.0 / 16.0, -19),
        mk(15, 0, 0x0808_0808, -5, 0.015625, 0.0, -17),
    ]
}

const SCHEDULE_REQUESTS: [&str; 5] = [
    "v3.m3.p6.l0.g0.a0||m0",
    "v4.m3.p6.l0.g0.a0|u32|m0",
    "v5.m3.p6.l0.g0.a0|u32,r16@32,d1|m0",
    "v4.m3.p6.l0.g0.a0|u32,cC0,Aok()|m0",
    "v5.m3.p6.l0.g0.a0|u32,cC0,r16@32,d1,Aok()|m0",
];

/// Schedule S1: the harness holds the WRITE lock of the shared snapshot before the handler
/// thread starts, keeps it until the handler has returned or has been seen blocked for 50 ms,
/// optionally stores snapshot `after`, releases. The answer must describe a *published*
/// snapshot: `before` or (if stored) `after` — never anything else.
fn run_schedule(
    findings: &Findings,
    mut loc: Option<&mut Local>,
    before: &Sync,
    after: Option<&Sync>,
    keys: &KeyEnv,
    req: &Req,
) -> String {
    use std::sync::atomic::{AtomicBool, Ordering};
    use std::sync::{Arc, RwLock};
    use std::time::{Duration, Instant};
    let trace = || {
        format!(
            "sched;{};{};k{};{}",
            before.code(),
            after.map(|a| a.code()).unwrap_or_else(|| "-".into()),
            keys.rotated as u8,
            req.code()
        )
    };
    let info = Arc::new(RwLock::new(super::c16::server_info(before)));
    let mut server = super::c16::make_server_shared(Cfg::Open, info.clone(), &keys.server);
    let b = build(req, keys);
    let done = AtomicBool::new(false);
    let mut blocked = false;
    let mut dead_man = false;
    let mut handled = None;
    std::thread::scope(|s| {
        let mut guard = info.write().expect("fresh lock");
        let h = s.spawn(|| {
            let r = run_handle(&mut server, client_ip(0), &b.bytes, BIG_BUF);
            done.store(true, Ordering::SeqCst);
            r
        });
        let t0 = Instant::now();
        while !done.load(Ordering::SeqCst) && t0.elapsed() < Duration::from_millis(50) {
            std::thread::sleep(Duration::from_micros(200));
        }
        blocked = !done.load(Ordering::SeqCst);
        if let Some(a) = after {
            *guard = super::c16::server_info(a);
        }
        drop(guard); // released on every path before joining
        let t1 = Instant::now();
        while !done.load(Ordering::SeqCst) {
            if t1.elapsed() > Duration::from_secs(30) {
                dead_man = true;
                break;
            }
            std::thread::sleep(Duration::from_micros(200));
        }
        // the lock is free, so the handler cannot be blocked by the harness any more
        handled = Some(h.join());
    });
    if let Some(l) = loc.as_deref_mut() {
        l.inc("evaluations");
        l.inc("schedule_cases");
        l.inc(if blocked { "schedule_handler_waited_for_the_writer" } else { "schedule_handler_returned_while_write_locked" });
        if dead_man {
            l.inc("schedule_dead_man_expired");
        }
    }
    let raw = match handled {
        Some(Ok(Ok(h))) => match h.out {
            Out::Respond(a) => a,
            Out::Ignore => {
                findings.report("C18:schedule-no-answer", b.bytes.len(), || "canonical request ignored while the snapshot was being replaced".into(), trace);
                return "ignored".into();
            }
        },
        Some(Ok(Err(p))) => {
            findings.report("C18:panic", b.bytes.len(), || format!("Server::handle panicked: {p}"), trace);
            return format!("panic {p}");
        }
        _ => return "handler thread lost".into(),
    };
    let ans = match walk(&raw) {
        Ok(a) => a,
        Err(e) => {
            findings.report("C18:answer-malformed", b.bytes.len(), || format!("{e}: {}", common::hex(&raw)), trace);
            return format!("malformed: {e}");
        }
    };
    let has_auth = ans.fields.iter().any(|f| f.ty == T_AUTH);
    let opened = if has_auth { open_nts(&ans, req.session().s2c().as_ref()) } else { Err("no authenticator".into()) };
    // candidates: the snapshot at release first, then the one before
    let mut candidates: Vec<&Sync> = vec![];
    if let Some(a) = after {
        candidates.push(a);
    }
    candidates.push(before);
    let mut first: Option<Verdicts> = None;
    let mut matched = None;
    for (ci, cand) in candidates.iter().enumerate() {
        let base = baselines(Cfg::Open, cand, keys);
        let mut v = Verdicts { v: vec![] };
        check_header(&mut v, &ans, &b.bytes, false, cand, &base);
        check_fields(&mut v, &ans, &opened, &b, true);
        check_reflection(&mut v, &ans, &opened, &b);
        if v.v.is_empty() {
            matched = Some(ci);
            break;
        }
        if first.is_none() {
            first = Some(v);
        }
    }
    if let (None, Some(v)) = (matched, first) {
        for (class, msg) in v.v {
            findings.report(
                class,
                b.bytes.len(),
                || {
                    format!(
                        "while the snapshot was write-locked{}: {msg} — the answer describes no published snapshot (stratum {}, leap {}, bytes 4..16 {}); request {}; answer = {}",
                        if after.is_some() { " and replaced" } else { "" },
                        ans.stratum,
                        ans.leap,
                        common::hex(&raw[4..16]),
                        req.code(),
                        common::hex(&raw)
                    )
                },
                trace,
            );
        }
    }
    if let Some(l) = loc.as_deref_mut() {
        match matched {
            Some(0) if after.is_some() => l.inc("schedule_answer_from_new_snapshot"),
            Some(_) => l.inc("schedule_answer_from_old_snapshot"),
            None => l.inc("schedule_answer_from_unpublished_state"),
        }
    }
    format!(
        "{:?} stratum {} leap {} -> {}",
        ans.kind(),
        ans.stratum,
        ans.leap,
        match matched {
            Some(0) if after.is_some() => "new snapshot",
            Some(_) => "old snapshot",
            None => "UNPUBLISHED state",
        }
    )
}

/// Schedule S2 (observation only): the lock was poisoned by a writer that panicked.
fn poisoned_lock_observation(keys: &KeyEnv) -> String {
    use std::sync::{Arc, RwLock};
    let st = published_states()[1];
    let info = Arc::new(RwLock::new(super::c16::server_info(&st)));
    let _ = common::catch(|| {
        let _g = info.write().unwrap();
        panic!("writer dies while holding the snapshot lock");
    });
    let mut server = super::c16::make_server_shared(Cfg::Open, info.clone(), &keys.server);
    let r = Req::parse(SCHEDULE_REQUESTS[1]).unwrap();
    let b = build(&r, keys);
    match run_handle(&mut server, client_ip(0), &b.bytes, BIG_BUF) {
        Err(p) => format!("poisoned={}: Server::handle panics ({p})", info.is_poisoned()),
        Ok(h) => match h.out {
            Out::Ignore => format!("poisoned={}: request ignored", info.is_poisoned()),
            Out::Respond(a) => format!("poisoned={}: answered with stratum {} (published stratum {})", info.is_poisoned(), a[1], st.stratum),
        },
    }
}

fn all_states() -> Vec<Sync> {
    let mut v = vec![];
    for (si, stratum) in [1u8, 2, 16].into_iter().enumerate() {
        for leap in 0u8..5 {
            for root in 0..3 {
                let (root_delay_exp, var_base, var_linear) = match root {
                    0 => (None, 0.0, 0.0),
                    1 => (Some(-1), 0.25, 0.0),
                    _ => (Some(-4), 0.0, 1.0 / 64.0),
                };
                v.push(Sync {
                    stratum,
                    leap,
                    refid: [
                        u32::from_be_bytes(*b"GPS\0"),
                        0x7F00_0001,
                        u32::from_be_bytes(*b"XNON"),
                    ][si],
                    root_delay_exp,
                    var_base,
                    var_linear,
                    precision_exp: if root == 2 { -25 } else { -18 },
                });
            }
        }
    }
    v
}

fn n_symbols(r: &Req) -> usize {
    r.fields
        .iter()
        .filter(|f| !matches!(f, Fld::Draft(true)))
        .count()
}

fn replay(ctx: &Ctx, trace: &str) -> String {
    // "<cfg>;<sync>;k<0|1>;<req code>;cut=<n>"
    let p: Vec<&str> = trace.split(';').collect();
    if p.first() == Some(&"sched") && p.len() == 5 {
        // "sched;<before>;<after|->;k<0|1>;<req code>"
        let (Some(before), Some(req)) = (Sync::parse(p[1]), Req::parse(p[4])) else {
            return format!("unparseable trace {trace:?}");
        };
        let after = if p[2] == "-" { None } else { Sync::parse(p[2]) };
        let keys = key_env(p[3] == "k1");
        let findings = Findings::new();
        let obs = run_schedule(&findings, None, &before, after.as_ref(), &keys, &req);
        findings.flush(ctx);
        return obs;
    }
    if p.len() != 5 {
        return format!("unparseable trace {trace:?}");
    }
    let (Some(cfg), Some(sync), Some(req)) =
        (Cfg::parse(p[0]), Sync::parse(p[1]), Req::parse(p[3]))
    else {
        return format!("unparseable trace {trace:?}");
    };
    let keys = key_env(p[2] == "k1");
    let base = baselines(cfg, &sync, &keys);
    let env = EnvC {
        cfg,
        sync,
        keys,
        base,
    };
    let full = build(&req, &env.keys);
    let full_len = full.bytes.len().min(MAX_DATAGRAM);
    let cut: usize = p[4]
        .trim_start_matches("cut=")
        .parse()
        .unwrap_or(usize::MAX)
        .min(full_len);
    let b = full.truncated(cut);
    let findings = Findings::new();
    let mut server = make_server(cfg, &sync, &env.keys.server);
    let obs = judge(&findings, None, &env, &mut server, &req, &b, cut, full_len);
    findings.flush(ctx);
    obs
}

#[test]
fn check() {
    let ctx = Ctx::new("C18");
    if let Some(t) = common::replay_trace() {
        let a = replay(&ctx, &t);
        let b = replay(&ctx, &t);
        common::report_replay("C18", &a, &b, ctx.violation_count() > 0);
        return;
    }
    let thorough = !ctx.quick();
    ctx.rule(
        "grammar G of c16.rs with tagged contents. (a) all 45 synchronisation states {stratum 1,2,16} x {leap none,+1,-1,unknown,unsynchronised} x \
         {root delay/dispersion 0/0, 0.5/0.5, 2^-4/0.5 via linear term} x requests of <=1 symbol, open configuration; (b) 6 states x requests of <=2 symbols; \
         (c) {typical, unsynchronised} x all requests of <=3 symbols, open configuration; (d) configurations {denylist->DENY, require-NTS->DENY, \
         allowlist-miss->DENY} x all requests (typical state); (e) every truncation of requests of <=2 symbols (open, typical; thorough: <=3); \
         (f) schedules: 6 non-default snapshots x {v3, v4, v5+refid request, NTS v4, NTS v5+refid request} x {write lock held while the request is handled and released \
         unchanged, write lock held and the next snapshot stored before release}; the handler thread is started after the lock is taken and the lock is kept until it \
         returned or was seen blocked for 50 ms; the answer must describe a published snapshot (old or, if stored, new). \
         Distinct & non-trivial = an answered (environment, request, cut).",
    );
    ctx.assume("DENY/RATE/NTS-NAK answers are not required to echo the poll (NTPv5 encodes the kiss code in it, NTPv4 answers 0); their remaining header bytes are compared with the canonical answer of the same kind instead");
    ctx.assume("a plain NTPv4 time answer may carry the NTPv5 upgrade marker 'NTP5DRFT' as reference timestamp iff the request carried it (version negotiation), this is not counted as reflection");
    ctx.assume("root delay/dispersion are compared with a tolerance of one unit of the wire format (2^-15 s short format, 2^-26 s time32)");
    ctx.assume("unique identifiers inside the encrypted part of a request may or may not be echoed (they are identifier fields of the request)");
    let findings = Findings::new();
    // (f) schedules: the snapshot is write-locked / replaced / poisoned while a request is handled
    {
        let keys = key_env(true);
        let states = published_states();
        let reqs: Vec<Req> = SCHEDULE_REQUESTS.iter().map(|c| Req::parse(c).expect("schedule request")).collect();
        // (before, after): S1a = every state without a store, S1b = every state replaced by the next one
        let mut cases: Vec<(usize, Option<usize>, usize)> = vec![];
        for a in 0..states.len() {
            for r in 0..reqs.len() {
                cases.push((a, None, r));
                cases.push((a, Some((a + 1) % states.len()), r));
            }
        }
        common::par_for_with(
            cases.len() as u64,
            1,
            || Local::new(&ctx),
            |loc, i| {
                let (a, bst, r) = cases[i as usize];
                let obs = run_schedule(&findings, Some(loc), &states[a], bst.map(|x| &states[x]), &keys, &reqs[r]);
                loc.distinct(common::hash_of(&("sched", a, bst, r)));
                if i < 2 {
                    ctx.sample(format!("schedule S1{} {} -> {obs}", if bst.is_some() { 'b' } else { 'a' }, reqs[r].code()));
                }
            },
        );
        if ctx.get("schedule_dead_man_expired") > 0 {
            ctx.cap_hit("a handler thread did not return within 30 s after the snapshot lock was released");
        }
        ctx.note("poisoned_snapshot_lock", &poisoned_lock_observation(&keys));
    }
    let reqs = grammar(thorough, 3);
    ctx.set("grammar_requests", reqs.len() as u64);
    let states = all_states();
    ctx.set("sync_states", states.len() as u64);
    let six: Vec<Sync> = vec![
        states[4], states[8], states[16], states[24], states[30], states[44],
    ];
    // (configuration, state, rotated, max symbols, truncation max symbols [0 = none])
    let mut plan: Vec<(Cfg, Sync, bool, usize, usize)> = vec![];
    for (i, s) in states.iter().enumerate() {
        plan.push((Cfg::Open, *s, i % 2 == 0, 1, 0));
    }
    for (i, s) in six.iter().enumerate() {
        plan.push((Cfg::Open, *s, i % 2 == 1, 2, 0));
    }
    plan.push((
        Cfg::Open,
        Sync::TYPICAL,
        true,
        3,
        if thorough { 3 } else { 2 },
    ));
    plan.push((Cfg::Open, Sync::UNSYNC, false, 3, 0));
    plan.push((Cfg::DenyList, Sync::TYPICAL, true, 3, 0));
    plan.push((Cfg::RequireNtsDeny, Sync::TYPICAL, false, 3, 0));
    plan.push((Cfg::AllowMissDeny, Sync::UNSYNC, true, 3, 0));
    for (pi, (cfg, sync, rotated, max_sym, trunc_sym)) in plan.iter().enumerate() {
        let keys = key_env(*rotated);
        let base = baselines(*cfg, sync, &keys);
        ctx.add("baselines", base.len() as u64);
        let env = EnvC {
            cfg: *cfg,
            sync: *sync,
            keys,
            base,
        };
        let subset: Vec<&Req> = reqs.iter().filter(|r| n_symbols(r) <= *max_sym).collect();
        common::par_for_with(
            subset.len() as u64,
            32,
            || {
                (
                    Local::new(&ctx),
                    make_server(env.cfg, &env.sync, &env.keys.server),
                )
            },
            |(loc, server), i| {
                let req = subset[i as usize];
                let mut full = build(req, &env.keys);
                let mut capped = false;
                if full.bytes.len() > MAX_DATAGRAM {
                    full = full.truncated(MAX_DATAGRAM);
                    capped = true;
                }
                let n = full.bytes.len();
                loc.inc("cases");
                let cuts: Vec<usize> = if n_symbols(req) <= *trunc_sym && *trunc_sym > 0 {
                    (48..=n).collect()
                } else {
                    vec![n]
                };
                for cut in cuts {
                    let b = if cut == n {
                        full.clone()
                    } else {
                        full.truncated(cut)
                    };
                    // a request capped by the receive size is not "clean" (its tail is missing)
                    let obs = judge(
                        &findings,
                        Some(loc),
                        &env,
                        server,
                        req,
                        &b,
                        cut,
                        if capped { usize::MAX } else { n },
                    );
                    if obs != "ignored" {
                        loc.distinct(common::hash_of(&(
                            env.cfg.code(),
                            env.sync.code(),
                            req,
                            cut,
                        )));
                    }
                }
            },
        );
        if ctx.over_budget() && pi + 1 < plan.len() {
            ctx.cap_hit(&format!(
                "budget reached after {} of {} plan entries",
                pi + 1,
                plan.len()
            ));
            findings.flush(&ctx);
            ctx.exhaustive(false);
            ctx.finish();
            return;
        }
    }
    // samples
    {
        let keys = key_env(true);
        let base = baselines(Cfg::Open, &Sync::TYPICAL, &keys);
        let env = EnvC {
            cfg: Cfg::Open,
            sync: Sync::TYPICAL,
            keys,
            base,
        };
        let mut server = make_server(env.cfg, &env.sync, &env.keys.server);
        for code in [
            "v4.m3.p6.l0.g0.a0|u32,k24|m0",
            "v4.m3.p10.l0.g1.a0||m0",
            "v4.m3.p6.l0.g0.a0|u32,cC0,Aok(u32+k24)|m0",
            "v4.m3.p6.l0.g0.a0|u32,cE0,Aok(u32+k24)|m0",
            "v5.m3.p4.l0.g0.a0|u32,r16@0,k24,d1|m0",
            "v5.m3.p4.l0.g0.a0|u32,cC0,p0,d1,Aok()|m0",
        ] {
            let r = Req::parse(code).unwrap();
            let b = build(&r, &env.keys);
            let f = Findings::new();
            let o = judge(
                &f,
                None,
                &env,
                &mut server,
                &r,
                &b,
                b.bytes.len(),
                b.bytes.len(),
            );
            ctx.sample(format!("{code} -> {o}"));
        }
    }
    findings.flush(&ctx);
    ctx.set("transitions", ctx.get("evaluations"));
    ctx.set("states", ctx.get("cases"));
    ctx.exhaustive(true);
    ctx.finish();
}
