//! C18: not implemented yet.
