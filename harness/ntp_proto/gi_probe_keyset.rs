//! Group gi probe (child of `crate::keyset`): read / construct `KeySet`s whose fields are
//! private to the module. Only reads, clones and constructs; never changes behaviour.
use std::sync::Arc;

use super::super::{KeySet, KeySetProvider};
use crate::packet::{AesSivCmac512, Cipher};

/// Plain-data copy of a key set.
#[derive(Clone, Debug, PartialEq, Eq, Hash)]
pub(crate) struct View {
    pub keys: Vec<Vec<u8>>,
    pub id_offset: u32,
    pub primary: u32,
}

pub(crate) fn view(ks: &KeySet) -> View {
    View {
        keys: ks.keys.iter().map(|k| k.key_bytes().to_vec()).collect(),
        id_offset: ks.id_offset,
        primary: ks.primary,
    }
}

pub(crate) fn history(p: &KeySetProvider) -> usize {
    p.history
}

/// Construct a provider holding exactly this key set (every key must be 64 bytes).
pub(crate) fn build(v: &View, history: usize) -> KeySetProvider {
    KeySetProvider {
        current: Arc::new(KeySet {
            keys: v
                .keys
                .iter()
                .map(|k| AesSivCmac512::try_from(k.as_slice()).expect("64 byte key"))
                .collect(),
            id_offset: v.id_offset,
            primary: v.primary,
        }),
        history,
    }
}

/// Independent copy of a provider (same keys, same ids, same history).
pub(crate) fn clone_provider(p: &KeySetProvider) -> KeySetProvider {
    build(&view(&p.current), p.history)
}

/// (number of keys, id offset, primary) without copying key material.
pub(crate) fn meta(ks: &KeySet) -> (usize, u32, u32) {
    (ks.keys.len(), ks.id_offset, ks.primary)
}
