//! C07: not implemented yet.
