//! C07 — NTS sources ignore everything that is not authenticated.
//!
//! Engine E-SEQ + positional sweep. The subject is the real `NtpSource` created with
//! `SourceNtsData`; a real `Server` with a real `KeySet` produces the genuine answers.
//!
//! 1. States: all event words over {T = timer/poll, G = genuine answer to the pending
//!    request, A = advance 6 s (response window closes), R = authenticated RATE kiss}
//!    up to a depth, deduplicated on the masked probe key (random identifiers masked).
//!    Scenarios: negotiated NTPv4 / NTPv5 x 256 / 512-bit keys x cookies delivered by the
//!    key exchange (8; thorough also 2, which makes the requests carry placeholders).
//!    The source is not `Clone`: every state is rebuilt by replaying its word on a fresh
//!    source; identifiers are read back from the request the source emitted.
//! 2. At every state the complete injection alphabet X(state) is delivered, one datagram
//!    after the other, to the live source (see `alphabet`): replays, the genuine answer
//!    re-keyed, EVERY single-bit flip and EVERY truncation of the genuine answer, the
//!    complete product grammar of unauthenticated v4 / v5 headers (KISS codes, strata,
//!    poll values, flags, modes, versions) x UID placement x id match, authenticators under
//!    wrong keys, authenticated datagrams with a wrong / missing / misplaced UID, cookie
//!    fields outside the encrypted part, cross-session answers from the real server.
//!    All datagrams are assembled at BYTE level by the harness.
//!
//! Oracle (independent of the decoder under test): `authentic(d)` = there is a live
//! pending request, bytes 24..32 of d equal the request's origin timestamp / client
//! cookie, and d contains an NTS authenticator field that the crate's `Cipher::decrypt`
//! verifies under the session's S2C key with AAD = all bytes before it, such that the
//! request's 32-byte unique identifier occurs in that AAD or in the decrypted plaintext.
//! For every datagram that is NOT authentic: no action returned, the controller saw
//! nothing, and the complete probe key (every field of the source incl. stash contents)
//! is identical before and after. For an authentic datagram the cookies added to the stash
//! must be exactly the cookie fields of the decrypted plaintext (or nothing at all).
//! A second delivery of an authentic datagram is judged by the same predicate: once the
//! request is consumed, expired or superseded it is a `replay:*` and must have no effect; an
//! authentic kiss does not consume the request, so its duplicate is still authenticated and
//! bound and C07 does not restrict it (single use of cookies is C13's subject).
use std::collections::{BTreeMap, HashMap, HashSet};
use std::net::{IpAddr, Ipv4Addr, SocketAddr};
use std::sync::{Arc, Mutex, RwLock};
use std::time::Duration;

use super::common::{self, Ctx};

/// Shared test rig of group gc (also used by c13.rs and c14.rs).
pub(super) mod rig {
    use std::collections::HashMap;
    use std::net::{IpAddr, Ipv4Addr, SocketAddr};
    use std::sync::{Arc, Mutex, RwLock};
    use std::time::Duration;

    use crate::algorithm::{Measurement, ObservableSourceTimedata, SourceController};
    use crate::config::SourceConfig;
    use crate::cookiestash::CookieStash;
    use crate::keyset::{DecodedServerCookie, KeySet};
    use crate::nts::AeadAlgorithm;
    use crate::packet::{AesSivCmac256, AesSivCmac512, Cipher};
    use crate::server::{
        FilterAction, FilterList, Server, ServerAction, ServerConfig, ServerReason, ServerResponse,
        ServerStatHandler,
    };
    use crate::source::verif_probe::gc as probe;
    use crate::source::{NtpSource, NtpSourceAction, ProtocolVersion, SourceNtsData};
    use crate::system::{NtpServerInfo, NtpSourceInfo};
    use crate::time_types::{NtpDuration, NtpTimestamp, PollInterval, PollIntervalLimits};
    use crate::{ClockId, NtpClock, NtpLeapIndicator, NtpVersion};

    pub(crate) use probe::Key;

    // ----------------------------------------------------------------- controller stub
    #[derive(Debug)]
    pub struct RecCtl {
        pub log: Arc<Mutex<Vec<String>>>,
        pub desired: PollInterval,
    }
    impl SourceController for RecCtl {
        fn handle_measurement(&mut self, m: Measurement) {
            self.log.lock().unwrap().push(format!(
                "meas {:?}->{:?} s={:?} r={:?} rd={:?} rdisp={:?} leap={:?} prec={}",
                m.sender_id,
                m.receiver_id,
                m.sender_ts,
                m.receiver_ts,
                m.root_delay,
                m.root_dispersion,
                m.leap,
                m.precision
            ));
        }
        fn set_usable(&mut self, usable: bool) {
            self.log.lock().unwrap().push(format!("usable {usable}"));
        }
        fn desired_poll_interval(&self) -> PollInterval {
            self.desired
        }
        fn observe(&self) -> ObservableSourceTimedata {
            ObservableSourceTimedata::default()
        }
    }

    // ----------------------------------------------------------------- server side stubs
    #[derive(Debug, Clone)]
    pub struct FixedClock(pub NtpTimestamp);
    impl NtpClock for FixedClock {
        type Error = std::io::Error;
        fn now(&self) -> Result<NtpTimestamp, Self::Error> {
            Ok(self.0)
        }
        fn set_frequency(&self, _: f64) -> Result<NtpTimestamp, Self::Error> {
            Ok(self.0)
        }
        fn get_frequency(&self) -> Result<f64, Self::Error> {
            Ok(0.0)
        }
        fn step_clock(&self, _: NtpDuration) -> Result<NtpTimestamp, Self::Error> {
            Ok(self.0)
        }
        fn disable_ntp_algorithm(&self) -> Result<(), Self::Error> {
            Ok(())
        }
        fn error_estimate_update(&self, _: NtpDuration, _: NtpDuration) -> Result<(), Self::Error> {
            Ok(())
        }
        fn status_update(&self, _: NtpLeapIndicator) -> Result<(), Self::Error> {
            Ok(())
        }
    }
    pub struct NoStats;
    impl ServerStatHandler for NoStats {
        fn register(&mut self, _: u8, _: bool, _: ServerReason, _: ServerResponse) {}
    }

    // ----------------------------------------------------------------- byte level tools
    pub fn pad4(n: usize) -> usize {
        (n + 3) & !3
    }
    /// NTPv4 style extension field: length = padded total, zero padded, at least `min`.
    pub fn ef4(ty: u16, body: &[u8], min: usize) -> Vec<u8> {
        let total = pad4(4 + body.len()).max(pad4(min));
        let mut v = Vec::with_capacity(total);
        v.extend_from_slice(&ty.to_be_bytes());
        v.extend_from_slice(&(total as u16).to_be_bytes());
        v.extend_from_slice(body);
        v.resize(total, 0);
        v
    }
    /// NTPv5 style extension field: length = 4 + body (unpadded), then zero padding to 4.
    pub fn ef5(ty: u16, body: &[u8]) -> Vec<u8> {
        let mut v = Vec::new();
        v.extend_from_slice(&ty.to_be_bytes());
        v.extend_from_slice(&((4 + body.len()) as u16).to_be_bytes());
        v.extend_from_slice(body);
        v.resize(pad4(v.len()), 0);
        v
    }
    pub fn ef(v5: bool, ty: u16, body: &[u8], min: usize) -> Vec<u8> {
        if v5 {
            ef5(ty, body)
        } else {
            ef4(ty, body, min)
        }
    }
    pub const T_UID: u16 = 0x0104;
    pub const T_COOKIE: u16 = 0x0204;
    pub const T_PLACEHOLDER: u16 = 0x0304;
    pub const T_AUTH: u16 = 0x0404;
    pub const T_DRAFT: u16 = 0xF5FF;
    pub const T_REFREQ: u16 = 0xF503;
    pub const DRAFT: &[u8] = b"draft-ietf-ntp-ntpv5-09";

    /// One extension field as found by the harness-side walker.
    #[derive(Clone, Debug)]
    pub struct Field {
        pub off: usize,
        pub ty: u16,
        pub len: usize,
        pub body: Vec<u8>,
    }
    /// Lenient walker: fields from `start` until the framing stops making sense. Returns
    /// the fields and the offset where the walk stopped.
    pub fn walk(data: &[u8], start: usize) -> (Vec<Field>, usize) {
        let mut out = Vec::new();
        let mut off = start;
        while off + 4 <= data.len() {
            let ty = u16::from_be_bytes([data[off], data[off + 1]]);
            let len = u16::from_be_bytes([data[off + 2], data[off + 3]]) as usize;
            if len < 4 || off + len > data.len() {
                break;
            }
            out.push(Field {
                off,
                ty,
                len,
                body: data[off + 4..off + len].to_vec(),
            });
            off += pad4(len);
        }
        (out, off.min(data.len()))
    }

    /// Build an NTS authenticator field over `aad` with `plaintext` (RFC 8915 §5.6).
    pub fn authenticator(cipher: &dyn Cipher, aad: &[u8], plaintext: &[u8]) -> Vec<u8> {
        let mut buf = vec![0u8; plaintext.len() + 64];
        buf[..plaintext.len()].copy_from_slice(plaintext);
        let r = cipher
            .encrypt(&mut buf, plaintext.len(), aad)
            .expect("encrypt");
        let nonce = buf[..r.nonce_length].to_vec();
        let ct = buf[r.nonce_length..r.nonce_length + r.ciphertext_length].to_vec();
        let mut body = Vec::new();
        body.extend_from_slice(&(nonce.len() as u16).to_be_bytes());
        body.extend_from_slice(&(ct.len() as u16).to_be_bytes());
        body.extend_from_slice(&nonce);
        body.resize(pad4(body.len()), 0);
        body.extend_from_slice(&ct);
        body.resize(pad4(body.len()), 0);
        let mut v = Vec::new();
        v.extend_from_slice(&T_AUTH.to_be_bytes());
        v.extend_from_slice(&((4 + body.len()) as u16).to_be_bytes());
        v.extend_from_slice(&body);
        v
    }

    /// Try to open an authenticator framed at `off`; AAD = data[..off].
    pub fn open_at(cipher: &dyn Cipher, data: &[u8], off: usize) -> Option<Vec<u8>> {
        if off + 8 > data.len() || data[off] != 0x04 || data[off + 1] != 0x04 {
            return None;
        }
        let len = u16::from_be_bytes([data[off + 2], data[off + 3]]) as usize;
        if len < 8 || off + len > data.len() {
            return None;
        }
        let nl = u16::from_be_bytes([data[off + 4], data[off + 5]]) as usize;
        let cl = u16::from_be_bytes([data[off + 6], data[off + 7]]) as usize;
        let body = &data[off + 8..off + len];
        let nonce = body.get(..nl)?;
        let ct = body.get(pad4(nl)..pad4(nl) + cl)?;
        cipher.decrypt(nonce, ct, &data[..off]).ok()
    }

    /// All (offset, plaintext) of authenticators that verify under `cipher`.
    pub fn open_all(cipher: &dyn Cipher, data: &[u8]) -> Vec<(usize, Vec<u8>)> {
        let mut v = Vec::new();
        let mut off = 48;
        while off + 8 <= data.len() {
            if let Some(p) = open_at(cipher, data, off) {
                v.push((off, p));
            }
            off += 4;
        }
        v
    }

    pub fn contains(hay: &[u8], needle: &[u8]) -> bool {
        !needle.is_empty() && hay.windows(needle.len()).any(|w| w == needle)
    }

    /// Cookie fields of a decrypted plaintext, `None` if the plaintext is not a clean
    /// sequence of fields.
    pub fn plaintext_cookies(pt: &[u8]) -> Option<Vec<Vec<u8>>> {
        let (fields, end) = walk(pt, 0);
        if end != pt.len() {
            return None;
        }
        Some(
            fields
                .into_iter()
                .filter(|f| f.ty == T_COOKIE)
                .map(|f| f.body)
                .collect(),
        )
    }

    #[allow(clippy::too_many_arguments)]
    pub fn hdr4(
        li: u8,
        vn: u8,
        mode: u8,
        stratum: u8,
        poll: u8,
        refid: [u8; 4],
        reft: [u8; 8],
        org: [u8; 8],
    ) -> Vec<u8> {
        let mut h = vec![0u8; 48];
        h[0] = (li << 6) | ((vn & 7) << 3) | (mode & 7);
        h[1] = stratum;
        h[2] = poll;
        h[3] = 0xEC; // precision -20
        h[4..8].copy_from_slice(&[0, 0, 1, 0]);
        h[8..12].copy_from_slice(&[0, 0, 2, 0]);
        h[12..16].copy_from_slice(&refid);
        h[16..24].copy_from_slice(&reft);
        h[24..32].copy_from_slice(&org);
        h[32..40].copy_from_slice(&[0, 0, 0, 100, 0, 0, 0, 0]);
        h[40..48].copy_from_slice(&[0, 0, 0, 101, 0, 0, 0, 0]);
        h
    }
    pub fn hdr5(
        li: u8,
        mode: u8,
        stratum: u8,
        poll: u8,
        flags: u8,
        server_cookie: [u8; 8],
        client_cookie: [u8; 8],
    ) -> Vec<u8> {
        let mut h = vec![0u8; 48];
        h[0] = (li << 6) | (5 << 3) | (mode & 7);
        h[1] = stratum;
        h[2] = poll;
        h[3] = 0xEC;
        h[4..8].copy_from_slice(&[0, 0, 1, 0]);
        h[8..12].copy_from_slice(&[0, 0, 2, 0]);
        h[12] = 0; // timescale UTC
        h[13] = 0; // era
        h[14] = 0;
        h[15] = flags;
        h[16..24].copy_from_slice(&server_cookie);
        h[24..32].copy_from_slice(&client_cookie);
        h[32..40].copy_from_slice(&[0, 0, 0, 100, 0, 0, 0, 0]);
        h[40..48].copy_from_slice(&[0, 0, 0, 101, 0, 0, 0, 0]);
        h
    }

    // ----------------------------------------------------------------- session
    #[derive(Clone, Copy, Debug, PartialEq, Eq)]
    pub struct Cfg {
        pub pv: ProtocolVersion,
        pub k512: bool,
    }
    impl Cfg {
        pub fn v5(&self) -> bool {
            // what the source puts on the wire for an NTS session
            !matches!(self.pv, ProtocolVersion::V4)
        }
        pub fn name(&self) -> String {
            let v = match self.pv {
                ProtocolVersion::V4 => "v4",
                ProtocolVersion::V5 => "v5",
                ProtocolVersion::UpgradedToV5 => "up5",
                ProtocolVersion::V4UpgradingToV5 { .. } => "v4up",
            };
            format!("{v}-{}", if self.k512 { 512 } else { 256 })
        }
        pub fn parse(s: &str) -> Option<Cfg> {
            let (v, k) = s.split_once('-')?;
            let pv = match v {
                "v4" => ProtocolVersion::V4,
                "v5" => ProtocolVersion::V5,
                "up5" => ProtocolVersion::UpgradedToV5,
                "v4up" => ProtocolVersion::v4_upgrading_to_v5_with_default_tries(),
                _ => return None,
            };
            Some(Cfg {
                pv,
                k512: k == "512",
            })
        }
    }

    pub fn cipher(k512: bool, fill: u8) -> Box<dyn Cipher> {
        if k512 {
            Box::new(AesSivCmac512::new([fill; 64].into()))
        } else {
            Box::new(AesSivCmac256::new([fill; 32].into()))
        }
    }
    pub const C2S: u8 = 0x11;
    pub const S2C: u8 = 0x22;

    pub fn decoded(k512: bool, s2c: u8, c2s: u8) -> DecodedServerCookie {
        DecodedServerCookie {
            algorithm: if k512 {
                AeadAlgorithm::AeadAesSivCmac512
            } else {
                AeadAlgorithm::AeadAesSivCmac256
            },
            s2c: cipher(k512, s2c),
            c2s: cipher(k512, c2s),
        }
    }

    pub fn server_config(deny_all: bool) -> ServerConfig {
        ServerConfig {
            denylist: FilterList {
                filter: if deny_all {
                    vec!["0.0.0.0/0".parse().unwrap()]
                } else {
                    vec![]
                },
                action: FilterAction::Deny,
            },
            allowlist: FilterList {
                filter: vec!["0.0.0.0/0".parse().unwrap()],
                action: FilterAction::Ignore,
            },
            rate_limiting_cutoff: Duration::from_millis(0),
            rate_limiting_cache_size: 0,
            require_nts: None,
            accepted_versions: vec![NtpVersion::V3, NtpVersion::V4, NtpVersion::V5],
        }
    }

    pub fn mk_server(keyset: Arc<KeySet>, deny_all: bool) -> Server<FixedClock> {
        let mut info = NtpServerInfo::default();
        info.ntp_snapshot.stratum = 2;
        info.time_snapshot.leap_indicator = NtpLeapIndicator::NoWarning;
        Server::new_internal(
            server_config(deny_all),
            FixedClock(NtpTimestamp::from_fixed_int(0x0000_0065_0000_0000)),
            Arc::new(RwLock::new(info)),
            keyset,
        )
    }

    pub fn serve(server: &mut Server<FixedClock>, req: &[u8]) -> Option<Vec<u8>> {
        let mut buf = [0u8; 2048];
        match server.handle(
            IpAddr::V4(Ipv4Addr::new(10, 0, 0, 1)),
            NtpTimestamp::from_fixed_int(0x0000_0064_0000_0000),
            req,
            &mut buf,
            &mut NoStats,
        ) {
            ServerAction::Ignore => None,
            ServerAction::Respond { message } => Some(message.to_vec()),
        }
    }

    #[derive(Clone, Debug, PartialEq, Eq)]
    pub enum Out {
        Send(Vec<u8>, Duration),
        Reset,
        Demobilize,
        Other(String),
        /// the code under test panicked (= the daemon would abort)
        Panic(String),
    }

    pub fn fmt_actions(it: impl Iterator<Item = NtpSourceAction>) -> Vec<String> {
        it.map(|a| match a {
            NtpSourceAction::Send(b) => format!("Send({})", b.len()),
            NtpSourceAction::SetTimer(d) => format!("SetTimer({d:?})"),
            NtpSourceAction::Reset => "Reset".to_string(),
            NtpSourceAction::Demobilize => "Demobilize".to_string(),
        })
        .collect()
    }

    #[derive(Clone, Debug)]
    pub struct Exchange {
        pub req: Vec<u8>,
        pub uid: Option<[u8; 32]>,
        /// bytes the answer must carry at 24..32 (v4: our transmit timestamp, v5: client cookie)
        pub id8: [u8; 8],
        pub genuine: Option<Vec<u8>>,
        pub delivered: bool,
    }

    pub struct Rig {
        pub cfg: Cfg,
        pub src: NtpSource<RecCtl>,
        pub log: Arc<Mutex<Vec<String>>>,
        pub keyset: Arc<KeySet>,
        pub server: Server<FixedClock>,
        pub deny_server: Server<FixedClock>,
        pub c2s: Box<dyn Cipher>,
        pub s2c: Box<dyn Cipher>,
        pub exchanges: Vec<Exchange>,
        pub terminal: Option<String>,
        pub limits: PollIntervalLimits,
    }

    pub fn request_ids(v5: bool, req: &[u8]) -> (Option<[u8; 32]>, [u8; 8]) {
        let mut id8 = [0u8; 8];
        if req.len() >= 48 {
            if v5 {
                id8.copy_from_slice(&req[24..32]);
            } else {
                id8.copy_from_slice(&req[40..48]);
            }
        }
        let uid = walk(req, 48)
            .0
            .into_iter()
            .find(|f| f.ty == T_UID && f.body.len() >= 32)
            .map(|f| {
                let mut u = [0u8; 32];
                u.copy_from_slice(&f.body[..32]);
                u
            });
        (uid, id8)
    }

    impl Rig {
        /// A fresh NTS source holding `cookies` (oldest first), or a plain source if `None`.
        pub fn with_cookies(
            cfg: Cfg,
            cookies: Option<Vec<Vec<u8>>>,
            limits: PollIntervalLimits,
            desired: PollInterval,
        ) -> Rig {
            let keyset = Arc::new(KeySet::new());
            let log = Arc::new(Mutex::new(Vec::new()));
            let nts = cookies.map(|cs| {
                let mut stash = CookieStash::default();
                for c in cs {
                    stash.store(c);
                }
                Box::new(SourceNtsData {
                    cookies: stash,
                    c2s: cipher(cfg.k512, C2S),
                    s2c: cipher(cfg.k512, S2C),
                })
            });
            let info = NtpSourceInfo {
                ip_list: Arc::from(Vec::<IpAddr>::new()),
                server_id: Default::default(),
                local_stratum: 16,
            };
            let (src, _init) = NtpSource::new(
                SocketAddr::new(IpAddr::V4(Ipv4Addr::new(10, 0, 0, 2)), 123),
                SourceConfig {
                    poll_interval_limits: limits,
                    initial_poll_interval: limits.min,
                },
                cfg.pv,
                RecCtl {
                    log: log.clone(),
                    desired,
                },
                nts,
                crate::ClockId(7),
                Arc::new(RwLock::new(info)),
                Arc::new(Mutex::new(HashMap::new())),
            );
            Rig {
                cfg,
                src,
                log,
                server: mk_server(keyset.clone(), false),
                deny_server: mk_server(keyset.clone(), true),
                keyset,
                c2s: cipher(cfg.k512, C2S),
                s2c: cipher(cfg.k512, S2C),
                exchanges: Vec::new(),
                terminal: None,
                limits,
            }
        }

        /// NTS source with `n` genuine server cookies of this session.
        pub fn nts(cfg: Cfg, n: usize) -> Rig {
            let ks = KeySet::new();
            let d = decoded(cfg.k512, S2C, C2S);
            let cookies = (0..n).map(|_| ks.encode_cookie(&d)).collect();
            let l = PollIntervalLimits::default();
            Rig::with_cookies(cfg, Some(cookies), l, l.min)
        }

        pub fn server_cookie(&self) -> Vec<u8> {
            self.keyset.encode_cookie(&decoded(self.cfg.k512, S2C, C2S))
        }

        pub fn key(&self) -> Key {
            probe::key(&self.src)
        }

        pub fn timer(&mut self) -> Out {
            let acts: Vec<NtpSourceAction> =
                match crate::verif::common::catch(|| self.src.handle_timer().collect()) {
                    Ok(a) => a,
                    Err(e) => return Out::Panic(e),
                };
            let mut send = None;
            let mut timer = None;
            for a in &acts {
                match a {
                    NtpSourceAction::Send(b) => send = Some(b.clone()),
                    NtpSourceAction::SetTimer(d) => timer = Some(*d),
                    NtpSourceAction::Reset => return Out::Reset,
                    NtpSourceAction::Demobilize => return Out::Demobilize,
                }
            }
            match (send, timer) {
                (Some(b), Some(d)) if acts.len() == 2 => {
                    let (uid, id8) = request_ids(self.cfg.v5(), &b);
                    let genuine = serve(&mut self.server, &b);
                    self.exchanges.push(Exchange {
                        req: b.clone(),
                        uid,
                        id8,
                        genuine,
                        delivered: false,
                    });
                    Out::Send(b, d)
                }
                _ => Out::Other(format!("{:?}", fmt_actions(acts.into_iter()))),
            }
        }

        pub fn incoming(&mut self, d: &[u8]) -> Vec<String> {
            fmt_actions(self.src.handle_incoming(
                d,
                NtpTimestamp::from_fixed_int(0x0000_0063_8000_0000),
                NtpTimestamp::from_fixed_int(0x0000_0066_8000_0000),
            ))
        }

        pub fn log_len(&self) -> usize {
            self.log.lock().unwrap().len()
        }
        pub fn log_from(&self, n: usize) -> Vec<String> {
            self.log.lock().unwrap()[n..].to_vec()
        }
    }
}

use rig::*;

use crate::source::ProtocolVersion;

// ------------------------------------------------------------------------- history events
#[derive(Clone, Copy, PartialEq, Eq, Debug, Hash)]
enum Ev {
    /// poll timer fires
    T,
    /// the real server's answer to the pending request arrives
    G,
    /// 6 s pass (the 5 s response window closes)
    A,
    /// an authenticated RATE kiss for the pending request arrives
    R,
}
const EVS: [Ev; 4] = [Ev::T, Ev::G, Ev::A, Ev::R];

fn word_str(w: &[Ev]) -> String {
    w.iter()
        .map(|e| match e {
            Ev::T => 'T',
            Ev::G => 'G',
            Ev::A => 'A',
            Ev::R => 'R',
        })
        .collect()
}
fn parse_word(s: &str) -> Option<Vec<Ev>> {
    s.chars()
        .map(|c| match c {
            'T' => Some(Ev::T),
            'G' => Some(Ev::G),
            'A' => Some(Ev::A),
            'R' => Some(Ev::R),
            _ => None,
        })
        .collect()
}

/// The exchange whose request is pending and still inside its window.
fn live(rig: &Rig, k: &Key) -> Option<Exchange> {
    match &k.pending {
        Some((_, left)) if *left >= 0 => rig.exchanges.last().cloned(),
        _ => None,
    }
}

/// Split a genuine answer at its (first verifying) authenticator.
fn split(rig: &Rig, gen_: &[u8]) -> Option<(Vec<u8>, Vec<u8>, Vec<u8>)> {
    let (off, pt) = open_all(&*rig.s2c, gen_).into_iter().next()?;
    let len = u16::from_be_bytes([gen_[off + 2], gen_[off + 3]]) as usize;
    Some((gen_[..off].to_vec(), pt, gen_[off + pad4(len)..].to_vec()))
}

fn kiss_variant(rig: &Rig, pre: &[u8], code: &str, own_poll: i8) -> Option<Vec<u8>> {
    let mut p = pre.to_vec();
    p[1] = 0; // stratum 0
    if rig.cfg.v5() {
        // v5: RATE = larger poll, DENY = poll 127, NTSN = authnak flag
        match code {
            "RATE" => p[2] = (own_poll + 1) as u8,
            "DENY" => p[2] = 127,
            "NTSN" => {
                p[2] = 0;
                p[15] |= 4
            }
            "NONE" => p[2] = 0,
            _ => return None,
        }
    } else {
        p[12..16].copy_from_slice(code.as_bytes());
    }
    Some(p)
}

fn apply(rig: &mut Rig, ev: Ev) -> impl std::future::Future<Output = bool> + '_ {
    async move {
        if rig.terminal.is_some() {
            return false;
        }
        let k = rig.key();
        match ev {
            Ev::T => {
                match rig.timer() {
                    Out::Send(..) => {}
                    o => rig.terminal = Some(format!("{o:?}")),
                }
                true
            }
            Ev::G => {
                let Some(x) = live(rig, &k) else { return false };
                if x.delivered {
                    return false;
                }
                let Some(g) = x.genuine else { return false };
                rig.incoming(&g);
                rig.exchanges.last_mut().unwrap().delivered = true;
                true
            }
            Ev::A => {
                if live(rig, &k).is_none() {
                    return false;
                }
                tokio::time::advance(Duration::from_secs(6)).await;
                true
            }
            Ev::R => {
                let Some(x) = live(rig, &k) else { return false };
                let Some(g) = x.genuine else { return false };
                let Some((pre, _pt, _post)) = split(rig, &g) else {
                    return false;
                };
                let Some(p) = kiss_variant(rig, &pre, "RATE", k.last_poll) else {
                    return false;
                };
                let mut d = p.clone();
                d.extend(authenticator(&*rig.s2c, &p, &[]));
                rig.incoming(&d);
                true
            }
        }
    }
}

/// Scenario = session configuration + number of cookies the key exchange delivered.
type Scn = (Cfg, usize);
fn scn_name(s: Scn) -> String {
    format!("{}:{}", s.0.name(), s.1)
}
fn parse_scn(t: &str) -> Option<Scn> {
    match t.split_once(':') {
        Some((c, f)) => Some((Cfg::parse(c)?, f.parse().ok()?)),
        None => Some((Cfg::parse(t)?, 8)),
    }
}

async fn build(scn: Scn, word: &[Ev]) -> Option<Rig> {
    let mut rig = Rig::nts(scn.0, scn.1);
    for e in word {
        if !apply(&mut rig, *e).await {
            return None;
        }
    }
    Some(rig)
}

type Masked = (
    String,
    i8,
    i8,
    Option<bool>,
    bool,
    u8,
    String,
    u8,
    usize,
    usize,
    (bool, u16, bool),
    bool,
);
fn masked(rig: &Rig, k: &Key) -> Masked {
    (
        k.version.clone(),
        k.last_poll,
        k.remote_min_poll,
        k.pending.as_ref().map(|(_, l)| *l >= 0),
        k.deny,
        k.stratum,
        k.refid.clone(),
        k.reach,
        // `tries` is only ever compared with STARTUP_TRIES_THRESHOLD (3)
        k.tries.min(3),
        k.cookies.as_ref().map_or(0, |c| c.len()),
        (k.bloom_last.is_some(), k.bloom_next, k.bloom_filled),
        rig.terminal.is_some(),
    )
}

fn diff(a: &Key, b: &Key) -> Vec<&'static str> {
    let mut v = Vec::new();
    macro_rules! d {
        ($f:ident) => {
            if a.$f != b.$f {
                v.push(stringify!($f));
            }
        };
    }
    d!(version);
    d!(last_poll);
    d!(remote_min_poll);
    d!(pending);
    d!(deny);
    d!(stratum);
    d!(refid);
    d!(reach);
    d!(tries);
    d!(cookies);
    d!(ring);
    d!(bloom_bytes);
    d!(bloom_last);
    d!(bloom_next);
    d!(bloom_filled);
    d!(buffer);
    d!(snapshot);
    d!(config);
    d!(addr);
    v
}

// ------------------------------------------------------------------------- the oracle
struct Auth {
    /// cookie fields of the decrypted plaintext(s), `None` if a plaintext is malformed
    cookies: Option<Vec<Vec<u8>>>,
}

/// `Some` iff `d` is authenticated under the S2C key and bound to the live pending request.
fn authentic(rig: &Rig, d: &[u8], pend: Option<&Exchange>) -> Option<Auth> {
    let x = pend?;
    let uid = x.uid?;
    if d.len() < 48 || d[24..32] != x.id8 {
        return None;
    }
    let opened = open_all(&*rig.s2c, d);
    let bound = opened
        .iter()
        .any(|(off, pt)| contains(&d[48..*off], &uid) || contains(pt, &uid));
    if !bound {
        return None;
    }
    let mut cookies = Some(Vec::new());
    for (_, pt) in &opened {
        match (plaintext_cookies(pt), cookies.as_mut()) {
            (Some(c), Some(all)) => all.extend(c),
            _ => cookies = None,
        }
    }
    Some(Auth { cookies })
}

// ------------------------------------------------------------------------- injection alphabet
const UPGRADE_TS: [u8; 8] = *b"NTP5DRFT";

/// The complete injection alphabet for the current state of `rig`. Every datagram is
/// built from the bytes of the request the source emitted and of the real server's
/// answer; descriptors are stable so that a replay can find the same datagram again.
fn alphabet(rig: &Rig, k: &Key, all_bits: bool) -> Vec<(String, Vec<u8>)> {
    let mut out: Vec<(String, Vec<u8>)> = Vec::new();
    let v5 = rig.cfg.v5();
    let last = rig.exchanges.last().cloned();
    let uid = last.as_ref().and_then(|x| x.uid).unwrap_or([0x5a; 32]);
    let id8 = last.as_ref().map(|x| x.id8).unwrap_or([0; 8]);
    let mut bad_id8 = id8;
    bad_id8[7] ^= 1;
    let wrong_uid = [0xabu8; 32];
    let own = k.last_poll;

    // --- (1) header grammars, no authenticator at all -----------------------------------
    for vn in [3u8, 4] {
        for mode in [4u8, 3, 1, 2, 5] {
            for stratum in [0u8, 1, 16, 17] {
                for code in ["RATE", "DENY", "RSTR", "NTSN", "XXXX", "\0\0\0\0"] {
                    for (ul, u) in [
                        ("none", None),
                        ("ok", Some(uid)),
                        ("wrong", Some(wrong_uid)),
                    ] {
                        for (il, i) in [("ok", id8), ("bad", bad_id8)] {
                            for (rl, reft) in [("0", [0u8; 8]), ("up", UPGRADE_TS)] {
                                let mut refid = [0u8; 4];
                                refid.copy_from_slice(code.as_bytes());
                                let mut d = hdr4(0, vn, mode, stratum, own as u8, refid, reft, i);
                                if let Some(u) = u {
                                    d.extend(ef4(T_UID, &u, 28));
                                }
                                out.push((
                                    format!(
                                        "k4:vn{vn},m{mode},s{stratum},c{},uid={ul},id={il},rt={rl}",
                                        code.trim_matches('\0')
                                    ),
                                    d,
                                ));
                            }
                        }
                    }
                }
            }
        }
    }
    for vn in [1u8, 2, 6, 7, 0] {
        let mut d = hdr4(0, vn, 4, 0, own as u8, *b"DENY", [0; 8], id8);
        d.extend(ef4(T_UID, &uid, 28));
        out.push((format!("k4:vn{vn},m4,s0,cDENY,uid=ok,id=ok,rt=0"), d));
    }
    let polls: [u8; 8] = [
        0,
        (own - 1) as u8,
        own as u8,
        (own + 1) as u8,
        126,
        127,
        128,
        255,
    ];
    for mode in [4u8, 3] {
        for stratum in [0u8, 1, 16, 17] {
            for poll in polls {
                for flags in 0u8..8 {
                    for (ul, u) in [
                        ("none", None),
                        ("ok", Some(uid)),
                        ("wrong", Some(wrong_uid)),
                    ] {
                        for (il, i) in [("ok", id8), ("bad", bad_id8)] {
                            let mut d = hdr5(0, mode, stratum, poll, flags, *b"DENYDENY", i);
                            if let Some(u) = u {
                                d.extend(ef5(T_UID, &u));
                            }
                            d.extend(ef5(T_DRAFT, DRAFT));
                            out.push((
                                format!("k5:m{mode},s{stratum},p{poll},f{flags},uid={ul},id={il}"),
                                d,
                            ));
                        }
                    }
                }
            }
        }
    }
    {
        // v5 without the draft identification field, and with the uid after it
        let mut d = hdr5(0, 4, 0, 127, 4, [0; 8], id8);
        d.extend(ef5(T_UID, &uid));
        out.push(("k5:nodraft,s0,p127,f4,uid=ok,id=ok".into(), d));
        let mut d = hdr5(0, 4, 0, 127, 4, [0; 8], id8);
        d.extend(ef5(T_DRAFT, DRAFT));
        d.extend(ef5(T_UID, &uid));
        out.push(("k5:draftfirst,s0,p127,f4,uid=ok,id=ok".into(), d));
    }

    // --- (2) replays of every genuine answer of this history --------------------------------
    for (i, x) in rig.exchanges.iter().enumerate() {
        if let Some(g) = &x.genuine {
            out.push((format!("replay:{i}"), g.clone()));
        }
    }

    let Some(x) = last else { return out };
    let Some(gen_) = x.genuine.clone() else {
        return out;
    };
    let Some((pre, pt, post)) = split(rig, &gen_) else {
        return out;
    };
    let hdr = gen_[..48].to_vec();
    let draft = if v5 { ef5(T_DRAFT, DRAFT) } else { vec![] };
    let rand_key = cipher(rig.cfg.k512, 0x33);
    let other_len = cipher(!rig.cfg.k512, S2C);
    let keys: [(&str, &dyn crate::packet::Cipher); 3] = [
        ("c2s", &*rig.c2s),
        ("rand", &*rand_key),
        ("otherlen", &*other_len),
    ];

    // --- (3) genuine answer re-keyed ---------------------------------------------------------
    for (kl, key) in keys {
        let mut d = pre.clone();
        d.extend(authenticator(key, &pre, &pt));
        d.extend(&post);
        out.push((format!("rekey:{kl}"), d));
    }

    // --- (4) positional sweep over the genuine answer ------------------------------------------
    for bit in 0..gen_.len() * 8 {
        if !all_bits && bit % 8 != (bit / 8) % 8 {
            continue;
        }
        let mut d = gen_.clone();
        d[bit / 8] ^= 0x80 >> (bit % 8);
        out.push((format!("flip:{bit}"), d));
    }
    for n in 0..gen_.len() {
        out.push((format!("trunc:{n}"), gen_[..n].to_vec()));
    }

    // --- (5) authenticators under the wrong key over kiss headers -----------------------------
    let codes: &[&str] = if v5 {
        &["RATE", "DENY", "NTSN", "NONE"]
    } else {
        &["RATE", "DENY", "RSTR", "NTSN", "XXXX"]
    };
    for code in codes {
        if let Some(p) = kiss_variant(rig, &pre, code, own) {
            for (kl, key) in keys {
                let mut d = p.clone();
                d.extend(authenticator(key, &p, &[]));
                out.push((format!("badauth-kiss:{code}:{kl}"), d));
            }
        }
    }

    // --- (6) correctly keyed, but not bound to the pending request -------------------------------
    {
        // no uid anywhere in the authenticated part; uid only AFTER the authenticator
        let mut p = hdr.clone();
        p.extend(&draft);
        let mut d = p.clone();
        d.extend(authenticator(&*rig.s2c, &p, &pt));
        out.push(("s2c:nouid".into(), d.clone()));
        d.extend(ef(v5, T_UID, &uid, 28));
        out.push(("s2c:uid-after-auth".into(), d));
        for code in codes {
            if let Some(mut p) = kiss_variant(rig, &hdr, code, own) {
                p.extend(&draft);
                let mut d = p.clone();
                d.extend(authenticator(&*rig.s2c, &p, &[]));
                d.extend(ef(v5, T_UID, &uid, 28));
                out.push((format!("s2c:kiss-{code}-uid-after-auth"), d));
            }
        }
        // wrong uid inside the authenticated part
        let mut alts = vec![("const", wrong_uid)];
        if rig.exchanges.len() >= 2 {
            if let Some(u) = rig.exchanges[rig.exchanges.len() - 2].uid {
                alts.push(("previous", u));
            }
        }
        for (al, alt) in alts {
            let mut p = hdr.clone();
            p.extend(ef(v5, T_UID, &alt, 16));
            p.extend(&draft);
            let mut d = p.clone();
            d.extend(authenticator(&*rig.s2c, &p, &pt));
            out.push((format!("s2c:wrong-uid-{al}"), d.clone()));
            d.extend(ef(v5, T_UID, &uid, 28));
            out.push((format!("s2c:wrong-uid-{al}+uid-after-auth"), d));
        }
        // right uid, wrong origin timestamp / client cookie
        let mut p = pre.clone();
        p[24..32].copy_from_slice(&bad_id8);
        let mut d = p.clone();
        d.extend(authenticator(&*rig.s2c, &p, &pt));
        out.push(("s2c:wrong-id8".into(), d));
    }

    // --- (7) real server, other session / not-acknowledge ------------------------------------------
    {
        // the attacker's own NTS session asks the real server for an answer carrying the
        // victim's uid and origin timestamp
        let att = decoded(rig.cfg.k512, 0x44, 0x55);
        let att_cookie = rig.keyset.encode_cookie(&att);
        let mut p = x.req[..48].to_vec();
        p.extend(ef(v5, T_UID, &uid, 16));
        p.extend(ef(v5, T_COOKIE, &att_cookie, 16));
        p.extend(&draft);
        let mut d = p.clone();
        d.extend(authenticator(&*att.c2s, &p, &[]));
        let mut srv = mk_server(rig.keyset.clone(), false);
        if let Some(a) = serve(&mut srv, &d) {
            out.push(("real:cross-session".into(), a));
        }
        // the real server's NTS NAK for a corrupted copy of the request
        let mut bad = x.req.clone();
        let n = bad.len();
        bad[n - 1] ^= 1;
        if let Some(a) = serve(&mut srv, &bad) {
            out.push(("real:nak".into(), a.clone()));
            if v5 {
                // ... and the same NAK with the poll field forged
                for p in [(own + 1) as u8, 127] {
                    let mut f = a.clone();
                    f[2] = p;
                    out.push((format!("real:nak-poll{p}"), f));
                }
            }
        }
    }

    // --- (8) datagrams that ARE authentic (must be decided so by the oracle, not by label) ------------
    {
        let mut srv = mk_server(rig.keyset.clone(), true);
        if let Some(a) = serve(&mut srv, &x.req) {
            out.push(("auth:real-deny".into(), a));
        }
        for code in codes {
            if let Some(p) = kiss_variant(rig, &pre, code, own) {
                let mut d = p.clone();
                d.extend(authenticator(&*rig.s2c, &p, &[]));
                out.push((format!("auth:kiss-{code}"), d));
                // the same kiss carrying a cookie in its encrypted part
                let ck = ef(v5, T_COOKIE, &[0xC5; 48], 0);
                let mut d = p.clone();
                d.extend(authenticator(&*rig.s2c, &p, &ck));
                out.push((format!("auth:kiss-{code}+cookie"), d));
            }
        }
        // cookies in all three positions: only the encrypted ones may be stored
        let cx = ef(v5, T_COOKIE, &[0xC1; 40], 16);
        let cy1 = ef(v5, T_COOKIE, &[0xC2; 40], 0);
        let cy2 = ef(v5, T_COOKIE, &[0xC3; 64], 0);
        let cz = ef(v5, T_COOKIE, &[0xC4; 40], 28);
        let mut p = pre.clone();
        p.extend(&cx);
        let mut ptt = cy1.clone();
        ptt.extend(&cy2);
        let mut d = p.clone();
        d.extend(authenticator(&*rig.s2c, &p, &ptt));
        d.extend(&cz);
        out.push(("auth:cookies-in-3-positions".into(), d));
        // uid only inside the encrypted part
        let mut p = hdr.clone();
        p.extend(&draft);
        let mut ptt = ef(v5, T_UID, &uid, 0);
        ptt.extend(&pt);
        let mut d = p.clone();
        d.extend(authenticator(&*rig.s2c, &p, &ptt));
        out.push(("auth:uid-encrypted".into(), d));
        // genuine answer + unauthenticated suffixes
        for n in [1usize, 2, 3, 4, 8, 16, 20, 24, 25, 28, 32] {
            let mut d = gen_.clone();
            d.resize(gen_.len() + n, 0);
            out.push((format!("auth:extend-zeros-{n}"), d));
        }
        let mut d = gen_.clone();
        d.extend(&cz);
        out.push(("auth:extend-cookie".into(), d));
        let mut d = gen_.clone();
        d.extend(ef(v5, T_UID, &wrong_uid, 28));
        out.push(("auth:extend-wrong-uid".into(), d));
        // the other protocol version's framing, correctly keyed and bound
        let mut p = if v5 {
            hdr4(0, 4, 4, 2, own as u8, [0; 4], [0; 8], id8)
        } else {
            let mut h = hdr5(0, 4, 2, own as u8, 1, [7; 8], id8);
            h.extend(ef5(T_DRAFT, DRAFT));
            h
        };
        p.extend(ef(!v5, T_UID, &uid, 16));
        let mut d = p.clone();
        d.extend(authenticator(&*rig.s2c, &p, &pt));
        out.push(("auth:other-version-framing".into(), d));
    }
    out
}

// ------------------------------------------------------------------------- judging one injection
struct Verdict {
    auth: bool,
    changed: bool,
    /// (class, what) of violations
    violations: Vec<(String, String)>,
    obs: String,
}

fn fifo_push(before: &[Vec<u8>], add: &[Vec<u8>]) -> Vec<Vec<u8>> {
    let mut v: Vec<Vec<u8>> = before.to_vec();
    for c in add {
        v.push(c.clone());
        if v.len() > 8 {
            v.remove(0);
        }
    }
    v
}

fn inject(rig: &mut Rig, before: &Key, desc: &str, d: &[u8]) -> Verdict {
    let pend = live(rig, before);
    let auth = authentic(rig, d, pend.as_ref());
    let n0 = rig.log_len();
    let acts = match common::catch(|| rig.incoming(d)) {
        Ok(a) => a,
        Err(e) => {
            return Verdict {
                auth: auth.is_some(),
                changed: true,
                violations: vec![(
                    "C07:panic".into(),
                    format!("handle_incoming panicked on {desc}: {e}"),
                )],
                obs: format!("panic {e}"),
            };
        }
    };
    let after = rig.key();
    let log = rig.log_from(n0);
    let fields = diff(before, &after);
    let changed = !acts.is_empty() || !log.is_empty() || !fields.is_empty();
    let mut violations = Vec::new();
    let obs = format!(
        "auth={} actions={acts:?} controller={log:?} changed_fields={fields:?}",
        auth.is_some()
    );
    match &auth {
        None => {
            if changed {
                let kind = if acts.iter().any(|a| a == "Demobilize") {
                    "demobilize"
                } else if acts.iter().any(|a| a == "Reset") {
                    "reset"
                } else if log.iter().any(|l| l.starts_with("meas")) {
                    "measurement"
                } else if fields.contains(&"cookies") || fields.contains(&"ring") {
                    "cookie"
                } else if fields.contains(&"remote_min_poll") || fields.contains(&"last_poll") {
                    "poll-rate"
                } else if fields.contains(&"version") {
                    "version"
                } else {
                    "state"
                };
                // how far the datagram got cryptographically (computed by the harness)
                let shape = if !open_all(&*rig.s2c, d).is_empty() {
                    "unbound"
                } else if walk(d, 48).0.iter().any(|f| f.ty == T_AUTH) {
                    "badauth"
                } else {
                    "noauth"
                };
                let v = if rig.cfg.v5() { "v5" } else { "v4" };
                violations.push((
                    format!("C07:{v}-{shape}-{kind}"),
                    format!("datagram `{desc}` is not authenticated+bound to the pending request, yet: {obs}"),
                ));
            }
        }
        Some(a) => {
            let b = before.cookies.clone().unwrap_or_default();
            let got = after.cookies.clone().unwrap_or_default();
            let accepted = log.iter().any(|l| l.starts_with("meas"));
            // The statement only restricts WHERE new cookies may come from: whatever was
            // added must be exactly the cookie fields of the encrypted part (an accepted time
            // answer has to take them; for other authentic datagrams, e.g. an authenticated
            // kiss carrying cookies, taking them or not is not C07's business - C13 judges
            // single use / order / capacity).
            let want = match &a.cookies {
                Some(c) => fifo_push(&b, c),
                None => b.clone(),
            };
            if got != want && (accepted || got != b) {
                violations.push((
                    "C07:cookie-origin".into(),
                    format!(
                        "authentic datagram `{desc}`: stash afterwards holds {:?} (lengths), expected {:?} = previous + cookie fields of the encrypted part only; {obs}",
                        got.iter().map(|c| c.len()).collect::<Vec<_>>(),
                        want.iter().map(|c| c.len()).collect::<Vec<_>>()
                    ),
                ));
            }
        }
    }
    Verdict {
        auth: auth.is_some(),
        changed,
        violations,
        obs,
    }
}

#[derive(Default)]
struct Found {
    /// (history length, state index, injection index, class, what, trace)
    v: Vec<(usize, usize, usize, String, String, String)>,
}

fn category(desc: &str) -> &str {
    let c = desc.split(':').next().unwrap_or(desc);
    if c == "auth" || c == "s2c" || c == "real" {
        // keep the sub label up to the first '-' for the interesting groups
        let rest = &desc[c.len() + 1..];
        let sub = rest
            .split(|ch: char| ch == '-' || ch.is_ascii_digit())
            .next()
            .unwrap_or("");
        return &desc[..c.len() + 1 + sub.len()];
    }
    c
}

/// Sweep the complete alphabet at the state reached by `word`.
async fn sweep(
    ctx: &Ctx,
    found: &Mutex<Found>,
    scn: Scn,
    sidx: usize,
    word: &[Ev],
    all_bits: bool,
) {
    let cfg = scn;
    let Some(mut rig) = build(cfg, word).await else {
        return;
    };
    let mut before = rig.key();
    let mut alpha = alphabet(&rig, &before, all_bits);
    let n = alpha.len();
    // not-authentic ones first, so that the twin comparison below sees a source that
    // has absorbed all of them
    let pend = live(&rig, &before);
    let mut order: Vec<usize> = (0..n).collect();
    let is_auth: Vec<bool> = alpha
        .iter()
        .map(|(_, d)| authentic(&rig, d, pend.as_ref()).is_some())
        .collect();
    order.sort_by_key(|i| is_auth[*i]);
    let w = word_str(word);
    let mut local: BTreeMap<String, u64> = BTreeMap::new();
    let mut clean = true;
    let mut twin_done = false;
    let mut transitions = 0u64;
    for (pos, &i) in order.iter().enumerate() {
        if is_auth[i] && !twin_done {
            twin_done = true;
            if clean {
                twin_check(ctx, found, cfg, sidx, word, &mut rig).await;
                transitions += 2;
                // the twin check delivered the genuine answer: start over from a fresh state
                rig = build(cfg, word).await.expect("rebuild");
                before = rig.key();
                alpha = alphabet(&rig, &before, all_bits);
            }
        }
        let (desc, d) = alpha[i].clone();
        let v = inject(&mut rig, &before, &desc, &d);
        transitions += 1;
        let cat = category(&desc).to_string();
        *local.entry(format!("inj.{cat}")).or_insert(0) += 1;
        if v.auth {
            *local
                .entry(format!(
                    "authentic.{}",
                    if v.changed { "effect" } else { "ignored" }
                ))
                .or_insert(0) += 1;
            if v.changed {
                *local.entry(format!("authentic_effect.{cat}")).or_insert(0) += 1;
            }
        } else {
            *local
                .entry(format!(
                    "not_authentic.{}",
                    if v.changed { "EFFECT" } else { "ignored" }
                ))
                .or_insert(0) += 1;
        }
        if v.auth || v.changed {
            ctx.distinct(common::hash_of(&(scn_name(cfg), &w, &desc)));
        }
        if !v.violations.is_empty() {
            clean = false;
            let mut f = found.lock().unwrap();
            for (class, what) in v.violations {
                f.v.push((
                    word.len(),
                    sidx,
                    pos,
                    class,
                    format!("[{} after {w:?}] {what}", scn_name(cfg)),
                    format!("{}|{w}|{desc}", scn_name(cfg)),
                ));
            }
        }
        if sidx == 1 && (v.auth || v.changed) {
            ctx.sample(format!("{} after {w}: {desc} -> {}", scn_name(cfg), v.obs));
        }
        if v.changed {
            // the state was consumed: rebuild it (fresh identifiers -> fresh datagrams)
            rig = build(cfg, word).await.expect("rebuild");
            before = rig.key();
            alpha = alphabet(&rig, &before, all_bits);
            debug_assert_eq!(alpha.len(), n);
        }
    }
    ctx.add("transitions", transitions);
    ctx.add("evaluations", n as u64);
    for (k, v) in local {
        ctx.add(&k, v);
    }
}

/// After absorbing every not-authentic datagram, the genuine answer must still have
/// exactly the effect it has on an untouched twin (identifiers masked).
async fn twin_check(
    ctx: &Ctx,
    found: &Mutex<Found>,
    cfg: Scn,
    sidx: usize,
    word: &[Ev],
    rig: &mut Rig,
) {
    let k = rig.key();
    let Some(x) = live(rig, &k) else { return };
    if x.delivered {
        return;
    }
    let Some(g) = x.genuine else { return };
    let n0 = rig.log_len();
    let acts = rig.incoming(&g);
    let a = (masked(rig, &rig.key()), acts, rig.log_from(n0));
    let Some(mut twin) = build(cfg, word).await else {
        return;
    };
    let tk = twin.key();
    let Some(tx) = live(&twin, &tk) else { return };
    let Some(tg) = tx.genuine else { return };
    let n0 = twin.log_len();
    let acts = twin.incoming(&tg);
    let b = (masked(&twin, &twin.key()), acts, twin.log_from(n0));
    ctx.inc("twin_checks");
    if a.2.iter().any(|l| l.starts_with("meas")) {
        ctx.inc("twin_genuine_accepted");
    }
    if a != b {
        let w = word_str(word);
        found.lock().unwrap().v.push((
            word.len(),
            sidx,
            usize::MAX,
            "C07:latent-effect".into(),
            format!("[{} after {w:?}] after the not-authentic datagrams the genuine answer gives {a:?}, on an untouched twin {b:?}", scn_name(cfg)),
            format!("{}|{w}|twin", scn_name(cfg)),
        ));
    }
}

/// All distinct states (by masked key) reachable with words of length <= depth, BFS.
fn explore(cfg: Scn, depth: usize) -> (Vec<Vec<Ev>>, u64, bool) {
    let mut seen: HashSet<Masked> = HashSet::new();
    let mut states: Vec<Vec<Ev>> = Vec::new();
    let mut frontier: Vec<Vec<Ev>> = vec![vec![]];
    let mut transitions = 0u64;
    {
        let rig = super::block_on_paused(build(cfg, &[])).unwrap();
        seen.insert(masked(&rig, &rig.key()));
        states.push(vec![]);
    }
    let mut fixpoint = false;
    for _ in 0..depth {
        let mut next = Vec::new();
        for w in &frontier {
            for e in EVS {
                let mut w2 = w.clone();
                w2.push(e);
                let r = super::block_on_paused(build(cfg, &w2));
                let Some(rig) = r else { continue };
                transitions += 1;
                if seen.insert(masked(&rig, &rig.key())) {
                    states.push(w2.clone());
                    if rig.terminal.is_none() {
                        next.push(w2);
                    }
                }
            }
        }
        frontier = next;
        if frontier.is_empty() {
            fixpoint = true;
            break;
        }
    }
    (states, transitions, fixpoint)
}

fn replay(ctx: &Ctx, trace: &str) -> String {
    let parts: Vec<&str> = trace.splitn(3, '|').collect();
    if parts.len() != 3 {
        return format!("bad trace {trace:?}");
    }
    let (Some(cfg), Some(word)) = (parse_scn(parts[0]), parse_word(parts[1])) else {
        return format!("bad trace {trace:?}");
    };
    let desc = parts[2].to_string();
    super::block_on_paused(async {
        let found = Mutex::new(Found::default());
        let Some(mut rig) = build(cfg, &word).await else {
            return "history not executable".to_string();
        };
        let before = rig.key();
        if desc == "twin" {
            let alpha = alphabet(&rig, &before, true);
            let pend = live(&rig, &before);
            for (de, d) in &alpha {
                if authentic(&rig, d, pend.as_ref()).is_none() {
                    inject(&mut rig, &before, de, d);
                }
            }
            twin_check(ctx, &found, cfg, 0, &word, &mut rig).await;
            let f = found.lock().unwrap();
            for v in &f.v {
                ctx.violation(&v.3, v.4.clone(), v.5.clone());
            }
            return format!("twin violations={}", f.v.len());
        }
        let alpha = alphabet(&rig, &before, true);
        let Some((_, d)) = alpha.iter().find(|(de, _)| *de == desc) else {
            return format!("descriptor {desc:?} not in the alphabet of this state");
        };
        let v = inject(&mut rig, &before, &desc, d);
        for (class, what) in &v.violations {
            ctx.violation(class, what.clone(), trace.to_string());
        }
        format!("len={} {}", d.len(), v.obs)
    })
}

#[test]
fn check() {
    let ctx = Ctx::new("C07");
    if let Some(t) = common::replay_trace() {
        let a = replay(&ctx, &t);
        let b = replay(&ctx, &t);
        common::report_replay("C07", &a, &b, ctx.violation_count() > 0);
        return;
    }
    let quick = ctx.quick();
    let depth = if quick { 5 } else { 10 };
    ctx.rule(&format!(
        "states = every word over {{T timer, G genuine answer, A advance 6 s, R authenticated RATE}} of length <= {depth}, \
         deduplicated on the masked probe key, for NTS sources negotiated to NTPv4 / NTPv5 with AES-SIV-CMAC-256 / -512 keys; \
         at each state the whole injection alphabet (see `alphabet`: 2885 v4 headers + 3074 v5 headers x uid placement x id match, \
         replays, re-keyed answers, every single-bit flip and every truncation of the real server's answer, wrong-key \
         authenticators, correctly keyed but unbound datagrams, cross-session answers and NAKs of the real server, authentic \
         variants) is delivered. distinct non-trivial = (config, state, datagram) that is authentic or had any effect."
    ));
    ctx.assume("AES-SIV (crate's Cipher::decrypt) is a sound AEAD: it is used by the harness-side authenticity predicate");
    ctx.assume("NTS sources only exist with ProtocolVersion V4 or V5 (the key exchange result maps to exactly these two), so V4UpgradingToV5/UpgradedToV5 NTS sources are not explored");
    ctx.assume("a datagram is 'bound to the pending request' iff a request is outstanding and inside its 5 s window, bytes 24..32 equal the request's origin timestamp / client cookie and the request's unique identifier occurs in the authenticated or encrypted part");
    let mut scns: Vec<Scn> = Vec::new();
    for fill in if quick { vec![8usize] } else { vec![8usize, 2] } {
        for k512 in [false, true] {
            for pv in [ProtocolVersion::V4, ProtocolVersion::V5] {
                scns.push((Cfg { pv, k512 }, fill));
            }
        }
    }
    let mut work: Vec<(Scn, usize, Vec<Ev>)> = Vec::new();
    for scn in &scns {
        let (states, tr, fix) = explore(*scn, depth);
        ctx.add("states", states.len() as u64);
        ctx.add("transitions", tr);
        ctx.add(&format!("states.{}", scn_name(*scn)), states.len() as u64);
        if fix {
            ctx.note(
                &format!("fixpoint.{}", scn_name(*scn)),
                "state exploration reached a fixpoint",
            );
        }
        for (i, w) in states.into_iter().enumerate() {
            work.push((*scn, i, w));
        }
    }
    // shortest histories first, one history length after the other
    work.sort_by_key(|(c, i, w)| (w.len(), *i, scn_name(*c)));
    let found = Mutex::new(Found::default());
    let mut done_len = None;
    for len in 0..=depth {
        let level: Vec<&(Scn, usize, Vec<Ev>)> =
            work.iter().filter(|(_, _, w)| w.len() == len).collect();
        if level.is_empty() {
            continue;
        }
        if len > 3 && ctx.over_budget() {
            ctx.cap_hit(&format!(
                "states reached by histories of length {len}..={depth} not swept (wall budget); all states of histories <= {} swept completely",
                len - 1
            ));
            break;
        }
        common::par_for(level.len() as u64, 1, |j| {
            let (scn, sidx, word) = level[j as usize];
            super::block_on_paused(sweep(&ctx, &found, *scn, *sidx, word, true));
        });
        ctx.add("states_swept", level.len() as u64);
        done_len = Some(len);
    }
    ctx.set("history_length_swept", done_len.unwrap_or(0) as u64);
    let mut f = found.into_inner().unwrap();
    f.v.sort();
    for (_, _, _, class, what, trace) in &f.v {
        ctx.violation(class, what.clone(), trace.clone());
    }
    ctx.exhaustive(true);
    ctx.finish();
}
