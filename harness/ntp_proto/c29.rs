//! C29 — Pool key-exchange requests require a configured token.
//!
//! Engine E-IN over real TLS 1.3 sessions (same rig as C28: harness TLS client writing raw
//! records over `tokio::io::duplex` to the real `KeyExchangeServer::handle_connection` /
//! `handle_longterm`), tokio clock paused: "is the connection still open" is observed by a
//! 1 s (virtual) read timeout on the client end, which only fires when both ends are idle.
//!
//! Enumerated: server token list in {[], [alpha], [alpha, bravo]} x first request in
//! {KE, FixedKey(SIV256), FixedKey(SIV512), Support(p), Support(a), Support(p+a)} x token in
//! {none, "wrong", "", "alph", "alphaX", "ALPHA", "alpha", "bravo"} x keep-alive record x
//! keep-alive permit available; then, for every first request that leaves the connection
//! open, every follow-up script of length <= 4 (thorough: <= 6) that is deliverable (breadth-first: a script is
//! extended only while the connection is still open) over {KE, FixedKey, Support}
//! x keep-alive x token in {none, wrong, alpha}.
//!
//! Reference (statement): FixedKey/Support on a new connection are served iff the token
//! is in the configured list, else BadRequest error record, no cookies, connection closed;
//! kept open iff served and keep-alive asked and permit available; KE on a kept connection
//! is answered BadRequest and the connection is closed; follow-ups keep the connection
//! open only if they ask for it.
use std::sync::Arc;
use std::sync::atomic::{AtomicU64, Ordering};
use std::time::Duration;

use tokio::io::{AsyncReadExt, AsyncWriteExt};

use super::common::{self, Ctx};
use crate::generic::NtpVersion;
use crate::keyset::{KeySet, KeySetProvider};
use crate::nts::KeyExchangeServer;
use crate::nts::verif_probe::gj::{self as rig, Rec};

const T1: &str = "alpha";
const T2: &str = "bravo";
const TOKENS: [Option<&str>; 8] = [
    None,
    Some("wrong"),
    Some(""),
    Some("alph"),
    Some("alphaX"),
    Some("ALPHA"),
    Some(T1),
    Some(T2),
];
const CFGS: [&[&str]; 3] = [&[], &[T1], &[T1, T2]];

#[derive(Clone, Copy, Debug, PartialEq, Eq, Hash)]
enum Kind {
    Ke,
    Fk(u16),
    Sup(bool, bool),
}

fn fixed_keys(alg: u16) -> (Vec<u8>, Vec<u8>) {
    let n = if alg == 15 { 32 } else { 64 };
    ((0..n as u8).collect(), (100..100 + n as u8).collect())
}

fn request(kind: Kind, token: Option<&str>, ka: bool) -> Vec<u8> {
    let mut recs = Vec::new();
    if let Some(t) = token {
        recs.push(Rec::new(14, t.as_bytes()));
    }
    match kind {
        Kind::Ke => {
            recs.push(Rec::new(0x8001, &[0, 0]));
            recs.push(Rec::new(0x8004, &[0, 15]));
        }
        Kind::Fk(alg) => {
            let (c2s, s2c) = fixed_keys(alg);
            let mut body = c2s;
            body.extend_from_slice(&s2c);
            recs.push(Rec::new(0x800c, &body));
            recs.push(Rec::new(0x8001, &[0, 0]));
            recs.push(Rec::new(0x8004, &alg.to_be_bytes()));
        }
        Kind::Sup(p, a) => {
            if p {
                recs.push(Rec::new(0x8009, &[]));
            }
            if a {
                recs.push(Rec::new(0x800a, &[]));
            }
        }
    }
    if ka {
        recs.push(Rec::new(8, &[]));
    }
    recs.push(Rec::new(0x8000, &[]));
    rig::enc(&recs)
}

/// What a request *is*, read back from its bytes with the harness' own decoder (so that a
/// replayed hex trace gets the same expectations).
struct ReqView {
    kind: Kind,
    token: Option<String>,
    ka: bool,
    keys: Option<(Vec<u8>, Vec<u8>)>,
}

fn view(req: &[u8]) -> Option<ReqView> {
    let recs = rig::dec(req)?;
    let token = recs
        .iter()
        .find(|r| r.kind() == 14)
        .map(|r| String::from_utf8_lossy(&r.body).to_string());
    let ka = recs.iter().any(|r| r.kind() == 8);
    let fk = recs.iter().find(|r| r.kind() == 12);
    let wp = recs.iter().any(|r| r.kind() == 9);
    let wa = recs.iter().any(|r| r.kind() == 10);
    let alg = recs
        .iter()
        .find(|r| r.kind() == 4)
        .and_then(|r| r.u16s())
        .and_then(|v| v.first().copied());
    let (kind, keys) = if let Some(fk) = fk {
        let n = fk.body.len() / 2;
        (
            Kind::Fk(alg?),
            Some((fk.body[..n].to_vec(), fk.body[n..].to_vec())),
        )
    } else if wp || wa {
        (Kind::Sup(wp, wa), None)
    } else {
        (Kind::Ke, None)
    };
    Some(ReqView {
        kind,
        token,
        ka,
        keys,
    })
}

#[derive(Clone, Copy, Debug, PartialEq, Eq)]
enum After {
    Open,
    ClosedClean,
    ClosedDirty,
    ExtraData,
    NotProbed,
}

struct Step {
    response: Vec<Rec>,
    complete: bool,
    after: After,
}

struct Obs {
    steps: Vec<Step>,
    first: String, // "Kept" | "Ok" | "Err(..)"
    first_kept: bool,
    first_err: bool,
    permit_calls: u64,
    longterm: Option<String>,
}

const HANG: Duration = Duration::from_secs(3600);

fn keyset() -> Arc<KeySet> {
    let mut p = KeySetProvider::new(2);
    p.rotate();
    p.rotate();
    p.get()
}

fn rt() -> tokio::runtime::Runtime {
    tokio::runtime::Builder::new_current_thread()
        .enable_time()
        .start_paused(true)
        .build()
        .expect("runtime")
}

fn session(
    rt: &tokio::runtime::Runtime,
    connector: &tokio_rustls::TlsConnector,
    kex: &KeyExchangeServer,
    ks: &Arc<KeySet>,
    script: &[Vec<u8>],
    permit: bool,
) -> Result<Option<Obs>, String> {
    common::catch(|| {
        rt.block_on(async {
            let (c, s) = tokio::io::duplex(4096);
            let cf = async {
                let mut steps = Vec::new();
                let Ok(mut tls) = connector.connect(rig::localhost(), c).await else {
                    return steps;
                };
                for req in script {
                    if tls.write_all(req).await.is_err() || tls.flush().await.is_err() {
                        break;
                    }
                    let (response, complete) = match tokio::time::timeout(
                        Duration::from_secs(5),
                        rig::read_message(&mut tls),
                    )
                    .await
                    {
                        Ok(Ok(r)) => (r, true),
                        Ok(Err((partial, _))) => (partial, false),
                        Err(_) => (Vec::new(), false), // silent but open
                    };
                    let mut b = [0u8; 1];
                    let after = match tokio::time::timeout(Duration::from_secs(1), tls.read(&mut b))
                        .await
                    {
                        Err(_) => After::Open,
                        Ok(Ok(0)) => After::ClosedClean,
                        Ok(Ok(_)) => After::ExtraData,
                        Ok(Err(_)) => After::ClosedDirty,
                    };
                    steps.push(Step {
                        response,
                        complete,
                        after,
                    });
                    if after != After::Open {
                        break;
                    }
                }
                let _ = tls.shutdown().await;
                steps
            };
            let sf = async {
                let calls = AtomicU64::new(0);
                let r = kex
                    .handle_connection(s, ks, || {
                        calls.fetch_add(1, Ordering::Relaxed);
                        if permit { Some(()) } else { None }
                    })
                    .await;
                let permit_calls = calls.load(Ordering::Relaxed);
                match r {
                    Ok(Some(((), io))) => {
                        let lr = kex.handle_longterm(io, || ks.clone()).await;
                        (
                            "Kept".to_string(),
                            true,
                            false,
                            permit_calls,
                            Some(match lr {
                                Ok(()) => "Ok".to_string(),
                                Err(e) => format!("Err({})", rig::err_name(&e)),
                            }),
                        )
                    }
                    Ok(None) => ("Ok".to_string(), false, false, permit_calls, None),
                    Err(e) => (
                        format!("Err({})", rig::err_name(&e)),
                        false,
                        true,
                        permit_calls,
                        None,
                    ),
                }
            };
            match tokio::time::timeout(HANG, async { tokio::join!(cf, sf) }).await {
                Ok((steps, (first, first_kept, first_err, permit_calls, longterm))) => Some(Obs {
                    steps,
                    first,
                    first_kept,
                    first_err,
                    permit_calls,
                    longterm,
                }),
                Err(_) => None,
            }
        })
    })
}

fn summarize(r: &[Rec]) -> String {
    let mut out = Vec::new();
    for rec in r {
        out.push(match rec.kind() {
            0 => "eom".to_string(),
            1 => format!("proto{:04x?}", rec.u16s().unwrap_or_default()),
            2 => format!("error{:?}", rec.u16s().unwrap_or_default()),
            4 => format!("aead{:?}", rec.u16s().unwrap_or_default()),
            5 => "cookie".to_string(),
            8 => "keepalive".to_string(),
            9 => format!("protos{:04x?}", rec.u16s().unwrap_or_default()),
            10 => format!("algs{:?}", rec.u16s().unwrap_or_default()),
            k => format!("rec{k}"),
        });
    }
    // collapse cookie runs
    let n = out.iter().filter(|s| *s == "cookie").count();
    let mut s: Vec<String> = out.into_iter().filter(|s| s != "cookie").collect();
    if n > 0 {
        s.insert(s.len().saturating_sub(1), format!("cookie x{n}"));
    }
    s.join(" ")
}

/// Run one scripted connection and compare with the reference. Returns the observation
/// text (no random bytes in it) and whether the connection was open after the first request.
fn run_case(
    ctx: &Ctx,
    rt: &tokio::runtime::Runtime,
    connector: &tokio_rustls::TlsConnector,
    kex: &KeyExchangeServer,
    ks: &Arc<KeySet>,
    cfg: &[&str],
    versions_ids: &[u16],
    permit: bool,
    script: &[Vec<u8>],
) -> (String, bool) {
    // returns (observation, connection open after the complete script)
    let trace = format!(
        "cfg={};permit={};script={}",
        cfg.join(","),
        permit as u8,
        script
            .iter()
            .map(|r| common::hex(r))
            .collect::<Vec<_>>()
            .join(",")
    );
    ctx.add("transitions", script.len() as u64);
    ctx.inc("sessions");
    let obs = match session(rt, connector, kex, ks, script, permit) {
        Err(e) => {
            ctx.violation("C29:panic", format!("server panicked: {e}"), trace);
            return (format!("panic {e}"), false);
        }
        Ok(None) => {
            ctx.violation(
                "C29:hang",
                "connection idle for an hour of virtual time",
                trace,
            );
            return ("hang".into(), false);
        }
        Ok(Some(o)) => o,
    };
    let mut text = Vec::new();
    // outcome-class counters for the first request are taken from the single-request sessions only
    let cnt = |k: &str| {
        if script.len() == 1 {
            ctx.inc(k)
        }
    };
    let mut open = false; // connection state before this step: false = new connection
    let mut end_open = false;
    let mut cut_short = false;
    for (i, req) in script.iter().enumerate() {
        let Some(v) = view(req) else { break };
        let Some(step) = obs.steps.get(i) else {
            text.push(format!("#{i} not delivered (connection closed)"));
            break;
        };
        let r = &step.response;
        let cookies: Vec<&Rec> = r.iter().filter(|x| x.kind() == 5).collect();
        let errors: Vec<u16> = r
            .iter()
            .filter(|x| x.kind() == 2)
            .flat_map(|x| x.u16s().unwrap_or_default())
            .collect();
        let has_ka = r.iter().any(|x| x.kind() == 8);
        let sup_p = r.iter().find(|x| x.kind() == 9).and_then(|x| x.u16s());
        let sup_a = r.iter().find(|x| x.kind() == 10).and_then(|x| x.u16s());
        let gave_something = !cookies.is_empty() || sup_p.is_some() || sup_a.is_some();
        let is_open = step.after == After::Open;
        text.push(format!(
            "#{i} {:?} token={:?} ka={} -> [{}]{} then {:?}",
            v.kind,
            v.token,
            v.ka,
            summarize(r),
            if step.complete { "" } else { " (incomplete)" },
            step.after
        ));
        if step.after == After::ExtraData {
            ctx.violation(
                "C29:extra-data",
                "server sent bytes after its End-Of-Message",
                trace.clone(),
            );
        }
        if !errors.is_empty() && gave_something {
            ctx.violation(
                "C29:error-with-cookies",
                format!(
                    "request #{i}: response carries an error record and cookies/parameter lists"
                ),
                trace.clone(),
            );
        }
        // cookies of a fixed-key answer must wrap exactly the supplied keys
        if let (Kind::Fk(alg), Some((c2s, s2c))) = (v.kind, &v.keys) {
            for c in &cookies {
                let good = match ks.decode_cookie(&c.body) {
                    Ok(d) => {
                        rig::aead_id(d.algorithm) == alg
                            && d.c2s.key_bytes() == &c2s[..]
                            && d.s2c.key_bytes() == &s2c[..]
                    }
                    Err(_) => false,
                };
                if !good {
                    ctx.violation(
                        "C29:cookie-keys-differ",
                        format!(
                            "request #{i}: a cookie does not decode to the supplied fixed keys"
                        ),
                        trace.clone(),
                    );
                    break;
                }
            }
        }
        if !open {
            // ---------------- new connection
            let token_ok = v.token.as_deref().is_some_and(|t| cfg.contains(&t));
            match v.kind {
                Kind::Ke => {
                    cnt("first_ke");
                    if is_open || obs.first_kept || has_ka {
                        ctx.violation(
                            "C29:kept-without-request-or-permit",
                            "plain key exchange left the connection open",
                            trace.clone(),
                        );
                    }
                    if cookies.len() != 8 || !errors.is_empty() {
                        ctx.violation("C29:ke-not-served", format!("plain key exchange on a new connection: {} cookies, errors {errors:?}", cookies.len()), trace.clone());
                    }
                }
                Kind::Fk(_) | Kind::Sup(..) => {
                    let want_kept = token_ok && v.ka && permit;
                    if token_ok {
                        cnt("first_pool_served_expected");
                        let served = match v.kind {
                            Kind::Fk(alg) => {
                                cookies.len() == 8
                                    && r.iter()
                                        .filter(|x| x.kind() == 1)
                                        .filter_map(|x| x.u16s())
                                        .collect::<Vec<_>>()
                                        == vec![vec![0u16]]
                                    && r.iter()
                                        .filter(|x| x.kind() == 4)
                                        .filter_map(|x| x.u16s())
                                        .collect::<Vec<_>>()
                                        == vec![vec![alg]]
                            }
                            Kind::Sup(p, a) => {
                                let mut want_p = versions_ids.to_vec();
                                want_p.sort();
                                let mut got_p = sup_p.clone().unwrap_or_default();
                                got_p.sort();
                                sup_p.is_some() == p
                                    && sup_a.is_some() == a
                                    && (!p || got_p == want_p)
                                    && (!a || {
                                        let g = sup_a.clone().unwrap_or_default();
                                        let mut pairs: Vec<(u16, u16)> = g
                                            .chunks(2)
                                            .filter(|c| c.len() == 2)
                                            .map(|c| (c[0], c[1]))
                                            .collect();
                                        pairs.sort();
                                        pairs == vec![(15, 32), (17, 64)]
                                    })
                            }
                            Kind::Ke => unreachable!(),
                        };
                        if !served || !errors.is_empty() || !step.complete {
                            ctx.violation(
                                "C29:valid-token-rejected",
                                format!("token {:?} is configured ({cfg:?}) but the request was not served: [{}]", v.token, summarize(r)),
                                trace.clone(),
                            );
                        } else {
                            cnt("first_pool_served");
                        }
                        if is_open != obs.first_kept {
                            ctx.violation(
                                "C29:handle-mismatch",
                                format!(
                                    "connection open={is_open} but long-lived handle returned={}",
                                    obs.first_kept
                                ),
                                trace.clone(),
                            );
                        }
                        if (is_open || obs.first_kept) && !want_kept {
                            ctx.violation(
                                "C29:kept-without-request-or-permit",
                                format!("connection kept open although keep-alive asked={} permit available={permit}", v.ka),
                                trace.clone(),
                            );
                        }
                        if want_kept && !(is_open && obs.first_kept) {
                            ctx.violation("C29:not-kept-despite-request-and-permit", "keep-alive asked, permit available, token valid, but the connection was closed", trace.clone());
                        }
                        if has_ka != is_open {
                            ctx.violation("C29:keepalive-flag-mismatch", format!("response keep-alive record={has_ka} but connection open={is_open}"), trace.clone());
                        }
                        if !v.ka && obs.permit_calls != 0 {
                            ctx.violation("C29:permit-taken-without-request", "a long-lived connection slot was requested although the client did not ask to keep the connection", trace.clone());
                        }
                        if is_open {
                            cnt("first_kept_open");
                        }
                    } else {
                        cnt("first_pool_rejected_expected");
                        if gave_something {
                            ctx.violation(
                                "C29:served-without-token",
                                format!(
                                    "token {:?} is not in {cfg:?} but the server answered [{}]",
                                    v.token,
                                    summarize(r)
                                ),
                                trace.clone(),
                            );
                        }
                        if errors != vec![1] {
                            ctx.violation(
                                "C29:not-bad-request",
                                format!("token {:?} not in {cfg:?}: expected a BadRequest(1) error record, got [{}]", v.token, summarize(r)),
                                trace.clone(),
                            );
                        } else {
                            cnt("first_pool_rejected_badrequest");
                        }
                        if is_open || obs.first_kept {
                            ctx.violation(
                                "C29:rejected-connection-left-open",
                                "connection stays open after a rejected pool request",
                                trace.clone(),
                            );
                        }
                        if !obs.first_err {
                            ctx.violation(
                                "C29:rejected-but-server-ok",
                                format!(
                                    "handle_connection returned {} for a rejected request",
                                    obs.first
                                ),
                                trace.clone(),
                            );
                        }
                        if obs.permit_calls != 0 {
                            ctx.violation("C29:permit-taken-for-rejected-request", "a long-lived connection slot was taken for an unauthenticated request", trace.clone());
                        }
                    }
                }
            }
        } else {
            // ---------------- kept-open connection
            match v.kind {
                Kind::Ke => {
                    ctx.inc("followup_ke");
                    if !cookies.is_empty() || errors != vec![1] {
                        ctx.violation(
                            "C29:ke-accepted-on-kept-connection",
                            format!(
                                "plain key exchange on a kept-open connection answered [{}]",
                                summarize(r)
                            ),
                            trace.clone(),
                        );
                    } else {
                        ctx.inc("followup_ke_badrequest");
                    }
                    if is_open {
                        ctx.violation(
                            "C29:ke-accepted-on-kept-connection",
                            "connection stays open after a plain key exchange request on it",
                            trace.clone(),
                        );
                    }
                }
                Kind::Fk(_) | Kind::Sup(..) => {
                    let served = errors.is_empty() && gave_something && step.complete;
                    ctx.inc(if served {
                        "followup_pool_served"
                    } else {
                        "followup_pool_refused"
                    });
                    if served && v.token.as_deref().is_some_and(|t| !cfg.contains(&t)) {
                        ctx.inc("followup_served_with_unconfigured_token");
                    }
                    if is_open && !v.ka {
                        ctx.violation("C29:followup-left-open-without-request", format!("request #{i} did not ask for keep-alive but the connection stays open"), trace.clone());
                    }
                    if served && v.ka && !is_open {
                        ctx.violation("C29:followup-closed-despite-request", format!("request #{i} was served and asked for keep-alive but the connection was closed"), trace.clone());
                    }
                    if !served && is_open {
                        ctx.violation(
                            "C29:rejected-connection-left-open",
                            format!("request #{i} was refused but the connection stays open"),
                            trace.clone(),
                        );
                    }
                    if served && is_open && !has_ka {
                        ctx.inc("followup_open_without_keepalive_record");
                    }
                }
            }
        }
        open = is_open;
        end_open = is_open && i + 1 == script.len();
        if !open {
            if i + 1 < script.len() {
                ctx.inc("scripts_cut_short_by_close");
                cut_short = true;
            }
            break;
        }
    }
    if let Some(l) = &obs.longterm {
        text.push(format!("longterm={l}"));
    }
    text.push(format!(
        "first={} permit_calls={}",
        obs.first, obs.permit_calls
    ));
    // a script whose tail was never delivered (connection closed earlier) repeats a shorter script
    if !cut_short {
        ctx.distinct(common::hash_of(&trace));
    }
    (text.join(" | "), end_open)
}

fn replay(ctx: &Ctx, trace: &str) -> String {
    let mut cfg: Vec<String> = Vec::new();
    let mut permit = false;
    let mut script = Vec::new();
    for part in trace.split(';') {
        if let Some(v) = part.strip_prefix("cfg=") {
            cfg = v
                .split(',')
                .filter(|s| !s.is_empty())
                .map(|s| s.to_string())
                .collect();
        } else if let Some(v) = part.strip_prefix("permit=") {
            permit = v == "1";
        } else if let Some(v) = part.strip_prefix("script=") {
            for h in v.split(',') {
                match common::unhex(h) {
                    Some(b) => script.push(b),
                    None => return "bad hex".into(),
                }
            }
        }
    }
    let cfg_refs: Vec<&str> = cfg.iter().map(|s| s.as_str()).collect();
    let kex = rig::server(vec![NtpVersion::V4, NtpVersion::V5], cfg.clone());
    let ks = keyset();
    run_case(
        ctx,
        &rt(),
        &rig::raw_connector(),
        &kex,
        &ks,
        &cfg_refs,
        &[0, 0x8001],
        permit,
        &script,
    )
    .0
}

#[test]
fn check() {
    let ctx = Ctx::new("C29");
    if let Some(t) = common::replay_trace() {
        let a = replay(&ctx, &t);
        let b = replay(&ctx, &t);
        common::report_replay("C29", &a, &b, ctx.violation_count() > 0);
        return;
    }
    let depth = if ctx.quick() { 4 } else { 6 };
    ctx.rule(
        "every case is one real TLS connection to handle_connection (+ handle_longterm when a handle is returned). First \
         requests: 3 token configurations x 6 request kinds x 8 token values (absent, wrong, empty, prefix, extension, case \
         variant, each configured token) x keep-alive x permit availability. For every first request after which the connection \
         is open: all follow-up scripts of length 1..=4 (thorough 1..=6) every proper prefix of which leaves the connection open, over 13 requests {KE, FixedKey x keep-alive x token \
         (none, wrong, alpha), Support x keep-alive x token}. Distinct & non-trivial = distinct (configuration, permit, \
         request script) all of whose requests were delivered (scripts cut short by an earlier close are run but not counted).",
    );
    ctx.assume("connection state is observed at the client end: a 1 s virtual-time read timeout with both ends idle means 'open'");
    ctx.assume("'served' for Support means the asked lists are present with the configured protocols and {(15,32),(17,64)}; for FixedKey 8 cookies that decode to the supplied keys");
    ctx.assume("follow-up FixedKey/Support requests on an already authenticated connection are not re-checked against the token list (statement is silent); only their keep-open behaviour and cookie contents are checked");

    let versions = vec![NtpVersion::V4, NtpVersion::V5];
    let versions_ids = [0u16, 0x8001];
    let servers: Vec<KeyExchangeServer> = CFGS
        .iter()
        .map(|c| rig::server(versions.clone(), c.iter().map(|s| s.to_string()).collect()))
        .collect();
    let ks = keyset();
    let connector = rig::raw_connector();
    let kinds = [
        Kind::Ke,
        Kind::Fk(15),
        Kind::Fk(17),
        Kind::Sup(true, false),
        Kind::Sup(false, true),
        Kind::Sup(true, true),
    ];

    // ---- first requests
    struct First {
        cfg: usize,
        permit: bool,
        req: Vec<u8>,
    }
    let mut firsts = Vec::new();
    for cfg in 0..CFGS.len() {
        for kind in kinds {
            for tok in TOKENS {
                for ka in [false, true] {
                    for permit in [false, true] {
                        firsts.push(First {
                            cfg,
                            permit,
                            req: request(kind, tok, ka),
                        });
                    }
                }
            }
        }
    }
    let kept: std::sync::Mutex<Vec<usize>> = std::sync::Mutex::new(Vec::new());
    common::par_for_with(firsts.len() as u64, 4, rt, |rt, i| {
        let f = &firsts[i as usize];
        let (obs, open) = run_case(
            &ctx,
            rt,
            &connector,
            &servers[f.cfg],
            &ks,
            CFGS[f.cfg],
            &versions_ids,
            f.permit,
            std::slice::from_ref(&f.req),
        );
        ctx.inc("evaluations");
        if open {
            kept.lock().unwrap().push(i as usize);
        }
        if i % 97 == 13 || (open && i % 7 == 0) {
            ctx.sample(format!("cfg={:?} permit={}: {obs}", CFGS[f.cfg], f.permit));
        }
    });
    let mut kept = kept.into_inner().unwrap();
    kept.sort();
    ctx.set("first_requests", firsts.len() as u64);
    ctx.set("first_requests_leaving_connection_open", kept.len() as u64);

    // ---- follow-ups
    let mut alphabet: Vec<Vec<u8>> = vec![request(Kind::Ke, None, false)];
    for kind in [Kind::Fk(15), Kind::Sup(true, true)] {
        for ka in [false, true] {
            for tok in [None, Some("wrong"), Some(T1)] {
                alphabet.push(request(kind, tok, ka));
            }
        }
    }
    let k = alphabet.len();
    // breadth-first over scripts that leave the connection open: a script is extended only
    // if the connection is still open after it (anything sent after a close is never read)
    let mut frontier: Vec<(usize, Vec<usize>)> = kept.iter().map(|f| (*f, Vec::new())).collect();
    for d in 1..=depth {
        if ctx.over_budget() {
            ctx.cap_hit(&format!(
                "follow-up depth {d} not started; depth<={} complete",
                d - 1
            ));
            break;
        }
        let n = (frontier.len() * k) as u64;
        let next: std::sync::Mutex<Vec<(usize, Vec<usize>)>> = std::sync::Mutex::new(Vec::new());
        common::par_for_with(n, 8, rt, |rt, i| {
            let (fi, w) = &frontier[i as usize / k];
            let f = &firsts[*fi];
            let mut w = w.clone();
            w.push(i as usize % k);
            let mut script = vec![f.req.clone()];
            for s in &w {
                script.push(alphabet[*s].clone());
            }
            let (obs, open) = run_case(
                &ctx,
                rt,
                &connector,
                &servers[f.cfg],
                &ks,
                CFGS[f.cfg],
                &versions_ids,
                f.permit,
                &script,
            );
            ctx.inc("evaluations");
            if open {
                next.lock().unwrap().push((*fi, w));
            }
            if i % 1013 == 501 {
                ctx.sample(format!("cfg={:?}: {obs}", CFGS[f.cfg]));
            }
        });
        let mut next = next.into_inner().unwrap();
        next.sort();
        ctx.add(
            "followup_scripts_leaving_connection_open",
            next.len() as u64,
        );
        frontier = next;
        ctx.set("followup_depth_completed", d as u64);
    }
    ctx.set("states", ctx.get("sessions"));
    ctx.exhaustive(true);
    ctx.finish();
}
