//! C29: not implemented yet.
