//! C12: not implemented yet.
